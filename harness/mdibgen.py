"""Generator of transaction histories for the MDIB streams and the oracles that evaluate the MDIB
properties directly on implementation traces (harness side).

Operation formats (executed by harness/impl/mdib_impl.py, translated by harness/mdibmodel.py):
  {'k': 'state', 'tx': kind, 'iface': 'classic'|'entity', 'items': [[handle, n] | [handle, n, slot], ...]}
  {'k': 'ctx', 'iface': ..., 'actions': [['mk', dh, handle|None, assoc, n(, slot)], ['get', handle, n, assoc(, slot)],
                                         ['disall', dh, ignored], ['delstate', handle]]}
  {'k': 'descr', 'iface': ..., 'actions': [['add', handle, parent|None, type, n, state_n|None(, slot)],
                                           ['upd', handle, n(, slot)], ['updsrc', handle, value], ['del', handle],
                                           ['state', handle, n]]}
  {'k': 'read', 'handle': h, 'slot': s}      entities.by_handle(h) is kept in slot s; a later operation that names the
                                             slot writes THAT (by then possibly stale) entity instead of a fresh one
  {'k': 'location', 'n': n}
  optional: 'abort_at': i (the application raises after i body statements), 'expect': 'abort'|'reject', 'tag': [...]
  (tags only feed the histograms), 'nomodel': True (outside the domain of coq/Mdib/Model.v: the model correspondence
  compares the case up to this operation, the oracles judge all of it)."""
from __future__ import annotations

import copy

CHILD_TYPES = {'MdsDescriptor': ['VmdDescriptor', 'VmdDescriptor', 'SystemContextDescriptor'],
               'VmdDescriptor': ['ChannelDescriptor', 'ChannelDescriptor', 'ChannelDescriptor', 'AlertSystemDescriptor', 'ScoDescriptor'],
               'ChannelDescriptor': ['NumericMetricDescriptor', 'NumericMetricDescriptor', 'NumericMetricDescriptor',
                                     'RealTimeSampleArrayMetricDescriptor'],
               'ScoDescriptor': ['ActivateOperationDescriptor'],
               'SystemContextDescriptor': ['PatientContextDescriptor']}
CHILD_TYPE = {k: v[0] for k, v in CHILD_TYPES.items()}
# the schema allows at most one of these below one parent (matters when the whole MDIB is serialised: GetMdib)
SINGLETON = {'SystemContextDescriptor', 'PatientContextDescriptor', 'AlertSystemDescriptor', 'ScoDescriptor'}
TX_OF_TYPE = {'NumericMetricDescriptor': 'metric', 'ChannelDescriptor': 'comp', 'VmdDescriptor': 'comp',
              'MdsDescriptor': 'comp', 'SystemContextDescriptor': 'comp', 'PatientContextDescriptor': 'ctx',
              'AlertSystemDescriptor': 'alert', 'ScoDescriptor': 'comp', 'ActivateOperationDescriptor': 'op',
              'RealTimeSampleArrayMetricDescriptor': 'rt'}

DEFAULT_WEIGHTS = {'state': 5, 'ctx': 2, 'location': 1, 'descr': 3, 'reject': 1, 'abort': 1, 'macro': 2, 'empty': 1,
                   'catch': 1}

# orders in which the states of two MDSs (A, B) follow each other inside ONE transaction
PATTERNS = ('ABA', 'BAB', 'AAB', 'ABB', 'BAA', 'BBA', 'ABAB', 'ABBA', 'ABABA')


class Gen:
    """keeps a symbolic picture of the provider MDIB so that most generated operations are valid"""

    def __init__(self, rng, inv, weights=None, iface_mix=0.35):
        self.rng = rng
        self.inv = inv
        self.w = dict(DEFAULT_WEIGHTS)
        if weights:
            self.w.update(weights)
        self.iface_mix = iface_mix
        self.tree = dict(inv['tree'])            # handle -> parent   (live descriptors)
        self.types = dict(inv['types'])
        self.deleted = {}                        # handle -> (parent, type) of deleted generated descriptors
        self.ctx_states = dict(inv.get('ctx_states', {}))     # canonical handle -> descriptor handle
        self.dead_ctx = {}                       # explicit handle of a removed context state -> descriptor handle
        self.slots = {}                          # slot -> {'h': handle, 'cs': context states at read time, 'dirty': bool}
        self.hot = []                            # handles touched lately (histories keep working on the same objects)
        self.n = 0
        self.ngen = sum(1 for h in self.ctx_states if h.startswith('gen'))
        self.nctx = 0
        self.nslot = 0
        self.kinds = {k: list(inv[k]) for k in ('metric', 'metric_str', 'rt', 'alert', 'comp', 'op', 'ctx')}

    # ------------------------------------------------------------------ helpers
    def fresh(self):
        self.n += 1
        return self.n

    def iface(self):
        return 'entity' if self.rng.random() < self.iface_mix else 'classic'

    def live(self, kind):
        return [h for h in self.kinds[kind] if h in self.tree]

    def touch(self, *handles):
        for h in handles:
            if h in self.hot:
                self.hot.remove(h)
            self.hot.append(h)
        del self.hot[:-6]

    def pick(self, pool, p_hot=0.4):
        hot = [h for h in self.hot if h in pool]
        if hot and self.rng.random() < p_hot:
            return self.rng.choice(hot)
        return self.rng.choice(pool)

    def mds_of(self, h):
        seen = 0
        while self.tree.get(h) is not None and seen < 64:
            h = self.tree[h]
            seen += 1
        return h

    def by_mds(self, handles):
        out = {}
        for h in handles:
            out.setdefault(self.mds_of(h), []).append(h)
        return out

    def interleaved(self, pool, pattern=None):
        """>= 3 handles of `pool` whose MDSs follow each other as in `pattern` (None: the pool lives in one MDS)"""
        groups = self.by_mds(pool)
        if len(groups) < 2:
            return None
        for _ in range(6):
            a, b = self.rng.sample(sorted(groups), 2)
            pat = pattern or self.rng.choice(PATTERNS)
            left = {'A': list(groups[a]), 'B': list(groups[b])}
            self.rng.shuffle(left['A'])
            self.rng.shuffle(left['B'])
            out = [left[ch].pop() for ch in pat if left[ch]]
            if len(out) >= 3 and len({self.mds_of(h) for h in out}) == 2:
                return out
        return None

    def state_pool(self, tx):
        return self.live(tx) + (self.live('metric_str') if tx == 'metric' else [])

    def slot_for(self, h):
        for s in sorted(self.slots, reverse=True):
            if self.slots[s]['h'] == h:
                return s
        return None

    def ctx_of(self, dh):
        return [h for h, d in self.ctx_states.items() if d == dh]

    def dirty(self, dh):
        """the set / the association bookkeeping of the context states of dh changed: entities read earlier no longer
        agree with the MDIB in more than payload and version"""
        for s in self.slots.values():
            if s['h'] == dh:
                s['dirty'] = True

    def child_options(self, p):
        out = []
        for t in CHILD_TYPES.get(self.types.get(p), []):
            if t in SINGLETON and any(pp == p and self.types[c] == t for c, pp in self.tree.items()):
                continue
            out.append(t)
        return out

    # ------------------------------------------------------------------ op makers
    def op_read(self, h):
        self.nslot += 1
        self.slots[self.nslot] = {'h': h, 'cs': self.ctx_of(h), 'dirty': False}
        return {'k': 'read', 'handle': h, 'slot': self.nslot}

    def op_state(self, tx=None, interleave=None, iface=None, handles=None, dup=None):
        if tx is None:
            kinds = ['metric', 'metric', 'alert', 'comp', 'op', 'rt']
            multi = [k for k in ('metric', 'alert', 'comp', 'op', 'rt') if len(self.by_mds(self.state_pool(k))) > 1]
            tx = self.rng.choice(multi if multi and self.rng.random() < 0.4 else kinds)
        pool = self.state_pool(tx)
        if not pool:
            return None
        iface = iface or self.iface()
        tag = []
        if handles is None and (interleave or (interleave is None and self.rng.random() < 0.6)):
            handles = self.interleaved(pool, interleave if isinstance(interleave, str) else None)
            if handles:
                tag.append('mds-interleaved')
        if handles is None:
            if interleave:
                return None
            k = min(len(pool), self.rng.choice([1, 1, 1, 2, 3]))
            handles = [self.pick(pool)]
            handles += self.rng.sample([h for h in pool if h != handles[0]], k - 1)
        items = []
        for h in handles:
            it = [h, self.fresh()]
            s = self.slot_for(h)
            if iface == 'entity' and s is not None and self.rng.random() < 0.7:
                it.append(s)
                tag.append('stale-entity')
            items.append(it)
        if dup if dup is not None else self.rng.random() < 0.12:
            # the same handle twice in one transaction: get_state refuses the second one (the whole transaction is
            # abandoned), write_entity replaces the first write
            j = self.rng.randrange(len(items))
            items.insert(self.rng.randint(j + 1, len(items)), [items[j][0], self.fresh()] + items[j][2:])
        self.touch(handles[0])
        op = {'k': 'state', 'tx': tx, 'iface': iface, 'items': items}
        if tag:
            op['tag'] = sorted(set(tag))
        return op

    def _mk(self, dh, iface, acts, handle='new', assoc=None, slot=None, explicit=False):
        """append the actions that create a context state of dh; returns its canonical handle"""
        if handle == 'new':
            self.nctx += 1
            handle = f'cs{self.nctx}' if explicit or self.rng.random() < 0.6 else None
        if assoc is None:
            assoc = self.rng.random() < 0.7
        if assoc and self.rng.random() < 0.8 and iface == 'classic':
            acts.append(['disall', dh, None])
        a = ['mk', dh, handle, assoc, self.fresh()]
        if slot is not None:
            a.append(slot)
        acts.append(a)
        name = handle or f'gen{self._next_gen()}'
        self.ctx_states[name] = dh
        self.dead_ctx.pop(name, None)
        self.dirty(dh)
        return name

    def op_ctx(self):
        r = self.rng.random()
        dhs = self.live('ctx')
        if not dhs:
            return None
        iface = self.iface()
        groups = self.by_mds(dhs)
        if len(groups) > 1 and self.rng.random() < 0.4:
            # one transaction with context states of several MDSs, in an order in which the MDSs alternate
            a, b = self.rng.sample(sorted(groups), 2)
            seq = [self.rng.choice(groups[a if ch == 'A' else b]) for ch in self.rng.choice(PATTERNS)]
            acts, used = [], set()
            for dh in seq:
                free = [h for h in self.ctx_of(dh) if h not in used]
                if free and self.rng.random() < 0.5:
                    h = self.rng.choice(free)
                    acts.append(['get', h, self.fresh(), None])
                else:
                    h = self._mk(dh, 'entity', acts, assoc=False, explicit=True)      # no disassociate_all in between
                used.add(h)
            return {'k': 'ctx', 'iface': iface, 'actions': acts, 'tag': ['mds-interleaved']}
        dh = self.pick(dhs)
        mine = self.ctx_of(dh)
        dead = [h for h, d in self.dead_ctx.items() if d == dh]
        acts = []
        tag = []
        self.touch(dh)
        dup = self.rng.random() < (0.25 if iface == 'entity' else 0.12)          # the same state handle twice in one transaction
        if dup and iface == 'classic' and (r < 0.45 or not mine):
            # mk_context_state refuses the second one: the transaction is abandoned, nothing is created
            snap = self._save()
            h = self._mk(dh, iface, acts, explicit=True)
            self._restore(snap)
            acts.append(['mk', dh, h, self.rng.random() < 0.5, self.fresh()])
            return {'k': 'ctx', 'iface': iface, 'actions': acts, 'expect': 'reject'}
        if r < 0.45 or not mine:
            if dead and self.rng.random() < 0.6:
                self._mk(dh, iface, acts, handle=self.rng.choice(dead))     # a removed handle comes back
                tag.append('recreate')
            else:
                s = self.slot_for(dh)
                if iface == 'entity' and s is not None and self.rng.random() < 0.6:
                    self._mk(dh, iface, acts, slot=s)
                    tag.append('stale-entity')
                else:
                    h = self._mk(dh, iface, acts, explicit=dup)
                    if dup:       # entity interface: the second write_entity replaces the first
                        acts.append(['mk', dh, h, self.rng.random() < 0.5, self.fresh()])
        elif r < 0.8 - self.w.get('delstate', 0) * 0.1:
            h = self.rng.choice(mine)
            assoc = self.rng.choice([None, None, True, False])
            a = ['get', h, self.fresh(), assoc]
            s = self.slot_for(dh)
            if (iface == 'entity' and s is not None and h in self.slots[s]['cs'] and not self.slots[s]['dirty']
                    and self.rng.random() < 0.7):
                a.append(s)
                tag.append('stale-entity')
            acts.append(a)
            if dup:
                a2 = list(a)
                a2[2], a2[3] = self.fresh(), self.rng.choice([None, True, False])
                acts.append(a2)
                assoc = assoc if iface == 'classic' else a2[3]
            if assoc is not None or dup:
                self.dirty(dh)
        elif r < 0.8:
            h = self.rng.choice(mine)          # entity interface only: delete a context state
            acts.append(['delstate', h])
            self._ctx_gone(h)
            iface = 'entity'
        else:
            acts.append(['disall', dh, self.rng.choice([None] + mine)])
            iface = 'classic'
            self.dirty(dh)
        op = {'k': 'ctx', 'iface': iface, 'actions': acts}
        if tag:
            op['tag'] = tag
        return op

    def _ctx_gone(self, h):
        dh = self.ctx_states.pop(h)
        if not h.startswith('gen'):
            self.dead_ctx[h] = dh
        self.dirty(dh)

    def _next_gen(self):
        self.ngen += 1
        return self.ngen

    def op_location(self):
        # set_location creates a state with a uuid handle
        for dh in self.live('ctx'):
            if self.types.get(dh) == 'LocationContextDescriptor':
                self.ctx_states[f'gen{self._next_gen()}'] = dh
                self.dirty(dh)
                return {'k': 'location', 'n': self.fresh()}
        return None

    def recreatable(self):
        out = []
        for h, (pp, tt) in self.deleted.items():
            if h in self.tree or (pp is not None and pp not in self.tree):
                continue
            if tt in SINGLETON and any(p2 == pp and self.types[c] == tt for c, p2 in self.tree.items()):
                continue
            out.append(h)
        return out

    def add_action(self, h, p, t, iface, slot=None):
        a = ['add', h, p, t, self.fresh(), self.fresh() if self.rng.random() < 0.5 and t != 'PatientContextDescriptor' else None]
        if slot is not None:
            a.append(slot)
        self._add(h, p, t)
        return a

    def op_descr(self):
        r = self.rng.random()
        iface = self.iface()
        acts = []
        tag = []
        parents = [h for h in self.tree if self.child_options(h)]
        generated = [h for h in self.tree if h.startswith('g_')]
        nested = [(c, p) for c, p in self.tree.items() if c in generated and p in generated]
        if self.rng.random() < 0.04 and parents:
            # a descriptor below a parent that does not exist (entity interface: SourceMds is preset, so only the commit
            # can notice): must be rejected as a whole
            p = self.rng.choice(parents)
            acts = [['add', f'g_{self.fresh()}', f'no_such_parent_{self.fresh()}', self.child_options(p)[0], self.fresh(), None]]
            if self.rng.random() < 0.5:
                acts.insert(0, ['upd', p, self.fresh()])     # ... together with a legal update that must not survive
            return {'k': 'descr', 'iface': 'entity', 'actions': acts, 'orphan': True}
        if nested and self.rng.random() < 0.25:
            # one transaction that removes a subtree AND touches something inside it
            c, p = self.rng.choice(nested)
            k = self.rng.random()
            if k < 0.35:          # remove a child and its ancestor (either order): allowed, the subtree goes once
                acts = [['del', c], ['del', p]]
                if self.rng.random() < 0.5:
                    acts.reverse()
                self._del(p)
            elif k < 0.7:         # update a descriptor inside the removed subtree: must be rejected as a whole
                acts = [['upd', c, self.fresh()], ['del', p]]
                if self.rng.random() < 0.5:
                    acts.reverse()
            else:                 # create a descriptor below a removed one: must be rejected as a whole
                opts = self.child_options(p)
                if not opts:
                    return None
                acts = [['add', f'g_{self.fresh()}', p, opts[0], self.fresh(), None], ['del', p]]
                if self.rng.random() < 0.5:
                    acts.reverse()
            return {'k': 'descr', 'iface': iface, 'actions': acts, 'subtree_conflict': True}
        n_mds = sum(1 for h in generated if self.types[h] == 'MdsDescriptor')
        recreate = self.recreatable()
        if r < 0.08 and n_mds < 2 and not any(self.deleted[h][1] == 'MdsDescriptor' for h in recreate):
            # a transaction whose only effect is the creation of a descriptor without parent: a new MDS
            h = f'g_{self.fresh()}'
            acts.append(self.add_action(h, None, 'MdsDescriptor', iface))
            tag.append('root-create')
        elif r < 0.38 and (parents or recreate):
            if recreate and self.rng.random() < 0.7:
                h = self.pick(recreate, 0.7)
                p, t = self.deleted.pop(h)
                tag.append('recreate')
                if p is None:
                    tag.append('root-create')
                s = self.slot_for(h) if iface == 'entity' and t != 'PatientContextDescriptor' else None
                if s is not None:
                    tag.append('stale-entity')      # the entity was read before the descriptor was removed
                acts.append(self.add_action(h, p, t, iface, s))
            else:
                p = self.pick(parents)
                t = self.rng.choice(self.child_options(p))
                h = f'g_{self.fresh()}'
                acts.append(self.add_action(h, p, t, iface))
            self.touch(h)
            k = self.rng.random()
            if p is None:
                pass
            elif k < 0.3:      # parent update + child add in ONE transaction, either order
                upd = ['upd', p, self.fresh()]
                if self.rng.random() < 0.5:
                    acts.insert(0, upd)
                else:
                    acts.append(upd)
            elif k < 0.5 and t not in SINGLETON:                   # a second child of the same parent (siblings)
                h2 = f'g_{self.fresh()}'
                acts.append(self.add_action(h2, p, t, iface))
                acts[-1][5] = None
            elif k < 0.7 and self.child_options(h):                # add a grandchild in the same transaction
                h2 = f'g_{self.fresh()}'
                acts.append(self.add_action(h2, h, self.rng.choice(self.child_options(h)), iface))
                acts[-1][5] = None
        elif r < 0.6:
            ctxd = [h for h in self.live('ctx')]
            many = [h for h in ctxd if len(self.ctx_of(h)) >= 2]
            cands = [h for h in self.tree if self.types[h] in TX_OF_TYPE or self.types[h].startswith('Alert')] + ctxd
            k = self.rng.random()
            groups = self.by_mds(self.live('metric'))
            if k < 0.2 and len(groups) > 1:
                # descriptors of several MDSs in one transaction: their states go into ONE episodic report
                hs = self.interleaved(self.live('metric')) or []
                acts += [['upd', h, self.fresh()] for h in hs]
                tag.append('mds-interleaved')
            if not acts:
                if many and k < 0.5:
                    h = self.rng.choice(many)
                elif ctxd and k < 0.6:
                    h = self.rng.choice(ctxd)
                else:
                    h = self.pick(cands)
                a = ['upd', h, self.fresh()]
                s = self.slot_for(h)
                if iface == 'entity' and s is not None and self.rng.random() < 0.7:
                    if h in ctxd and (self.slots[s]['dirty'] or sorted(self.slots[s]['cs']) != sorted(self.ctx_of(h))):
                        s = None        # would delete / re-create context states as a side effect: not generated
                    if s is not None:
                        a.append(s)
                        tag.append('stale-entity')
                acts.append(a)
                self.touch(h)
                if self.rng.random() < 0.08:
                    acts.append(['upd', h, self.fresh()])      # twice in one transaction: refused by both interfaces
                elif h not in ctxd and self.rng.random() < 0.35 and iface == 'classic' and self.types[h] in TX_OF_TYPE:
                    acts.append(['state', h, self.fresh()])         # descriptor and its state in one transaction
        elif r < 0.72 and self.inv['alert_cond']:
            live_c = [h for h in self.inv['alert_cond'] if h in self.tree]
            live_s = [h for h in self.inv['alert_sig'] if h in self.tree]
            metrics = self.live('metric')
            iface = 'classic'
            if live_c and metrics and (self.rng.random() < 0.6 or not live_s):
                acts.append(['updsrc', self.rng.choice(live_c),
                             self.rng.sample(metrics, min(len(metrics), self.rng.randint(0, 2)))])
            elif live_s and live_c:
                acts.append(['updsrc', self.rng.choice(live_s), [self.rng.choice(live_c)]])
            else:
                return None
        elif generated:
            h = self.pick(generated, 0.6)
            acts.append(['del', h])
            sib = [g for g in generated if g != h and self.tree.get(g) == self.tree.get(h) and g in self.tree]
            self._del(h)
            if sib and self.rng.random() < 0.4:                  # remove a sibling in the same transaction
                h2 = self.rng.choice(sib)
                if h2 in self.tree:
                    acts.append(['del', h2])
                    self._del(h2)
        else:
            return None
        op = {'k': 'descr', 'iface': iface, 'actions': acts}
        if tag:
            op['tag'] = tag
        return op

    def _add(self, h, p, t):
        self.tree[h] = p
        self.types[h] = t
        if h not in self.kinds[TX_OF_TYPE[t]]:
            self.kinds[TX_OF_TYPE[t]].append(h)

    def _del(self, h):
        for c in [c for c, p in self.tree.items() if p == h]:
            self._del(c)
        for s in self.ctx_of(h):
            self._ctx_gone(s)
        self.deleted[h] = (self.tree.pop(h), self.types[h])

    def op_reject(self):
        """an API call the transaction must reject; the whole transaction is then abandoned"""
        r = self.rng.random()
        metrics, alerts = self.live('metric'), self.live('alert')
        if self.ctx_states and self.rng.random() < 0.25:
            # a context state handle that exists already: mk_context_state / add_state must refuse, whatever went before
            h = self.rng.choice(sorted(self.ctx_states))
            dh = self.ctx_states[h]
            other_dhs = sorted({d for d in self.ctx_states.values() if d != dh} |
                               {x for x in ('PC.mds0', 'LC.mds0') if x in self.tree and x != dh})
            if other_dhs and self.rng.random() < 0.5:
                dh = self.rng.choice(other_dhs)       # the handle is in use by a state of ANOTHER context descriptor
            acts = [['mk', dh, h, self.rng.random() < 0.5, self.fresh()]]
            others = [o for o in self.ctx_of(dh) if o != h]
            if others and self.rng.random() < 0.5:
                acts.insert(0, ['get', self.rng.choice(others), self.fresh(), None])
            return {'k': 'ctx', 'iface': 'classic', 'actions': acts, 'add_state': self.rng.random() < 0.6, 'expect': 'reject',
                    'tag': ['existing-ctx-handle']}
        if r < 0.2:
            return {'k': 'state', 'tx': 'metric', 'items': [['no_such_handle', 1]], 'expect': 'reject'}
        if r < 0.4 and alerts:
            return {'k': 'state', 'tx': 'metric', 'items': [[self.rng.choice(alerts), self.fresh()]], 'expect': 'reject'}
        if r < 0.6 and len(metrics) > 1:
            h = self.rng.choice(metrics)
            other = self.rng.choice([m for m in metrics if m != h])
            return {'k': 'state', 'tx': 'metric', 'items': [[other, self.fresh()], [h, self.fresh()], [h, self.fresh()]],
                    'expect': 'reject'}
        if r < 0.75:
            h = self.rng.choice(list(self.tree))
            return {'k': 'descr', 'actions': [['upd', self.rng.choice(list(self.tree)), self.fresh()],
                                              ['add', h, self.tree[h] or h, 'ChannelDescriptor', 1, None]],
                    'expect': 'reject'}
        if r < 0.9 and metrics:
            return {'k': 'ctx', 'actions': [['mk', self.rng.choice(metrics), 'bad', True, 1]], 'expect': 'reject'}
        return {'k': 'descr', 'actions': [['del', 'no_such_handle']], 'expect': 'reject'}

    # ------------------------------------------------------------------ macros: short scripted walks
    def _iface_seq(self, mode):
        return {'classic': lambda: 'classic', 'entity': lambda: 'entity'}.get(mode, self.iface)

    def new_leaf(self):
        """(handle, parent, type) of a fresh metric / channel below a live parent"""
        chans = [h for h in self.tree if self.types[h] == 'ChannelDescriptor']
        vmds = [h for h in self.tree if self.types[h] == 'VmdDescriptor']
        if chans and (not vmds or self.rng.random() < 0.7):
            return f'g_{self.fresh()}', self.pick(chans), 'NumericMetricDescriptor'
        if vmds:
            return f'g_{self.fresh()}', self.pick(vmds), 'ChannelDescriptor'
        return None

    def touch_ops(self, h, iface):
        """0..2 committed changes of descriptor h / its state (version counters move on)"""
        ops = []
        t = self.types[h]
        for _ in range(self.rng.choice([0, 1, 1, 2])):
            k = self.rng.random()
            if k < 0.4 and t in TX_OF_TYPE and TX_OF_TYPE[t] != 'ctx':
                ops.append({'k': 'state', 'tx': TX_OF_TYPE[t], 'iface': iface(), 'items': [[h, self.fresh()]]})
            elif k < 0.8:
                ops.append({'k': 'descr', 'iface': iface(), 'actions': [['upd', h, self.fresh()]]})
            else:
                ops.append({'k': 'descr', 'iface': 'classic', 'actions': [['upd', h, self.fresh()], ['state', h, self.fresh()]]}
                           if t != 'PatientContextDescriptor' else
                           {'k': 'descr', 'iface': iface(), 'actions': [['upd', h, self.fresh()]]})
        return ops

    def macro_cycles(self, mode=None, cycles=None, stale=None):
        """several delete / re-create cycles of ONE descriptor handle (with its state), updates in between"""
        iface = self._iface_seq(mode)
        gen = [h for h in self.tree if h.startswith('g_') and self.types[h] in ('NumericMetricDescriptor', 'ChannelDescriptor')]
        ops = []
        if gen and self.rng.random() < 0.5:
            h = self.pick(gen, 0.7)
            p, t = self.tree[h], self.types[h]
        else:
            leaf = self.new_leaf()
            if leaf is None:
                return []
            h, p, t = leaf
            ops.append({'k': 'descr', 'iface': iface(), 'actions': [self.add_action(h, p, t, None)]})
        cycles = cycles or self.rng.choice([2, 2, 3])
        for c in range(cycles):
            ops += self.touch_ops(h, iface)
            slot = None
            if stale if stale is not None else self.rng.random() < 0.3:
                ops.append(self.op_read(h))
                slot = self.nslot
            ops.append({'k': 'descr', 'iface': iface(), 'actions': [['del', h]], 'tag': ['cycle']})
            self._del(h)
            if self.rng.random() < 0.3:
                ops += [o for o in [self.op_state()] if o]
            self.deleted.pop(h, None)
            if slot is not None:
                op = {'k': 'descr', 'iface': 'entity', 'actions': [self.add_action(h, p, t, None, slot)],
                      'tag': ['recreate', 'stale-entity']}
            else:
                op = {'k': 'descr', 'iface': iface(), 'actions': [self.add_action(h, p, t, None)], 'tag': ['recreate']}
            ops.append(op)
        ops += self.touch_ops(h, iface)
        self.touch(h)
        return ops

    def macro_family(self, mode=None):
        """several children of ONE otherwise untouched parent added / removed in one transaction (the parent gets one new
        version and one report part), a nested removal, and the two kinds of transactions the library refuses"""
        iface = self._iface_seq(mode)
        vmds = [h for h in self.tree if self.types[h] == 'VmdDescriptor']
        if not vmds:
            return []
        v = self.pick(vmds)
        ch, m1, m2, m3, m4 = (f'g_{self.fresh()}' for _ in range(5))
        ops = [{'k': 'descr', 'iface': iface(), 'actions': [self.add_action(ch, v, 'ChannelDescriptor', None)]},
               {'k': 'descr', 'iface': iface(), 'tag': ['siblings-add'],
                'actions': [self.add_action(m1, ch, 'NumericMetricDescriptor', None),
                            self.add_action(m2, ch, 'NumericMetricDescriptor', None)]},
               {'k': 'state', 'tx': 'comp', 'iface': iface(), 'items': [[ch, self.fresh()]]}]
        # one sibling added, another removed: still one new version of the parent
        a3 = self.add_action(m3, ch, 'NumericMetricDescriptor', None)
        ops.append({'k': 'descr', 'iface': iface(), 'tag': ['sibling-add+remove'], 'actions': [a3, ['del', m1]]})
        self._del(m1)
        # refused as a whole: update below a removed subtree / a child below a removed parent / an orphan
        ops.append({'k': 'descr', 'iface': iface(), 'actions': [['upd', m2, self.fresh()], ['del', ch]], 'subtree_conflict': True})
        ops.append({'k': 'descr', 'iface': iface(), 'subtree_conflict': True,
                    'actions': [['del', ch], ['add', m4, ch, 'NumericMetricDescriptor', self.fresh(), None]]})
        ops.append({'k': 'descr', 'iface': 'entity', 'orphan': True,
                    'actions': [['add', f'g_{self.fresh()}', f'no_such_parent_{self.fresh()}', 'NumericMetricDescriptor', self.fresh(), None]]})
        ops.append({'k': 'descr', 'iface': iface(), 'actions': [['upd', m2, self.fresh()]]})
        # both remaining siblings removed in one transaction, then a nested removal of what is left
        ops.append({'k': 'descr', 'iface': iface(), 'tag': ['siblings-remove'], 'actions': [['del', m2], ['del', m3]]})
        self._del(m2)
        self._del(m3)
        a5 = self.add_action(m4, ch, 'NumericMetricDescriptor', None)
        ops.append({'k': 'descr', 'iface': iface(), 'actions': [a5]})
        acts = [['del', m4], ['del', ch]]
        if self.rng.random() < 0.5:
            acts.reverse()
        ops.append({'k': 'descr', 'iface': iface(), 'tag': ['nested-remove'], 'actions': acts, 'subtree_conflict': True})
        self._del(ch)
        return ops

    def ensure_gen_pc(self, iface, ops):
        """a context descriptor the generator may delete: a PatientContext below a SystemContext that has none"""
        pcs = [h for h in self.tree if h.startswith('g_') and self.types[h] == 'PatientContextDescriptor']
        if pcs:
            return self.rng.choice(pcs)
        scs = [h for h in self.tree if self.types[h] == 'SystemContextDescriptor' and 'PatientContextDescriptor' in self.child_options(h)]
        if not scs:
            mds = [h for h in self.tree if self.types[h] == 'MdsDescriptor' and 'SystemContextDescriptor' in self.child_options(h)]
            if not mds:
                mds = [self.macro_root(ops, iface)]
            sc = f'g_{self.fresh()}'
            ops.append({'k': 'descr', 'iface': iface(), 'actions': [self.add_action(sc, self.rng.choice(mds), 'SystemContextDescriptor', None)]})
            scs = [sc]
        pc = f'g_{self.fresh()}'
        ops.append({'k': 'descr', 'iface': iface(), 'actions': [self.add_action(pc, self.rng.choice(scs), 'PatientContextDescriptor', None)]})
        return pc

    def macro_root(self, ops, iface):
        h = f'g_{self.fresh()}'
        ops.append({'k': 'descr', 'iface': iface(), 'actions': [self.add_action(h, None, 'MdsDescriptor', None)],
                    'tag': ['root-create']})
        return h

    def macro_ctx_cycles(self, mode=None, cycles=None):
        """context states with explicit handles that go (with their descriptor, or deleted through the entity
        interface) and come back"""
        iface = self._iface_seq(mode)
        ops = []
        pc = self.ensure_gen_pc(iface, ops)
        p, t = self.tree[pc], self.types[pc]
        cycles = cycles or 2
        names = []
        for c in range(cycles):
            for _ in range(2 if c == 0 else 1):
                acts = []
                i = iface()
                dead = [h for h, d in self.dead_ctx.items() if d == pc]
                names.append(self._mk(pc, i, acts, handle=self.rng.choice(dead) if dead else f'cs{self._nc()}', assoc=self.rng.random() < 0.5))
                ops.append({'k': 'ctx', 'iface': i, 'actions': acts, 'tag': ['recreate'] if dead else []})
            for h in self.rng.sample(self.ctx_of(pc), min(2, len(self.ctx_of(pc)))):
                ops.append({'k': 'ctx', 'iface': iface(), 'actions': [['get', h, self.fresh(), None]]})
            if self.rng.random() < 0.6:
                i = iface()
                ops.append({'k': 'descr', 'iface': i, 'actions': [['upd', pc, self.fresh()]]})
            ops.append({'k': 'descr', 'iface': iface(), 'actions': [['del', pc]], 'tag': ['cycle']})
            self._del(pc)
            self.deleted.pop(pc, None)
            ops.append({'k': 'descr', 'iface': iface(), 'actions': [self.add_action(pc, p, t, None)], 'tag': ['recreate']})
        for h in [h for h, d in self.dead_ctx.items() if d == pc]:
            acts = []
            i = iface()
            self._mk(pc, i, acts, handle=h, assoc=False)
            ops.append({'k': 'ctx', 'iface': i, 'actions': acts, 'tag': ['recreate']})
        return ops

    def macro_delstate_cycles(self, mode=None):
        """a context state is deleted through the entity interface and created again, twice; then an aborted and a
        successful re-creation (the consumer cannot follow such a deletion - known finding - so scenarios end with this)"""
        iface = self._iface_seq(mode)
        ops = []
        if not self.w.get('delstate') or not self.live('ctx'):
            return ops
        dh = self.rng.choice(self.live('ctx'))
        h = f'cs{self._nc()}'
        for c in range(2):
            acts = []
            self._mk(dh, 'entity', acts, handle=h, assoc=False)
            ops.append({'k': 'ctx', 'iface': 'entity', 'actions': acts, 'tag': ['recreate'] if c else []})
            ops.append({'k': 'ctx', 'iface': iface(), 'actions': [['get', h, self.fresh(), None]]})
            ops.append({'k': 'ctx', 'iface': 'entity', 'actions': [['delstate', h]]})
            self._ctx_gone(h)
        ops.append({'k': 'ctx', 'iface': iface(), 'actions': [['mk', dh, h, False, self.fresh()]], 'abort_at': 1,
                    'expect': 'abort', 'tag': ['aborted-recreate']})
        acts = []
        self._mk(dh, 'classic', acts, handle=h, assoc=False)
        ops.append({'k': 'ctx', 'iface': 'classic', 'actions': acts, 'tag': ['recreate']})
        return ops

    def _nc(self):
        self.nctx += 1
        return self.nctx

    def macro_abort_recreate(self, mode=None, what=None):
        """remove h; a transaction that starts to create h again is aborted / rejected; h is created again"""
        iface = self._iface_seq(mode)
        ops = []
        what = what or self.rng.choice(['descr', 'descr', 'ctx'])
        if what == 'ctx' and not [h for h, d in self.dead_ctx.items() if d in self.tree]:
            # a context state with an explicit handle that went with its descriptor; the descriptor is back
            pc = self.ensure_gen_pc(iface, ops)
            h = f'cs{self._nc()}'
            acts = []
            self._mk(pc, 'entity', acts, handle=h, assoc=False)
            ops.append({'k': 'ctx', 'iface': iface(), 'actions': acts})
            ops.append({'k': 'ctx', 'iface': iface(), 'actions': [['get', h, self.fresh(), None]]})
            p, t = self.tree[pc], self.types[pc]
            ops.append({'k': 'descr', 'iface': iface(), 'actions': [['del', pc]], 'tag': ['cycle']})
            self._del(pc)
            self.deleted.pop(pc, None)
            ops.append({'k': 'descr', 'iface': iface(), 'actions': [self.add_action(pc, p, t, None)], 'tag': ['recreate']})
        dead = [h for h, d in self.dead_ctx.items() if d in self.tree]
        if what == 'ctx' and dead:
            h = self.rng.choice(dead)
            dh = self.dead_ctx[h]
            for variant in self.rng.sample(['abort', 'reject', 'abort-entity'], self.rng.choice([1, 2])):
                i = 'entity' if variant == 'abort-entity' else 'classic'
                acts = [['mk', dh, h, False, self.fresh()]]
                op = {'k': 'ctx', 'iface': i, 'actions': acts, 'tag': ['aborted-recreate']}
                if variant == 'reject':
                    acts.append(['get', 'no_such_state', 1, None])
                    op['expect'] = 'reject'
                else:
                    op.update({'abort_at': 1, 'expect': 'abort'})
                ops.append(op)
            acts = []
            i = iface()
            self._mk(dh, i, acts, handle=h, assoc=False)
            ops.append({'k': 'ctx', 'iface': i, 'actions': acts, 'tag': ['recreate']})
            return ops
        cand = self.recreatable()
        if cand:
            h = self.pick(cand, 0.7)
            p, t = self.deleted[h]
        else:
            gen = [g for g in self.tree if g.startswith('g_') and self.types[g] in ('NumericMetricDescriptor', 'ChannelDescriptor')]
            if gen and self.rng.random() < 0.5:
                h = self.pick(gen)
                p, t = self.tree[h], self.types[h]
            else:
                leaf = self.new_leaf()
                if leaf is None:
                    return []
                h, p, t = leaf
                ops.append({'k': 'descr', 'iface': iface(), 'actions': [self.add_action(h, p, t, None)]})
            ops += self.touch_ops(h, iface)
            ops.append({'k': 'descr', 'iface': iface(), 'actions': [['del', h]], 'tag': ['cycle']})
            self._del(h)
        for variant in self.rng.sample(['abort', 'reject', 'abort-entity', 'reject-key'], self.rng.choice([1, 2])):
            i = 'entity' if variant == 'abort-entity' else 'classic'
            acts = [['add', h, p, t, self.fresh(), self.fresh() if t != 'PatientContextDescriptor' else None]]
            op = {'k': 'descr', 'iface': i, 'actions': acts, 'tag': ['aborted-recreate']}
            if variant == 'reject':
                acts.append(['add', h, p, t, self.fresh(), None])     # a second add of the same handle: ValueError
                op['expect'] = 'reject'
            elif variant == 'reject-key':
                acts.append(['del', 'no_such_handle'])
                op['expect'] = 'reject'
            else:
                op.update({'abort_at': 1, 'expect': 'abort'})
            ops.append(op)
        self.deleted.pop(h, None)
        ops.append({'k': 'descr', 'iface': iface(), 'actions': [self.add_action(h, p, t, None)], 'tag': ['recreate']})
        ops += self.touch_ops(h, iface)
        return ops

    def macro_stale(self, mode=None, what=None):
        """read an entity; other transactions commit on the same object; then the (stale) entity is written"""
        iface = self._iface_seq(mode)
        ops = []
        what = what or self.rng.choice(['state', 'state', 'descr', 'ctx'])
        if what == 'ctx':
            dhs = self.live('ctx')
            if not dhs:
                return []
            dh = self.pick(dhs)
            if not self.ctx_of(dh):
                acts = []
                i = iface()
                self._mk(dh, i, acts, assoc=False)
                ops.append({'k': 'ctx', 'iface': i, 'actions': acts})
            ops.append(self.op_read(dh))
            slot = self.nslot
            h = self.rng.choice(self.slots[slot]['cs'])
            for _ in range(self.rng.choice([1, 2])):
                if self.rng.random() < 0.6:
                    ops.append({'k': 'ctx', 'iface': iface(), 'actions': [['get', h, self.fresh(), None]]})
                else:
                    ops.append({'k': 'descr', 'iface': iface(), 'actions': [['upd', dh, self.fresh()]]})
            k = self.rng.random()
            if k < 0.5:
                ops.append({'k': 'ctx', 'iface': 'entity', 'actions': [['get', h, self.fresh(), None, slot]], 'tag': ['stale-entity']})
            elif k < 0.75:
                acts = []
                self._mk(dh, 'entity', acts, handle=f'cs{self._nc()}', assoc=False, slot=slot)
                ops.append({'k': 'ctx', 'iface': 'entity', 'actions': acts, 'tag': ['stale-entity']})
            elif not self.slots[slot]['dirty'] and sorted(self.slots[slot]['cs']) == sorted(self.ctx_of(dh)):
                ops.append({'k': 'descr', 'iface': 'entity', 'actions': [['upd', dh, self.fresh(), slot]],
                            'tag': ['stale-entity']})
            return ops
        tx = self.rng.choice(['metric', 'metric', 'alert', 'comp', 'op'])
        pool = self.state_pool(tx)
        if what == 'descr':
            pool = [h for h in pool if self.types[h] in TX_OF_TYPE or self.types[h].startswith('Alert')]
        if not pool:
            return []
        h = self.pick(pool)
        ops.append(self.op_read(h))
        slot = self.nslot
        for _ in range(self.rng.choice([1, 1, 2])):
            k = self.rng.random()
            if k < 0.6:
                ops.append({'k': 'state', 'tx': tx, 'iface': iface(), 'items': [[h, self.fresh()]]})
            elif self.types[h] in TX_OF_TYPE or self.types[h].startswith('Alert'):
                ops.append({'k': 'descr', 'iface': iface(), 'actions': [['upd', h, self.fresh()]]})
        if what == 'state':
            others = [x for x in pool if x != h]
            items = [[h, self.fresh(), slot]]
            if others and self.rng.random() < 0.4:
                items.insert(self.rng.randint(0, 1), [self.rng.choice(others), self.fresh()])
            ops.append({'k': 'state', 'tx': tx, 'iface': 'entity', 'items': items, 'tag': ['stale-entity']})
        else:
            ops.append({'k': 'descr', 'iface': 'entity', 'actions': [['upd', h, self.fresh(), slot]], 'tag': ['stale-entity']})
        self.touch(h)
        return ops

    def macro_new_mds(self, mode=None, full=False):
        """a new MDS at run time (a transaction that ONLY creates a parent-less descriptor), a subtree below it,
        transactions that mix its states with those of the other MDSs, removal and re-creation of the whole MDS"""
        iface = self._iface_seq(mode)
        ops = []
        roots = [h for h in self.tree if h.startswith('g_') and self.types[h] == 'MdsDescriptor']
        if roots and not full:
            mds = self.rng.choice(roots)
        else:
            mds = self.macro_root(ops, iface)
        vmd, ch, m1, m2 = (f'g_{self.fresh()}' for _ in range(4))
        i = iface()
        ops.append({'k': 'descr', 'iface': i, 'actions': [self.add_action(vmd, mds, 'VmdDescriptor', None),
                                                         self.add_action(ch, vmd, 'ChannelDescriptor', None)]})
        ops.append({'k': 'descr', 'iface': iface(), 'actions': [self.add_action(m1, ch, 'NumericMetricDescriptor', None)]})
        ops.append({'k': 'descr', 'iface': iface(), 'actions': [self.add_action(m2, ch, 'NumericMetricDescriptor', None)]})
        for tx in ('metric', 'comp') + (('metric', 'comp') if full else ()):
            op = self.op_state(tx, interleave=True)
            if op:
                ops.append(op)
        if full or self.rng.random() < 0.5:
            op = self.op_descr_interleaved()
            if op:
                ops.append(op)
        if full or self.rng.random() < 0.5:
            ops.append({'k': 'descr', 'iface': iface(), 'actions': [['del', mds]], 'tag': ['cycle']})
            self._del(mds)
            self.deleted.pop(mds)
            ops.append({'k': 'descr', 'iface': iface(), 'actions': [self.add_action(mds, None, 'MdsDescriptor', None)],
                        'tag': ['root-create', 'recreate']})
            if full:
                self.deleted.pop(vmd, None)
                ops.append({'k': 'descr', 'iface': iface(), 'actions': [self.add_action(vmd, mds, 'VmdDescriptor', None)],
                            'tag': ['recreate']})
                ops.append({'k': 'descr', 'iface': iface(), 'actions': [['del', mds]], 'tag': ['cycle']})
                self._del(mds)
                self.deleted.pop(mds)
                ops.append({'k': 'descr', 'iface': iface(), 'actions': [self.add_action(mds, None, 'MdsDescriptor', None)],
                            'tag': ['root-create', 'recreate']})
        return ops

    def op_descr_interleaved(self):
        hs = self.interleaved(self.live('metric'))
        if not hs:
            return None
        return {'k': 'descr', 'iface': self.iface(), 'actions': [['upd', h, self.fresh()] for h in hs],
                'tag': ['mds-interleaved']}

    def macro_ctx_descr_upd(self, mode=None):
        """a context descriptor with several context states is updated (both interfaces)"""
        iface = self._iface_seq(mode)
        ops = []
        dhs = self.live('ctx')
        if not dhs:
            return []
        dh = self.pick(dhs)
        while len(self.ctx_of(dh)) < 2 + (self.rng.random() < 0.4):
            acts = []
            i = iface()
            self._mk(dh, i, acts)
            ops.append({'k': 'ctx', 'iface': i, 'actions': acts})
        for i in self.rng.sample(['classic', 'entity'], 2)[:self.rng.choice([1, 2, 2])]:
            if mode in ('classic', 'entity'):
                i = mode
            ops.append({'k': 'descr', 'iface': i, 'actions': [['upd', dh, self.fresh()]]})
        self.touch(dh)
        return ops

    def macro_same_handle_twice(self):
        """the same handle twice in ONE transaction: the classic getters and both descriptor interfaces refuse the
        second call (nothing is committed), write_entity of a state / context state replaces the first write"""
        ops = []
        for tx in ('metric', 'comp'):
            pool = self.state_pool(tx)
            if len(pool) < 2:
                continue
            for iface in ('entity', 'classic'):
                a, b = self.rng.sample(pool, 2)
                items = [[a, self.fresh()], [b, self.fresh()], [a, self.fresh()]]
                self.rng.shuffle(items)
                ops.append({'k': 'state', 'tx': tx, 'iface': iface, 'items': items})
        dhs = self.live('ctx')
        if dhs:
            dh = self.pick(dhs)
            if not self.ctx_of(dh):
                acts = []
                self._mk(dh, 'entity', acts, assoc=False, explicit=True)
                ops.append({'k': 'ctx', 'iface': 'entity', 'actions': acts})
            h = self.rng.choice(self.ctx_of(dh))
            for iface in ('entity', 'classic'):
                ops.append({'k': 'ctx', 'iface': iface, 'actions': [['get', h, self.fresh(), self.rng.choice([None, True, False])],
                                                                    ['get', h, self.fresh(), self.rng.choice([None, True, False])]]})
                self.dirty(dh)
            acts = []
            n = self._mk(dh, 'entity', acts, assoc=False, explicit=True)
            acts.append(['mk', dh, n, self.rng.random() < 0.5, self.fresh()])
            ops.append({'k': 'ctx', 'iface': 'entity', 'actions': acts})
        h = self.pick(self.live('metric'))
        for iface in ('entity', 'classic'):
            ops.append({'k': 'descr', 'iface': iface, 'actions': [['upd', h, self.fresh()], ['upd', h, self.fresh()]]})
        return ops

    def every_kind_ops(self):
        """one committed transaction of every kind: each kind of report (metric, alert, component, operational,
        waveform, context - also a location change -, description modification) is sent once"""
        ops = []
        for tx in ('metric', 'alert', 'comp', 'op', 'rt'):
            pool = self.state_pool(tx)
            if pool:
                ops.append(self.op_state(tx, interleave=False, handles=[self.pick(pool)], dup=False))
        dhs = self.live('ctx')
        if dhs:
            acts = []
            i = self.iface()
            self._mk(self.pick(dhs), i, acts, explicit=True)
            ops.append({'k': 'ctx', 'iface': i, 'actions': acts})
            op = self.op_location() if self.rng.random() < 0.5 else None
            if op:
                ops.append(op)
        leaf = self.new_leaf()
        if leaf:
            ops.append({'k': 'descr', 'iface': self.iface(), 'actions': [self.add_action(*leaf, None)]})
        self.rng.shuffle(ops)
        if leaf:
            ops.append({'k': 'descr', 'iface': self.iface(), 'actions': [['upd', leaf[0], self.fresh()]]})
        return ops

    def ensure_gen(self, kind, ops):
        """(handle, root): a generated descriptor whose state belongs to transaction kind `kind`, and the generated
        descriptor to remove in order to remove it (itself or an ancestor)"""
        def add(h, p, t):
            ops.append({'k': 'descr', 'iface': self.iface(), 'actions': [self.add_action(h, p, t, None)]})
            return h
        vmds = [h for h in self.tree if self.types[h] == 'VmdDescriptor']
        mdss = [h for h in self.tree if self.types[h] == 'MdsDescriptor']
        if kind == 'ctx':
            pc = self.ensure_gen_pc(self.iface, ops)
            if not self.ctx_of(pc):
                acts = []
                self._mk(pc, 'entity', acts, explicit=True, assoc=False)
                ops.append({'k': 'ctx', 'iface': self.iface(), 'actions': acts})
            return pc, pc
        if kind in ('metric', 'comp', 'rt') and vmds:
            ch = add(f'g_{self.fresh()}', self.pick(vmds), 'ChannelDescriptor')
            if kind == 'comp':
                return ch, ch
            m = add(f'g_{self.fresh()}', ch, 'NumericMetricDescriptor' if kind == 'metric' else 'RealTimeSampleArrayMetricDescriptor')
            return m, self.rng.choice([m, ch])
        if kind in ('alert', 'op') and mdss:
            v = add(f'g_{self.fresh()}', self.pick(mdss), 'VmdDescriptor')
            if kind == 'alert':
                return add(f'g_{self.fresh()}', v, 'AlertSystemDescriptor'), v
            sco = add(f'g_{self.fresh()}', v, 'ScoDescriptor')
            return add(f'g_{self.fresh()}', sco, 'ActivateOperationDescriptor'), self.rng.choice([v, sco])
        return None, None

    def macro_stale_after_delete(self, kinds=None):
        """a state report of kind K is withheld, the descriptor is removed (that report is delivered), then the
        withheld - by now stale - state report arrives ('deliver' = delivery directive for the fault streams)"""
        ops = []
        for kind in kinds or [self.rng.choice(['metric', 'alert', 'comp', 'op', 'rt', 'ctx'])]:
            h, root = self.ensure_gen(kind, ops)
            if h is None:
                continue
            for o in ops:
                o.setdefault('deliver', ['all'])
            if kind == 'ctx':
                ops.append({'k': 'ctx', 'iface': self.iface(), 'actions': [['get', s, self.fresh(), None] for s in self.ctx_of(h)[:2]],
                            'deliver': ['hold']})
            else:
                ops.append({'k': 'state', 'tx': kind, 'iface': self.iface(), 'items': [[h, self.fresh()]], 'deliver': ['hold']})
            ops.append({'k': 'descr', 'iface': self.iface(), 'actions': [['del', root]], 'deliver': ['cur'],
                        'tag': ['delete-overtakes-' + kind]})
            self._del(root)
            ops.append({'k': 'state', 'tx': 'metric', 'iface': 'classic', 'items': [], 'deliver': ['all']})
        return ops

    def macro_indexed_attributes(self):
        """descriptor updates that change an attribute the descriptions table is indexed by: Source of an alert
        condition, ConditionSignaled of an alert signal (another condition, none, a condition again)"""
        live_c = [h for h in self.inv['alert_cond'] if h in self.tree]
        live_s = [h for h in self.inv['alert_sig'] if h in self.tree]
        metrics = self.live('metric')
        ops = []
        if live_c and metrics:
            c = self.rng.choice(live_c)
            for k in (2, 0, 1):
                ops.append({'k': 'descr', 'iface': 'classic', 'actions': [['updsrc', c, self.rng.sample(metrics, min(k, len(metrics)))]]})
        if live_s and live_c:
            sig = self.rng.choice(live_s)
            conds = self.rng.sample(live_c, min(2, len(live_c)))
            for v in ([conds[0]], [conds[-1]], [], [conds[0]]):
                ops.append({'k': 'descr', 'iface': 'classic', 'actions': [['updsrc', sig, v]]})
        return ops

    # ------------------------------------------------------------------ empty transactions, handled rejections
    def op_empty(self, kind=None, form=None):
        """a transaction that ends up empty: nothing may change, no report, MdibVersion stays.  Forms: an empty `with`
        block; get_state followed by unget_state; every call rejected and the rejection handled inside the body"""
        kind = kind or self.rng.choice(['metric', 'alert', 'comp', 'op', 'rt', 'ctx', 'descr'])
        form = form or self.rng.choice(['none', 'unget', 'rejected'])
        if kind in ('ctx', 'descr'):
            acts = []
            if form != 'none':
                acts = ([['get', 'no_such_state', self.fresh(), None]] if kind == 'ctx' else
                        [self.rng.choice([['upd', 'no_such_handle', self.fresh()], ['del', 'no_such_handle']])])
            return {'k': kind, 'iface': self.iface(), 'actions': acts, 'catch': bool(acts), 'tag': ['empty-transaction']}
        pool = self.state_pool(kind)
        op = {'k': 'state', 'tx': kind, 'iface': 'classic', 'items': [], 'tag': ['empty-transaction']}
        if form == 'unget' and pool:
            hs = self.rng.sample(pool, min(len(pool), self.rng.choice([1, 1, 2])))
            op['items'] = [[h, self.fresh()] for h in hs]
            op['unget'] = list(range(len(hs)))
        elif form == 'rejected':
            op['iface'] = self.iface()
            op['items'] = [self.bad_item(kind) for _ in range(self.rng.choice([1, 2]))]
            op['catch'] = True
        return op

    def bad_item(self, kind):
        """an item that the state transaction of `kind` refuses"""
        others = [h for k in ('metric', 'alert', 'comp', 'op') if k != kind for h in self.live(k)]
        if others and self.rng.random() < 0.6:
            return [self.rng.choice(others), self.fresh()]          # wrong kind: ApiUsageError
        return ['no_such_handle', self.fresh()]                     # KeyError

    def op_catch(self, batch=False):
        """a transaction in which some API calls are refused, the application handles the exception inside the `with`
        body and the body ends normally: the refused calls leave nothing behind, everything else is committed"""
        r = 0 if batch else self.rng.random()
        if r < 0.55:
            kind = self.rng.choice(['metric', 'metric', 'alert', 'comp', 'op'])
            op = self.op_state(kind, interleave=False, dup=False, iface='entity' if batch else None)
            if op is None:
                return None
            if op['iface'] == 'entity' and len(op['items']) >= 1 and (batch or self.rng.random() < 0.6):
                # ONE write_entities call with a bad element at a random position: none of its entities is written
                k = len(op['items'])
                ctxd = self.live('ctx')
                bad = [self.rng.choice(ctxd), self.fresh()] if ctxd and self.rng.random() < 0.3 else None
                if bad is None:
                    others = [h for kk in ('metric', 'alert', 'comp', 'op') if kk != kind for h in self.live(kk)]
                    if not others:
                        return None
                    bad = [self.rng.choice(others), self.fresh()]
                op['items'].insert(self.rng.randint(0, k), bad)
                op['batch'] = k + 1
                if self.rng.random() < 0.5:     # and a good statement after it
                    rest = [h for h in self.state_pool(kind) if h not in [i[0] for i in op['items']]]
                    if rest:
                        op['items'].append([self.rng.choice(rest), self.fresh()])
                op.setdefault('tag', []).append('write_entities-bad-element')
            else:
                for _ in range(self.rng.choice([1, 1, 2])):
                    bad = self.bad_item(kind)
                    if op['iface'] == 'classic' and self.rng.random() < 0.35:
                        bad = [self.rng.choice(op['items'])[0], self.fresh()]     # a second get_state: ValueError
                        pos = len(op['items'])
                    else:
                        pos = self.rng.randint(0, len(op['items']))
                    op['items'].insert(pos, bad)
        elif r < 0.75:
            op = self.op_ctx()
            if op is None or op.get('expect') or any(a[0] == 'delstate' for a in op['actions']):
                return None
            metrics = self.live('metric')
            bad = [['get', 'no_such_state', self.fresh(), None]]
            if op['iface'] == 'classic':
                if metrics:
                    bad.append(['mk', self.rng.choice(metrics), f'cs{self._nc()}', False, self.fresh()])   # not a context descriptor
                explicit = sorted(h for h in self.ctx_states if not h.startswith('gen'))   # (literal handles only)
                if explicit:
                    h = self.rng.choice(explicit)
                    if not any(a[0] in ('mk', 'get') and h in a[1:3] for a in op['actions']):
                        bad.append(['mk', self.ctx_states[h], h, False, self.fresh()])             # the handle exists
            op['actions'].insert(self.rng.randint(0, len(op['actions'])), self.rng.choice(bad))
        else:
            op = self.op_descr()
            if op is None or op.get('subtree_conflict') or op.get('expect'):
                return None
            bad = [['upd', 'no_such_handle', self.fresh()], ['del', 'no_such_handle']]
            if op.get('iface') == 'classic':
                # (through the entity interface writing an existing handle is an update, and get_state is not offered)
                bad += [['add', self.rng.choice(sorted(self.inv['tree'])), None, 'ChannelDescriptor', self.fresh(), None],
                        ['state', self.rng.choice(self.inv['metric']), self.fresh()]]
            bad = self.rng.choice(bad)
            if bad[0] == 'state' and any(a[1] == bad[1] for a in op['actions']):
                bad = ['del', 'no_such_handle']
            if bad[0] == 'add' and any(a[1] == bad[1] for a in op['actions']):
                bad = ['upd', 'no_such_handle', self.fresh()]
            op['actions'].insert(self.rng.randint(0, len(op['actions'])), bad)
        op['catch'] = True
        op.setdefault('tag', []).append('rejected-call-handled')
        return op

    def op_catch_multi(self, what=None):
        """refusals that come AFTER the call has looked at valid arguments: ONE context write_entity call for 2-3 handles
        with an unknown handle at a random position; add_descriptor with the state container of another descriptor"""
        what = what or self.rng.choice(['wr', 'addbad'])
        many = [dh for dh in self.live('ctx') if self.ctx_of(dh)]
        if what == 'wr' and many:
            dh = self.pick(many)
            hs = self.rng.sample(self.ctx_of(dh), min(len(self.ctx_of(dh)), self.rng.choice([1, 2])))
            hs.insert(self.rng.randint(0, len(hs)), 'no_such_state')
            acts = [['wr', dh, hs, self.fresh()]]
            others = [h for h in sorted(self.ctx_states) if h not in hs]
            if others and self.rng.random() < 0.5:       # and a statement that is fine
                acts.insert(self.rng.randint(0, 1), ['get', self.rng.choice(others), self.fresh(), None])
            return {'k': 'ctx', 'iface': 'entity', 'actions': acts, 'catch': True,
                    'tag': ['rejected-call-handled', 'write_entity-bad-handle']}
        leaf = self.new_leaf()
        if leaf is None:
            return None
        h, p, t = leaf
        other = self.rng.choice([x for x in self.tree if self.types[x] == t])
        acts = [['addbad', h, p, t, self.fresh(), other]]
        if self.rng.random() < 0.5:
            acts.insert(self.rng.randint(0, 1), ['upd', self.pick(self.live('metric')), self.fresh()])
        return {'k': 'descr', 'iface': 'classic', 'actions': acts, 'catch': True,
                'tag': ['rejected-call-handled', 'add_descriptor-foreign-state']}

    def macro_empty_and_handled(self):
        """empty transactions of every kind in every form, then transactions with handled rejections"""
        ops = []
        for kind in ('metric', 'alert', 'comp', 'op', 'rt', 'ctx', 'descr'):
            for form in self.rng.sample(['none', 'unget', 'rejected'], 2):
                ops.append(self.op_empty(kind, form))
        for j in range(10):
            op = self.op_catch(batch=j % 3 == 0)
            if op:
                ops.append(op)
        dhs = self.live('ctx')
        if dhs and not any(self.ctx_of(dh) for dh in dhs):
            acts = []
            dh = self.pick(dhs)
            self._mk(dh, 'entity', acts, explicit=True, assoc=False)
            self._mk(dh, 'entity', acts, explicit=True, assoc=False)
            ops.append({'k': 'ctx', 'iface': 'entity', 'actions': acts})
        for what in self.rng.sample(['wr', 'wr', 'wr', 'addbad', 'addbad'], 5):
            op = self.op_catch_multi(what)
            if op:
                ops.append(op)
        return ops

    def macro_repeat(self, kinds=None):
        """the same state transaction (same kind, same handles) two or three times in a row: every one of them is
        reported and every report raises its notification on the consumer"""
        ops = []
        for kind in kinds or [self.rng.choice(['metric', 'alert', 'comp', 'op', 'rt', 'ctx'])]:
            if kind == 'ctx':
                hs = sorted(self.ctx_states)
                if not hs:
                    continue
                hs = self.rng.sample(hs, min(len(hs), self.rng.choice([1, 2])))
                for _ in range(self.rng.choice([2, 3])):
                    ops.append({'k': 'ctx', 'iface': self.iface(), 'actions': [['get', h, self.fresh(), None] for h in hs],
                                'tag': ['same-handles-again']})
                continue
            pool = self.state_pool(kind)
            if not pool:
                continue
            hs = self.rng.sample(pool, min(len(pool), self.rng.choice([1, 2, 3])))
            for _ in range(self.rng.choice([2, 3])):
                ops.append({'k': 'state', 'tx': kind, 'iface': self.iface(), 'items': [[h, self.fresh()] for h in hs],
                            'tag': ['same-handles-again']})
        return ops

    def macro_interleave(self):
        """every state transaction kind with states of two MDSs in an order in which the MDSs alternate"""
        ops = []
        for tx in ('metric', 'alert', 'comp', 'op', 'rt'):
            for pat in self.rng.sample(PATTERNS, 3):
                op = self.op_state(tx, interleave=pat)
                if op:
                    ops.append(op)
        for _ in range(2):
            op = self.op_descr_interleaved()
            if op:
                ops.append(op)
        return ops

    def macro(self):
        k = self.rng.choice(['cycles', 'cycles', 'ctx_cycles', 'abort_recreate', 'abort_recreate', 'stale', 'stale', 'stale',
                             'new_mds', 'ctx_descr_upd', 'ctx_descr_upd', 'overtake', 'repeat', 'repeat'] + (['delstate_cycles'] if self.w.get('delstate') else []))
        return {'delstate_cycles': self.macro_delstate_cycles, 'cycles': self.macro_cycles, 'ctx_cycles': self.macro_ctx_cycles, 'abort_recreate': self.macro_abort_recreate,
                'stale': self.macro_stale, 'new_mds': self.macro_new_mds, 'ctx_descr_upd': self.macro_ctx_descr_upd,
                'overtake': self.macro_stale_after_delete, 'repeat': self.macro_repeat}[k]()

    def finish(self, ops):
        """context states whose (explicit) handle existed before come back through add_state in most classic
        transactions: the application builds the container itself, with (True) or without ('bare') its descriptor"""
        for op in ops:
            if (op['k'] == 'ctx' and op.get('iface') == 'classic' and 'add_state' not in op
                    and {'recreate', 'aborted-recreate'} & set(op.get('tag', []))
                    and all(a[2] is not None and len(a) == 5 for a in op['actions'] if a[0] == 'mk')
                    and self.rng.random() < 0.65):
                op['add_state'] = self.rng.choice([True, 'bare'])
        return ops

    def history(self, nops):
        return self.finish(self._history(nops))

    def _history(self, nops):
        ops = []
        choices = [k for k, w in self.w.items() if k in ('state', 'ctx', 'location', 'descr', 'reject', 'abort', 'macro',
                                                          'empty', 'catch')
                   for _ in range(w)]
        guard = 0
        while len(ops) < nops and guard < 10 * nops:
            guard += 1
            k = self.rng.choice(choices)
            if k == 'macro':
                ops += self.macro()
                continue
            if k == 'abort':
                snap = self._save()
                base = self.rng.choice([self.op_state, self.op_ctx, self.op_descr])()
                self._restore(snap)          # an aborted transaction leaves the symbolic picture unchanged
                if base is None:
                    continue
                n = len(base.get('items') or base.get('actions'))
                base['abort_at'] = self.rng.randint(0, n)
                base['expect'] = 'abort'
                ops.append(base)
                continue
            if k == 'reject':
                op = self.op_reject()
            elif k == 'empty':
                op = self.op_empty()
            elif k == 'catch':
                op = self.op_catch() if self.rng.random() < 0.75 else self.op_catch_multi()
            else:
                op = {'state': self.op_state, 'ctx': self.op_ctx, 'location': self.op_location,
                      'descr': self.op_descr}[k]()
            if op is not None:
                ops.append(op)
        return ops

    def _save(self):
        return copy.deepcopy((self.tree, self.types, self.deleted, self.ctx_states, self.kinds, self.ngen, self.nctx,
                              self.dead_ctx, self.slots, self.hot, self.nslot))

    def _restore(self, s):
        (self.tree, self.types, self.deleted, self.ctx_states, self.kinds, self.ngen, self.nctx, self.dead_ctx,
         self.slots, self.hot, self.nslot) = s


# ----------------------------------------------------------------------------- crafted scenario histories
def scenario(g: Gen, i: int, mode=None):
    """the i-th crafted history (fixed structure; handles and payloads come from the generator's rng);
    mode: 'classic' | 'entity' | None (both interfaces mixed)"""
    return g.finish(SCENARIOS[i % len(SCENARIOS)](g, mode))


def _sc_cycles(g, mode):
    return g.macro_cycles(mode, cycles=3, stale=False) + g.macro_abort_recreate(mode, 'descr')


def _sc_cycles_stale(g, mode):
    return (g.macro_cycles(None, cycles=2, stale=True) + g.macro_stale(mode, 'state') + g.macro_stale(mode, 'descr') +
            g.macro_indexed_attributes())


def _sc_new_mds(g, mode):
    return g.macro_new_mds(mode, full=True)


def _sc_ctx(g, mode):
    return (g.macro_ctx_descr_upd(mode) + g.macro_stale(mode, 'ctx') + g.macro_ctx_cycles(mode, cycles=2) +
            g.macro_delstate_cycles(mode))


def _sc_abort(g, mode):
    return (g.macro_abort_recreate(mode, 'descr') + g.macro_abort_recreate(mode, 'descr') +
            g.macro_ctx_cycles(mode, cycles=1) + g.macro_abort_recreate(mode, 'ctx') + g.macro_delstate_cycles(mode))


def _sc_interleave(g, mode):
    ops = []
    if len(g.by_mds(g.live('metric'))) < 2:
        ops += g.macro_new_mds(mode)
    pcs = g.by_mds(g.live('ctx'))
    if len(pcs) < 2:
        g.ensure_gen_pc(g._iface_seq(mode), ops)
    ops += g.macro_interleave()
    for _ in range(3):
        op = g.op_ctx()
        if op:
            ops.append(op)
    return ops


def _sc_stale(g, mode):
    return (g.macro_stale(mode, 'state') + g.macro_stale(mode, 'state') + g.macro_stale(mode, 'descr') +
            g.macro_stale(mode, 'ctx') + g.macro_ctx_descr_upd(mode) + g.macro_same_handle_twice())


def _sc_family(g, mode):
    return g.macro_family(mode) + g.macro_cycles(mode, cycles=2, stale=False)


def _sc_handled(g, mode):
    return g.macro_empty_and_handled() + g.macro_repeat(['metric', 'alert', 'comp', 'op', 'rt', 'ctx'])


def _sc_overtake(g, mode):
    return g.macro_stale_after_delete(['metric', 'alert', 'comp', 'op', 'rt', 'ctx'])


SCENARIOS = [_sc_cycles, _sc_cycles_stale, _sc_new_mds, _sc_ctx, _sc_abort, _sc_interleave, _sc_stale, _sc_family,
             _sc_overtake, _sc_handled]


# ----------------------------------------------------------------------------- oracles on implementation traces
class Tables:
    """full tables rebuilt from the deltas of a trace"""

    def __init__(self, snap):
        self.ver = snap['ver']
        self.t = {k: {str(x[0]): x for x in snap[k]} for k in ('descrs', 'states', 'cstates')}

    def apply(self, d):
        self.ver = d['ver']
        for k in ('descrs', 'states', 'cstates'):
            for x in d[k]['set']:
                self.t[k][str(x[0])] = x
            for h in d[k]['del']:
                self.t[k].pop(h, None)


VER_POS = {'descrs': (3,), 'states': (2, 3), 'cstates': (2, 3)}
SAVED_OF = {'d': 'descrs', 's': 'states', 'c': 'cstates'}


def oracle_provider(case, result):
    """C02 + C03(atomicity) + C11(mdib-index) on the provider side of one trace; yields (property, step, why)."""
    init = result['init']['prov']
    tb = Tables(init)
    last_ver = {k: {} for k in VER_POS}          # highest version ever seen per handle (survives deletion)
    for k in VER_POS:
        for h, x in tb.t[k].items():
            last_ver[k][h] = [x[p] for p in VER_POS[k]]
    if init['index_problems']:
        yield 'C11', -1, 'provider: ' + init['index_problems'][0]
    # the remembered versions of removed handles (handle_version_lookup of the three tables)
    saved = {k: {str(e[0]): e[1] for e in init.get('saved', {}).get(k, [])} for k in SAVED_OF}
    for n, (op, st) in enumerate(zip(case['ops'], result['trace'])):
        d = st['prov']
        prev_ver = tb.ver
        changed = any(d[k]['set'] or d[k]['del'] for k in VER_POS)
        sv_new = {k: d.get('saved', {}).get(k, []) for k in SAVED_OF}
        sv_gone = {k: d.get('saved_del', {}).get(k, []) for k in SAVED_OF}
        if st['res'] != 'ok':
            if changed or d['ver'] != prev_ver:
                yield 'C03', n, f'transaction ended with {st["res"].split(":")[0]} but the MDIB changed (version {prev_ver}->{d["ver"]})'
            for k in SAVED_OF:
                if sv_new[k] or sv_gone[k]:
                    h = str(sv_new[k][0][0]) if sv_new[k] else sv_gone[k][0]
                    yield 'C03', n, (f'transaction ended with {st["res"].split(":")[0]} but the remembered last version of the '
                                     f'removed {SAVED_OF[k][:-1]} {h} changed: {saved[k].get(h)} -> '
                                     f'{sv_new[k][0][1] if sv_new[k] else "forgotten"}')
            if st['reports']:
                yield 'C03', n, f'transaction ended with {st["res"].split(":")[0]} but a report was sent'
            if st['res'].startswith('Other'):
                yield 'C03', n, 'unexpected exception: ' + st['res'][:300]
        else:
            want = prev_ver + 1 if changed else prev_ver
            if d['ver'] != want and not (d['ver'] == prev_ver + 1 and not changed and _nonempty(op, st)):
                yield 'C02', n, f'MdibVersion {prev_ver}->{d["ver"]} although the transaction changed {"something" if changed else "nothing"}'
        if d['index_problems']:
            yield 'C11', n, 'provider: ' + d['index_problems'][0]
        # a call that the API refused (the application handled the exception inside the body, which then ended
        # normally) leaves nothing of ITSELF in the commit
        if st.get('caught') and st['res'] == 'ok':
            gone = {c[0] for c in st['caught']}
            stmts = op.get('items') or op.get('actions') or []

            def keys(x):
                if op['k'] == 'state':
                    return [('states', str(x[0]))]
                if op['k'] == 'ctx':
                    if x[0] == 'wr':
                        return [('cstates', str(h)) for h in x[2]]
                    return [('cstates', str(x[2] if x[0] == 'mk' else x[1]))] if x[0] in ('mk', 'get', 'delstate') else []
                return [('descrs', str(x[1]))]
            livek = {k for i, x in enumerate(stmts) if i not in gone for k in keys(x)}
            # objects that other statements of the body change as a side effect: disassociate_all the context states of
            # its descriptor, a created / removed child its parent
            for i, x in enumerate(stmts):
                if i in gone:
                    continue
                if op['k'] == 'ctx' and x[0] == 'disall':
                    livek |= {('cstates', h) for h, c in tb.t['cstates'].items() if str(c[1]) == str(x[1])}
                if op['k'] == 'descr' and x[0] == 'add':
                    livek.add(('descrs', str(x[2])))
                if op['k'] == 'descr' and x[0] == 'del' and str(x[1]) in tb.t['descrs']:
                    livek.add(('descrs', str(tb.t['descrs'][str(x[1])][1])))
            for i, k in [(i, k) for i in sorted(gone) if i < len(stmts) for k in keys(stmts[i])]:
                if k in livek:
                    continue
                hit = [x for x in d[k[0]]['set'] if str(x[0]) == k[1]] or [h for h in d[k[0]]['del'] if h == k[1]]
                if hit:
                    why = dict(map(tuple, st['caught'])).get(i)
                    yield 'C03', n, (f'statement {i} ({"one write_entities call with the others of the batch, " if op.get("batch", 0) > i else ""}'
                                     f'{stmts[i][:2]}) was refused with {why} and the application handled that, but the commit '
                                     f'contains its {k[0][:-1]} {k[1]}')
        # version counters
        for k in VER_POS:
            for x in d[k]['set']:
                h = str(x[0])
                newv = [x[p] for p in VER_POS[k]]
                old = tb.t[k].get(h)
                seen = last_ver[k].get(h)
                if seen is not None:
                    if newv[0] < seen[0]:
                        yield 'C02', n, f'{k[:-1]} {h}: version went back {seen[0]}->{newv[0]}'
                    elif old is None and newv[0] <= seen[0]:
                        yield 'C02', n, f'{k[:-1]} {h}: re-created with version {newv[0]} <= last version {seen[0]}'
                    elif old is not None and newv[0] == seen[0] and _content(old) != _content(x):
                        yield 'C02', n, f'{k[:-1]} {h}: content changed but version stayed {newv[0]}'
                last_ver[k][h] = [max(a, b) for a, b in zip(newv, seen)] if seen else newv
        # remembered versions: never forgotten, never lower, and every object that leaves a table is remembered with
        # the version it had
        for k, tab in SAVED_OF.items():
            for e in sv_new[k]:
                h = str(e[0])
                if st['res'] == 'ok' and saved[k].get(h) is not None and e[1] < saved[k][h]:
                    yield 'C02', n, f'remembered last version of {tab[:-1]} {h} went back {saved[k][h]}->{e[1]}'
                saved[k][h] = e[1]
            for h in sv_gone[k]:
                if st['res'] == 'ok':
                    yield 'C02', n, f'the remembered last version of {tab[:-1]} {h} ({saved[k].get(h)}) was forgotten'
                saved[k].pop(h, None)
            if 'saved' in d:
                for h in d[tab]['del']:
                    old = tb.t[tab].get(h)
                    if old is not None and saved[k].get(h) != old[VER_POS[tab][0]]:
                        yield 'C02', n, (f'{tab[:-1]} {h} was removed with version {old[VER_POS[tab][0]]} but the MDIB remembers '
                                         f'{saved[k].get(h)} as its last version')
        tb.apply(d)
        # referential consistency
        for h, x in tb.t['states'].items():
            dd = tb.t['descrs'].get(h)
            if dd is None:
                yield 'C02', n, f'state {h} has no descriptor'
            elif dd[3] != x[3]:
                yield 'C02', n, f'state {h} carries DescriptorVersion {x[3]} but the descriptor has {dd[3]}'
        for h, x in tb.t['cstates'].items():
            dd = tb.t['descrs'].get(str(x[1]))
            if dd is None:
                yield 'C02', n, f'context state {h} has no descriptor'
            elif dd[3] != x[3]:
                yield 'C02', n, f'context state {h} carries DescriptorVersion {x[3]} but the descriptor has {dd[3]}'
        for h, x in tb.t['descrs'].items():
            if x[1] is not None and str(x[1]) not in tb.t['descrs']:
                yield 'C02', n, f'descriptor {h}: parent {x[1]} does not exist'


def _nonempty(op, st=None):
    """statements of the body that count: not taken back (unget_state), not refused and handled"""
    gone = {c[0] for c in (st or {}).get('caught') or []}
    ug = op.get('unget')
    gone |= set([ug] if isinstance(ug, int) else (ug or []))
    n = len(op.get('items') or op.get('actions') or [])
    return n > len(gone) or op['k'] == 'location'


def _content(x):
    return [v for i, v in enumerate(x)]


def oracle_reports(case, result):
    """C04 (content): the reports of a commit carry the committed version group and exactly the changed objects
    with their committed values; yields (property, step, why)."""
    tb = Tables(result['init']['prov'])
    seq, inst = result['init']['prov']['seq'], result['init']['prov']['inst']
    for n, (op, st) in enumerate(zip(case['ops'], result['trace'])):
        d = st['prov']
        tb.apply(d)
        reps = [r for r in st['reports'] if not r.get('other')]
        for r in reps:
            if r['kind'] == 'UNPARSABLE':
                yield 'C04', n, 'a notification could not be parsed: ' + r.get('err', '')
                continue
            if r.get('status') != 200:
                yield 'C04', n, f'{r["kind"]} was answered with HTTP {r.get("status")}'
            if r['ver'] != d['ver'] or r['seq'] != seq or r['inst'] != inst:
                yield 'C04', n, f'{r["kind"]} carries version group ({r["ver"]},{r["inst"]}) but the commit made ({d["ver"]},{inst})'
        if st['res'] != 'ok':
            continue
        # every changed state / context state is reported with its committed value; nothing else is
        changed_states = {str(x[0]): x for x in d['states']['set']}
        changed_c = {str(x[0]): x for x in d['cstates']['set']}
        rep_states = {}
        for r in reps:
            if r['kind'] in ('UNPARSABLE', 'DescriptionModificationReport'):
                continue
            seen_here = set()
            for part in r['parts']:
                for s in part['states']:
                    h = str(s[0])
                    if h in seen_here:
                        yield 'C04', n, f'{r["kind"]} lists state {h} twice'
                    seen_here.add(h)
                    rep_states[h] = s
        # states are grouped under the MDS they belong to
        def mds_of(dh):
            seen = 0
            cur = tb.t['descrs'].get(str(dh))
            while cur is not None and cur[1] is not None and seen < 50:
                cur = tb.t['descrs'].get(str(cur[1]))
                seen += 1
            return cur[0] if cur is not None else None
        for r in reps:
            if r['kind'] in ('UNPARSABLE', 'DescriptionModificationReport', 'WaveformStream'):
                continue
            for part in r['parts']:
                for s_ in part['states']:
                    dh = s_[1] if len(s_) >= 8 else s_[0]
                    want_mds = mds_of(dh)
                    if part.get('mds') is not None and want_mds is not None and part['mds'] != want_mds:
                        yield 'C04', n, f'state {s_[0]} is reported under MDS {part["mds"]} but belongs to {want_mds}'
        for h, x in list(changed_states.items()) + list(changed_c.items()):
            if h not in rep_states:
                yield 'C04', n, f'state {h} changed in the commit but is in no episodic report'
            elif rep_states[h] != x:
                yield 'C04', n, f'state {h} reported as {rep_states[h]} but committed as {x}'
        for h, s in rep_states.items():
            if h not in changed_states and h not in changed_c:
                cur = tb.t['states'].get(h) or tb.t['cstates'].get(h)
                if cur != s:
                    yield 'C04', n, f'state {h} reported as {s} but the MDIB holds {cur}'
        dm = [r for r in reps if r['kind'] == 'DescriptionModificationReport']
        d_changed = {str(x[0]): x for x in d['descrs']['set']}
        d_deleted = set(d['descrs']['del'])
        if (d_changed or d_deleted) and not dm:
            yield 'C04', n, 'descriptors changed but no DescriptionModificationReport was sent'
        rep_d, rep_del = {}, set()
        for r in dm:
            for part in r['parts']:
                for x in part['descrs']:
                    h = str(x[0])
                    if part['mod'] == 'Del':
                        rep_del.add(h)
                        continue
                    if h in rep_d and rep_d[h] != x:
                        yield 'C04', n, f'descriptor {h} reported twice with different content/version: {rep_d[h]} vs {x}'
                    elif h in rep_d:
                        yield 'C04', n, f'descriptor {h} reported twice'
                    rep_d[h] = x
        for h, x in d_changed.items():
            if h not in rep_d:
                yield 'C04', n, f'descriptor {h} changed but is not in the DescriptionModificationReport'
            elif rep_d[h] != x:
                yield 'C04', n, f'descriptor {h} reported as {rep_d[h]} but committed as {x}'
        # a report part carries, next to its descriptor, every state the commit changed for that descriptor (one for a
        # single-state descriptor, ALL changed context states of a context descriptor) with the committed values
        for r in dm:
            for part in r['parts']:
                if part['mod'] == 'Del':
                    continue
                for x in part['descrs']:
                    h = str(x[0])
                    want = {k: v for k, v in changed_states.items() if k == h}
                    want.update({k: v for k, v in changed_c.items() if str(v[1]) == h})
                    got = {}
                    for s_ in part['states']:
                        key = str(s_[0])
                        if key in got:
                            yield 'C04', n, f'description report part of {h} lists state {key} twice'
                        got[key] = s_
                    for k in sorted(set(want) - set(got)):
                        yield 'C04', n, (f'the commit changed state {k} of descriptor {h} but the description report part '
                                         f'of {h} carries only {sorted(got)}')
                    for k in sorted(set(got) - set(want)):
                        cur = tb.t['states'].get(k) if len(got[k]) < 8 else tb.t['cstates'].get(k)
                        if (str(got[k][1]) if len(got[k]) >= 8 else k) != h:
                            yield 'C04', n, f'description report part of {h} carries state {k} of another descriptor'
                        elif cur != got[k]:
                            yield 'C04', n, f'description report part of {h}: state {k} reported as {got[k]} but the MDIB holds {cur}'
                    for k in sorted(set(got) & set(want)):
                        if got[k] != want[k]:
                            yield 'C04', n, f'description report part of {h}: state {k} reported as {got[k]} but committed as {want[k]}'
        for h in d_deleted - rep_del:
            yield 'C04', n, f'descriptor {h} deleted but not reported as deleted'
        for h in rep_del - d_deleted:
            yield 'C04', n, f'descriptor {h} reported as deleted but still present or never existed'


def oracle_consumer(case, result):
    """C01 (mirror + notifications), C11 (consumer index), C06-style regressions; yields (property, step, why)."""
    if result['init'].get('error'):
        yield 'C01', -1, 'the initial load' + _window(result['init'].get('during')) + ' failed: ' + result['init']['error'][:300]
    if result['init'].get('mirror0'):
        yield 'C01', -1, ('after the initial load' + _window(result['init'].get('during')) +
                          f' the consumer differs from the provider: {result["init"]["mirror0"][0]}')
    for n, (op, st) in enumerate(zip(case['ops'], result['trace'])):
        if 'cons' not in st:
            return
        if st['mirror']:
            yield 'C01', n, f'consumer differs from provider: {st["mirror"][0]}'
        if st['cons']['index_problems']:
            yield 'C11', n, 'consumer: ' + st['cons']['index_problems'][0]
        # notifications name exactly the entities the reports changed
        c = st['cons']
        named_states = set()
        for name, keys in st.get('notif', []):
            if name.endswith('descriptors_by_handle'):
                continue
            named_states |= set(keys)
        changed = {str(x[0]) for x in c['states']['set']} | {str(x[0]) for x in c['cstates']['set']}
        has_dm = any(r.get('kind') == 'DescriptionModificationReport' for r in st['reports'])
        if not has_dm:
            if named_states != changed:
                yield 'C01', n, (f'state notifications name {sorted(named_states)} but the reports changed '
                                 f'{sorted(changed)}')
        new = {k for name, keys in st.get('notif', []) if name == 'new_descriptors_by_handle' for k in keys}
        upd = {k for name, keys in st.get('notif', []) if name == 'updated_descriptors_by_handle' for k in keys}
        dele = {k for name, keys in st.get('notif', []) if name == 'deleted_descriptors_by_handle' for k in keys}
        if dele != set(c['descrs']['del']):
            yield 'C01', n, f'deleted-descriptor notifications name {sorted(dele)} but {sorted(c["descrs"]["del"])} were removed'
        if (new | upd) != {str(x[0]) for x in c['descrs']['set']}:
            yield 'C01', n, (f'descriptor notifications name {sorted(new | upd)} but '
                             f'{sorted(str(x[0]) for x in c["descrs"]["set"])} changed')


# ----------------------------------------------------------------------------- C06: delivery schedules
def fault_schedule(rng, nops):
    """per transaction step a list of delivery tokens (see harness/impl/mdib_impl.py)"""
    sched = []
    for _ in range(nops):
        r = rng.random()
        if r < 0.35:
            toks = ['all']
        elif r < 0.5:
            toks = ['hold']
        elif r < 0.6:
            toks = ['drop']
        elif r < 0.72:
            toks = ['dup']
        elif r < 0.82:
            toks = ['rev']
        elif r < 0.9:
            toks = ['cur']               # what this transaction sent overtakes everything still withheld
        else:
            toks = ['newest']
        if rng.random() < 0.3:
            toks.append(['replay', rng.randrange(1000)])
        if rng.random() < 0.1:
            toks.insert(0, ['replay', rng.randrange(1000)])
        if rng.random() < 0.25:
            toks.append('last')          # a duplicate of the newest report the consumer has seen (same MdibVersion)
        sched.append(toks)
    return sched


def _window(log):
    """' (N reports of kinds ... arrived while GetMdib was in flight)' for the messages about a load"""
    if not log:
        return ''
    kinds = sorted({r[0] for sub in log for r in sub.get('reports', []) if r[0]})
    return ' (while GetMdib was in flight the provider committed ' + str(len(log) - 1) + ' transactions: ' + ', '.join(kinds) + ')'


def oracle_faults(case, result):
    """C06 on an implementation trace with a fault-injecting transport; yields (property, step, why)."""
    init = result['init']['prov']
    published = {t: {} for t in ('descrs', 'states', 'cstates')}      # handle -> set of every value the provider ever held

    def publish(snap_or_delta, is_delta):
        for t in published:
            items = snap_or_delta[t]['set'] if is_delta else snap_or_delta[t]
            for x in items:
                published[t].setdefault(str(x[0]), set()).add(repr(x))
    publish(init, False)
    ct = Tables(init)                      # the consumer starts as a mirror (checked by C01's oracle)
    if result['init'].get('mirror0'):
        yield 'C06', -1, ('after the initial load' + _window(result['init'].get('during')) +
                          f' the consumer is not a mirror: {result["init"]["mirror0"][0]}')
    if result['init'].get('error'):
        yield 'C06', -1, 'the initial load' + _window(result['init'].get('during')) + ' failed: ' + result['init']['error'][:300]
    for p in result['init'].get('cons_problems') or []:
        yield 'C06', -1, 'after the initial load' + _window(result['init'].get('during')) + ': ' + p
    if result['init'].get('cmode', 'initialized') != 'initialized':
        yield 'C06', -1, f'after the initial load the consumer state is {result["init"]["cmode"]}'
    frozen = False
    # the SequenceId / InstanceId the consumer mdib currently follows
    cur_vg = list((result['init'].get('cons_vg') or [None, init['seq'], init['inst']])[1:])

    def foreign(r):
        return r.get('seq') is not None and [r.get('seq'), r.get('inst')] != cur_vg
    for n, (op, st) in enumerate(zip(case['ops'], result['trace'])):
        for sub in st.get('during') or []:
            if 'prov' in sub:
                publish(sub['prov'], True)      # values the provider held in between (transactions inside the window)
        publish(st['prov'], True)
        c = st['cons']
        if st['res'].startswith('Other'):
            yield 'C06', n, 'unexpected exception: ' + st['res'][:200]
        if op['k'] == 'reload' and st['res'] != 'ok':
            yield 'C06', n, 'reload_all' + _window(st.get('during')) + ' failed: ' + st['res'][:300]
        # a (context) state in the wrong table is always wrong; a state without descriptor only after a load (under
        # lost / delayed description reports a FRESH state report for a descriptor the consumer has not seen yet is
        # taken as it is; a STALE one must not change anything: judged per delivery below)
        for p in [p for p in c.get('table_problems') or [] if op['k'] == 'reload' or p.startswith('the single-state table')][:2]:
            yield 'C06', n, 'consumer' + (_window(st.get('during')) if op['k'] == 'reload' else '') + ': ' + p
        reloaded = op['k'] == 'reload' and st['res'] == 'ok'
        if reloaded:
            if c['index_problems']:
                yield 'C06', n, 'after reload_all the consumer lookups are inconsistent: ' + c['index_problems'][0]
            if st['mirror']:
                yield 'C06', n, (f'after reload_all{_window(st.get("during"))} the consumer is not a mirror of the provider: '
                                 f'{st["mirror"][0]}')
            if st.get('cmode') != 'initialized':
                yield 'C06', n, f'after reload_all the consumer state is {st.get("cmode")}'
            frozen = False
            ct = Tables({'ver': c['ver'], 'descrs': [], 'states': [], 'cstates': []})
            ct.apply(c)      # after a reload the tables are simply what the delta says relative to before
            if c.get('seqinst'):
                cur_vg = list(c['seqinst'])
            continue
        if c['index_problems']:
            yield 'C06', n, 'consumer lookups inconsistent: ' + c['index_problems'][0]
        changed = any(c[t]['set'] or c[t]['del'] for t in ('descrs', 'states', 'cstates')) or c['ver'] != ct.ver
        if frozen and changed:
            yield 'C06', n, 'the consumer changed although SequenceId/InstanceId had changed and it was not reloaded'
        if c['ver'] is not None and ct.ver is not None and c['ver'] < ct.ver:
            yield 'C06', n, f'MdibVersion went back {ct.ver}->{c["ver"]}'
        for t, pos in (('states', 2), ('cstates', 2), ('descrs', 3)):
            for x in c[t]['set']:
                h = str(x[0])
                old = ct.t[t].get(h)
                if old is not None and x[pos] < old[pos]:
                    yield 'C06', n, f'{t[:-1]} {h}: version went back {old[pos]}->{x[pos]}'
                if repr(x) not in published[t].get(h, ()):
                    yield 'C06', n, f'{t[:-1]} {h}: the consumer holds {x}, which the provider never published'
        ct.apply(c)
        if st.get('cmode') == 'invalid':
            frozen = True
        # per delivery (the executor fingerprints the consumer MDIB around every delivery): a report from another
        # sequence / instance and a notification that was delivered before must not change anything
        PART = ['MdibVersion', 'SequenceId', 'InstanceId', 'descriptor versions', 'state versions', 'context state versions',
                'waveform samples']
        for r in st.get('delivered', []):
            if 'changed' not in r:
                continue
            if foreign(r) and r['changed']:
                yield 'C06', n, ('a report with a different ' + ('SequenceId' if r.get('seq') != cur_vg[0] else
                                 f'InstanceId ({r.get("inst")} instead of {cur_vg[1]})') + ' was applied: it changed ' +
                                 ', '.join(PART[k] for k in r['changed']))
            elif (r.get('ver') is not None and r.get('cver') is not None and r['ver'] < r['cver'] and r['changed']
                  and r.get('cmode') == 'initialized'):
                yield 'C06', n, (f'a stale {r.get("kind")} (MdibVersion {r["ver"]}, the consumer was at {r["cver"]}) changed the '
                                 'consumer: ' + ', '.join(PART[k] for k in r['changed']))
            elif r.get('again') and r['changed']:
                yield 'C06', n, ('a notification that had been delivered before changed the consumer again: ' +
                                 ', '.join(PART[k] for k in r['changed']) + f' ({r.get("kind")})')
        if c.get('seqinst') and not reloaded:
            yield 'C06', n, f'the consumer adopted SequenceId/InstanceId {c["seqinst"]} without a reload'
        # a delivered report with a foreign sequence / instance id must invalidate an initialised consumer
        for r in st.get('delivered', []):
            if foreign(r) and st.get('cmode') == 'initialized':
                yield 'C06', n, ('a report with a different ' + ('SequenceId' if r.get('seq') != cur_vg[0] else 'InstanceId') +
                                 ' was delivered but the consumer is still "initialized"')
