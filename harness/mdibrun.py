"""History runner for the MDIB properties (C01 C02 C03 C04 C06 C10 C11 C20): executes generated
transaction histories on the loop-back world and records canonical snapshots, wire reports and consumer
notifications.  Imported by harness/impl/*.py (runs inside the implementation process).

Canonical forms
  handle      -> as is (strings of the MDIB file; generated handles are chosen by the generator;
                 uuid4-generated ones are renamed 'gen1', 'gen2', ... in order of first appearance)
  payload     -> short hash of the container's XML (mk_node) with version / association attributes removed
  descriptor  -> [handle, parent, nodetype, DescriptorVersion, payload]
  state       -> [DescriptorHandle, nodetype, StateVersion, DescriptorVersion, payload]
  ctx state   -> [Handle, DescriptorHandle, StateVersion, DescriptorVersion, assoc, binding, unbinding, payload]
"""
from __future__ import annotations

import hashlib
import sys
import time as _real_time
import types
import uuid as _real_uuid
from decimal import Decimal

from lxml import etree

STRIP_ALWAYS = {'DescriptorVersion', 'StateVersion'}
STRIP_CTX = {'ContextAssociation', 'BindingMdibVersion', 'UnbindingMdibVersion', 'BindingStartTime', 'BindingEndTime'}


# ----------------------------------------------------------------------------- virtual clock / uuid
class VClock:
    def __init__(self, start=1000.0):
        self.now = start

    def advance(self, dt):
        self.now += dt


def preimport():
    """import every module that reads the clock before the clock is rebound"""
    import importlib
    for name in ('tests.mockstuff', 'sdc11073.consumer.consumerimpl', 'sdc11073.mdib.consumermdib',
                 'sdc11073.mdib.consumermdibxtra', 'sdc11073.mdib.providermdibxtra', 'sdc11073.mdib.transactions',
                 'sdc11073.provider.providerimpl', 'sdc11073.provider.subscriptionmgr_base',
                 'sdc11073.provider.subscriptionmgr', 'sdc11073.provider.sco', 'sdc11073.provider.periodicreports',
                 'sdc11073.consumer.subscription', 'sdc11073.consumer.operations',
                 'tutorial.productandroles.contextprovider', 'tutorial.productandroles.exampleproduct'):
        try:
            importlib.import_module(name)
        except ImportError:
            pass
    # the tutorial alarm provider runs a periodic self-check transaction in a worker thread: switch it off
    # (it would interleave nondeterministically with the generated histories)
    from tutorial.productandroles import alarmprovider
    alarmprovider.AlertSystemStateMaintainer.WORKER_THREAD_INTERVAL = 36000.0


def install_clock(clock: VClock):
    """Rebind the name `time` in every loaded sdc11073 / tutorial module to a fake whose time(), monotonic()
    and sleep() use the virtual clock (everything else falls through to the real module)."""
    fake = types.ModuleType('time')
    fake.__dict__.update(_real_time.__dict__)
    fake.time = lambda: clock.now
    fake.monotonic = lambda: clock.now
    fake.sleep = _real_time.sleep       # background threads keep waiting in real time
    for name, mod in list(sys.modules.items()):
        if mod is None or not (name.startswith(('sdc11073', 'tutorial'))):
            continue
        if getattr(mod, 'time', None) is _real_time:
            mod.time = fake
    return fake


class SeededUuid:
    def __init__(self, seed=1):
        self.n = seed * 1000

    def uuid4(self):
        self.n += 1
        return _real_uuid.UUID(int=(0xABCD << 96) | self.n)

    def __getattr__(self, name):
        return getattr(_real_uuid, name)


def install_uuid(src: SeededUuid):
    for name, mod in list(sys.modules.items()):
        if mod is None or not (name.startswith(('sdc11073.mdib', 'tutorial'))):
            continue
        if getattr(mod, 'uuid', None) is _real_uuid:
            mod.uuid = src


# ----------------------------------------------------------------------------- canonical snapshots
class Canon:
    def __init__(self):
        self.handles: dict[str, str] = {}

    def h(self, handle):
        if handle is None:
            return None
        if len(handle) == 32 and all(c in '0123456789abcdef' for c in handle):
            if handle not in self.handles:
                self.handles[handle] = f'gen{len(self.handles) + 1}'
            return self.handles[handle]
        return handle

    def payload(self, container, ns_helper=None) -> str:
        """hash of the SEMANTIC value: every declared property read through its descriptor (so implied values
        equal explicit ones), versions / association bookkeeping / the self-updating clock time excluded,
        timestamps at 1 ms"""
        strip = set(STRIP_ALWAYS)
        if getattr(container, 'is_context_state', False):
            strip |= STRIP_CTX
            strip.add('Handle')
        if type(container).__name__.startswith('ClockState'):
            strip.add('DateAndTime')
        try:
            val = canon_value(container, strip)
        except Exception as ex:  # noqa: BLE001
            return f'ERR:{type(ex).__name__}'
        return hashlib.sha1(repr(val).encode()).hexdigest()[:10]

    def descr(self, d, nsh):
        return [self.h(d.Handle), self.h(d.parent_handle), d.NODETYPE.localname, d.DescriptorVersion,
                self.payload(d, nsh)]

    def state(self, s, nsh):
        return [self.h(s.DescriptorHandle), s.NODETYPE.localname, s.StateVersion, s.DescriptorVersion,
                self.payload(s, nsh)]

    def cstate(self, s, nsh):
        assoc = s.ContextAssociation
        assoc = getattr(assoc, 'value', assoc)
        return [self.h(s.Handle), self.h(s.DescriptorHandle), s.StateVersion, s.DescriptorVersion, assoc,
                s.BindingMdibVersion, s.UnbindingMdibVersion, self.payload(s, nsh),
                s.BindingStartTime is not None, s.BindingEndTime is not None]

    def any_state(self, s, nsh):
        return self.cstate(s, nsh) if s.is_context_state else self.state(s, nsh)


def canon_tree(node):
    """namespace-prefix independent canonical form of an element tree (declarations ignored; whitespace-only
    text ignored)"""
    if not isinstance(node.tag, str):
        return ('#comment',)
    text = (node.text or '').strip()
    return (node.tag, tuple(sorted(node.attrib.items())), text,
            tuple(canon_tree(c) for c in node if isinstance(c.tag, str)))


def canon_value(obj, strip=frozenset()):
    import enum
    if obj is None or isinstance(obj, (bool, str)):
        return obj
    if isinstance(obj, (int, float)):
        # ints and floats are one numeric space (a duration of 0 s may be held as 0 or 0.0); resolution 1 ms
        return ('n', round(obj * 1000))
    if isinstance(obj, Decimal):
        return ('dec', str(obj.normalize()) if obj == obj else 'nan')
    if isinstance(obj, enum.Enum):
        return obj.value
    if isinstance(obj, (list, tuple)):
        return tuple(canon_value(x) for x in obj)
    if isinstance(obj, etree.QName):
        return obj.text
    if isinstance(obj, etree._Element):
        return canon_tree(obj)
    if hasattr(obj, 'sorted_container_properties'):
        items = []
        for name, _ in obj.sorted_container_properties():
            if name in strip:
                continue
            items.append((name, canon_value(getattr(obj, name))))
        return (type(obj).__name__, tuple(items))
    if isinstance(obj, dict):
        return tuple(sorted((str(k), canon_value(v)) for k, v in obj.items()))
    return repr(obj)


def index_check(table) -> list[str]:
    """C11 on a real MDIB table: every index dictionary equals the grouping of table.objects by the CURRENT
    key values; returns a list of discrepancies (empty = consistent)."""
    from sdc11073 import multikey
    problems = []
    objs = list(table._objects)
    if any(o is None for o in objs):
        problems.append('None stored as object')
        objs = [o for o in objs if o is not None]
    for name, ix in table._idx_defs.items():
        want: dict = {}
        for o in objs:
            try:
                key = ix._get_key_func(o)
            except (TypeError, AttributeError):
                continue
            if key is None and not ix._index_none_values:
                continue
            if isinstance(ix, multikey.IndexDefinition1n):
                if key is None:
                    continue
                keys = list(key)
            else:
                keys = [key]
            for k in keys:
                want.setdefault(k, []).append(id(o))
        have = {k: [id(o) for o in v] for k, v in dict.items(ix)}
        for k in set(want) | set(have):
            if sorted(want.get(k, [])) != sorted(have.get(k, [])):
                problems.append(f'index {name} key {k!r}: lookup has {len(have.get(k, []))} object(s), '
                                f'scan finds {len(want.get(k, []))}')
        if any(len(v) == 0 for v in have.values()):
            problems.append(f'index {name}: empty list kept')
    ids = {id(o) for o in objs}
    if set(table._object_ids.keys()) != ids:
        problems.append('_object_ids keys differ from stored objects')
    return problems


def snapshot(mdib, canon: Canon) -> dict:
    nsh = mdib.nsmapper if hasattr(mdib, 'nsmapper') else mdib.data_model.ns_helper
    with mdib.mdib_lock:
        descrs = sorted((canon.descr(d, nsh) for d in mdib.descriptions.objects if d is not None),
                        key=lambda x: str(x[0]))
        states = sorted((canon.state(s, nsh) for s in mdib.states.objects if s is not None), key=lambda x: str(x[0]))
        cstates = sorted((canon.cstate(s, nsh) for s in mdib.context_states.objects if s is not None),
                         key=lambda x: str(x[0]))
        idx = (index_check(mdib.descriptions) + index_check(mdib.states) + index_check(mdib.context_states))
        saved = {
            'd': sorted([canon.h(k), v] for k, v in mdib.descriptions.handle_version_lookup.items()),
            's': sorted([canon.h(k), v] for k, v in mdib.states.handle_version_lookup.items()),
            'c': sorted([canon.h(k), v] for k, v in mdib.context_states.handle_version_lookup.items()),
        }
        return {'ver': mdib.mdib_version, 'seq': mdib.sequence_id, 'inst': mdib.instance_id,
                'descrs': descrs, 'states': states, 'cstates': cstates, 'index_problems': idx, 'saved': saved}


# ----------------------------------------------------------------------------- wire reports
REPORT_CLASSES = ('EpisodicMetricReport', 'EpisodicAlertReport', 'EpisodicComponentReport',
                  'EpisodicOperationalStateReport', 'EpisodicContextReport', 'WaveformStream',
                  'DescriptionModificationReport')


def parse_report(body: bytes, msg_reader, data_model, canon: Canon, descr_lookup=None) -> dict | None:
    """Parse one notification body with the REAL message reader into a canonical dict (or None if it is not a
    BICEPS report)."""
    rm = msg_reader.read_received_message(body)
    name = rm.q_name.localname if rm.q_name is not None else None
    if name not in REPORT_CLASSES:
        return {'kind': name, 'other': True}
    msg_types = data_model.msg_types
    nsh = data_model.ns_helper
    cls = getattr(msg_types, name)
    report = cls.from_node(rm.p_msg.msg_node)
    vg = rm.mdib_version_group
    out = {'kind': name, 'ver': vg.mdib_version, 'seq': vg.sequence_id, 'inst': vg.instance_id, 'parts': []}
    if name == 'WaveformStream':
        out['parts'].append({'mds': None, 'states': [canon.any_state(s, nsh) for s in report.State]})
        return out
    for part in report.ReportPart:
        if name == 'DescriptionModificationReport':
            mod = part.ModificationType
            out['parts'].append({'mod': getattr(mod, 'value', mod) or 'Upt', 'parent': canon.h(part.ParentDescriptor),
                                 'descrs': [_descr_from_report(d, canon, nsh, part.ParentDescriptor) for d in part.Descriptor],
                                 'states': [canon.any_state(s, nsh) for s in part.State]})
        else:
            out['parts'].append({'mds': canon.h(getattr(part, 'SourceMds', None)),
                                 'states': [canon.any_state(s, nsh) for s in part.values_list]})
    return out


def _descr_from_report(d, canon, nsh, parent):
    # descriptors inside a report part carry their parent in the part, not in the node
    c = canon.descr(d, nsh)
    c[1] = canon.h(parent) if parent is not None else c[1]
    return c


# ----------------------------------------------------------------------------- consumer notifications
OBSERVABLES = ('metrics_by_handle', 'alert_by_handle', 'component_by_handle', 'context_by_handle',
               'operation_by_handle', 'waveform_by_handle', 'new_descriptors_by_handle',
               'updated_descriptors_by_handle', 'deleted_descriptors_by_handle')


class NotificationRecorder:
    def __init__(self, mdib, canon: Canon):
        from sdc11073 import observableproperties as properties
        self.events: list = []
        self._cbs = []
        for name in OBSERVABLES:
            def cb(value, name=name):
                if value:
                    self.events.append([name, sorted(str(canon.h(k)) for k in value)])
            self._cbs.append(cb)               # bind keeps weak references only
            properties.bind(mdib, **{name: cb})

    def take(self):
        ev, self.events = self.events, []
        return ev


# ----------------------------------------------------------------------------- payload writers
def set_payload(container, n: int, pm_types):
    """Write integer n into a class-specific 'payload' member of a state or descriptor container."""
    cls = type(container).__name__
    if container.is_descriptor_container:
        sc = list(pm_types.SafetyClassification)
        container.SafetyClassification = sc[n % len(sc)]
        return
    if getattr(container, 'is_realtime_sample_array_metric_state', False):
        if container.MetricValue is None:
            container.mk_metric_value()
        container.MetricValue.Samples = [Decimal(n), Decimal(n + 1)]
        container.MetricValue.DeterminationTime = 1000.0 + n      # a waveform provider always stamps its samples
        return
    if getattr(container, 'is_metric_state', False):
        if container.MetricValue is None:
            container.mk_metric_value()
        if 'Numeric' in cls:
            container.MetricValue.Value = Decimal(n)
        elif 'String' in cls or 'Enum' in cls:
            container.MetricValue.Value = f'v{n}'
        else:
            container.ActivationState = list(pm_types.ComponentActivation)[n % 3]
        return
    if getattr(container, 'is_alert_state', False):
        if cls.startswith('AlertSystem'):
            container.SelfCheckCount = n
        elif 'Condition' in cls:
            container.Rank = n
        else:
            container.Slot = n
        return
    if getattr(container, 'is_component_state', False):
        container.OperatingHours = n
        return
    if getattr(container, 'is_operational_state', False):
        container.OperatingMode = list(pm_types.OperatingMode)[n % len(list(pm_types.OperatingMode))]
        return
    if getattr(container, 'is_context_state', False):
        if cls.startswith('Location'):
            container.LocationDetail.Room = f'r{n}'
        elif cls.startswith('Patient'):
            container.CoreData.Givenname = f'g{n}'
        else:
            container.Identification = [pm_types.InstanceIdentifier(root=f'root{n}')]
        return
    raise NotImplementedError(cls)
