"""C20 - query services return exactly the selected states and texts."""
import time

from lib import coqlit

HEADER = ('From Coq Require Import List ZArith Bool.\nImport ListNotations.\n'
          'From SDC Require Import Common.Corr Query.Model.\nOpen Scope Z_scope.\n'
          'Definition qkey (s : qstate) : Z := 2 * q_handle s + (if q_ctx s then 1 else 0).\n'
          'Definition enc (l : list qstate) : list Z := map qkey (sort_by qkey l).\n')
FILES = ('70041_MDIB_Final.xml', 'mdib_two_mds.xml')


def fill_queries(rng, info, n, hot=()):
    """handle lists over existing descriptor handles, context state handles, MDS handles, unknown and duplicated ones;
    hot: handles that deserve extra attention (what changed since the previous phase)"""
    dhs = info['all_handles']
    ctx_dhs = sorted({c['dh'] for c in info['cstates']})
    cs = sorted(c['handle'] for c in info['cstates'])
    qs = []
    for _ in range(n):
        kind = rng.choice(['state', 'ctx'])
        k = rng.choice([0, 1, 1, 2, 3, 5])
        hs = []
        for _ in range(k):
            r = rng.random()
            prev_cs = [c for c in info['cstates'] if c['handle'] in hs or c['dh'] in hs]
            if prev_cs and rng.random() < 0.3:
                # a handle RELATED to one already in the list: the descriptor of a state named before, a sibling state,
                # a state of a descriptor named before, the MDS of either (order matters for caches of 'resolved' handles)
                c = rng.choice(prev_cs)
                sib = [x['handle'] for x in info['cstates'] if x['dh'] == c['dh']]
                hs.append(rng.choice([c['dh'], c['dh'], rng.choice(sib), c['handle'], c['mds']]))
            elif hot and rng.random() < 0.2:
                hs.append(rng.choice(hot))
            elif r < 0.3:
                hs.append(rng.choice(dhs))
            elif r < 0.5 and ctx_dhs:
                hs.append(rng.choice(ctx_dhs))
            elif r < 0.7 and cs:
                hs.append(rng.choice(cs))
            elif r < 0.8:
                hs.append(rng.choice(info['mds']))
            elif r < 0.9:
                hs.append('no_such_handle')
            elif hs:
                hs.append(rng.choice(hs))           # duplicate
        qs.append({'kind': kind, 'handles': hs})
    return qs


def spec(info, q):
    """the BICEPS selection rules evaluated directly on the provider tables (oracle)"""
    flag = info['flag']
    hs = q['handles']
    cst = info['cstates']
    if q['kind'] == 'state':
        if not hs:
            return sorted([[False, s['handle']] for s in info['states']] + ([[True, c['handle']] for c in cst] if flag else []))
        sel = set()
        for h in hs:
            if flag and any(c['handle'] == h for c in cst):
                sel.add((True, h))
            else:
                sel |= {(False, s['handle']) for s in info['states'] if s['dh'] == h}
                if flag:
                    sel |= {(True, c['handle']) for c in cst if c['dh'] == h}
        return sorted([list(x) for x in sel])
    if not hs:
        return sorted([True, c['handle']] for c in cst)
    sel = set()
    for h in hs:
        if any(c['handle'] == h for c in cst):
            sel.add((True, h))
        elif any(c['dh'] == h for c in cst):
            sel |= {(True, c['handle']) for c in cst if c['dh'] == h}
        elif h in info['mds']:
            sel |= {(True, c['handle']) for c in cst if c['mds'] == h}
    return sorted([list(x) for x in sel])


def gen_text_case(rng):
    refs = ['r0', 'R0', 'r1 '][:rng.randint(1, 3)]                 # look-alikes: every comparison is exact
    langs = ['en-US', 'en-us', 'fr'][:rng.randint(1, 3)]
    store = []
    for _ in range(rng.randint(0, 8)):
        nl = rng.randint(1, 3)
        store.append({'text': '\n'.join('x' * rng.randint(1, 3) for _ in range(nl)), 'lang': rng.choice(langs),
                      'ref': rng.choice(refs), 'ver': rng.choice([None, 0, 0, 1, 1, 2, 3]),
                      'width': rng.choice([None, 0, 1, 2, 3, 4, 5])})
    f = {'refs': rng.sample(list(dict.fromkeys(refs + ['zz', 'R0'])), rng.randint(0, 2)) if rng.random() < 0.6 else [],
         'version': rng.choice([None, None, 0, 0, 1, 2, 4]),
         'langs': rng.sample(list(dict.fromkeys(langs + ['it', 'en-us'])), rng.randint(0, 2)) if rng.random() < 0.5 else [],
         'widths': rng.sample(range(6), rng.randint(0, 2)) if rng.random() < 0.5 else [],
         'lines': rng.sample([1, 2, 3], rng.randint(0, 2)) if rng.random() < 0.5 else []}
    return {'store': store, 'filter': f}


def text_oracle(case, ids):
    st, f = case['store'], case['filter']
    vers = [t['ver'] for t in st if t['ver'] is not None]
    eff = f['version'] if f['version'] is not None else (max(vers) if vers else None)
    for i in ids:
        t = st[i]
        nol = len(t['text'].split('\n'))
        if f['refs'] and t['ref'] not in f['refs']:
            return f'text {i} has Ref {t["ref"]} which was not requested'
        if f['langs'] and t['lang'] not in f['langs']:
            return f'text {i} has language {t["lang"]} which was not requested'
        if t['ver'] != eff:
            return f'text {i} has version {t["ver"]} but {eff} was requested / is the latest'
        if f['widths'] and not any((t['width'] if t['width'] is not None else 999) <= w for w in f['widths']):
            return f'text {i} is wider than every requested width'
        if f['lines'] and not any(nol <= n for n in f['lines']):
            return f'text {i} has more lines than every requested number of lines'
    if not any(f[k] for k in ('refs', 'langs', 'widths', 'lines')) and f['version'] is None:
        want = sorted(i for i, t in enumerate(st) if t['ver'] == eff)
        if sorted(ids) != want:
            return f'without constraints the texts of the latest version are {want} but {sorted(ids)} were returned'
    return None



# ---------------------------------------------------------------- histories on one storage, through the handlers
WN = ['xs', 's', 'm', 'l', 'xl', 'xxl']
# language tags: lower case, region / script / variant subtags in their usual mixed case, private use, and tags that
# differ ONLY in case (for the library 'en-US' and 'en-us' are two languages: every comparison is exact)
LANG_TWINS = [['en-US', 'en-us', 'EN-US'], ['de-DE', 'de-de'], ['zh-Hant', 'zh-hant'], ['en', 'EN'], ['sr-Latn-RS', 'sr-latn-rs']]
LANG_PLAIN = ['fr', 'it', 'es', 'de', 'x-a1', 'de-1996', 'pt-BR']
LANGS = [x for tw in LANG_TWINS for x in tw] + LANG_PLAIN
LANG_NEVER = ['pt', 'PT', 'en-Us', 'De-de']                     # requested, never stored
# Refs that differ only in case, in surrounding / inner blanks, or in Unicode normalisation (NFC vs NFD of "cafe" + acute)
REF_TWINS = [['r0', 'R0'], ['r1', ' r1', 'r1 '], ['caf\u00e9', 'cafe\u0301'], ['a b', 'a  b'], ['Vol', 'vol']]
REF_PLAIN = ['r2', 'r3', 'press.1']
REF_NEVER = ['zz', 'ZZ', ' zz']
LINES = ['x', 'y', 'xx', 'X', ' x', 'x ']


def asc(s):
    return str(s).encode('ascii', 'backslashreplace').decode()


def norm_ref(r):
    import unicodedata
    return ' '.join(unicodedata.normalize('NFC', r).lower().split())


def pick_pool(rng, twins, plain, n):
    """n values; at least one family of look-alikes is in with two members"""
    fam = rng.choice(twins)
    pool = rng.sample(fam, min(len(fam), rng.choice([2, 2, 3])))
    rest = [x for tw in twins for x in tw if x not in pool] + plain
    while len(pool) < n:
        x = rng.choice(rest)
        if x not in pool:
            pool.append(x)
    rng.shuffle(pool)
    return pool[:max(n, 2)]


def tkey(t):
    return (t['ref'], t['lang'], t['ver'], t['width'], t['text'])


def near(rng, twins, have, never):
    """a value that is NOT stored: preferably a look-alike of a stored one (same family), else one of `never`"""
    cand = [x for fam in twins if any(y in have for y in fam) for x in fam if x not in have]
    return rng.choice(cand) if cand and rng.random() < 0.6 else rng.choice(never)


def gen_filter(rng, ref_pool, lang_pool, stored):
    kind = rng.choice(['none', 'none', 'refs', 'langs', 'version', 'mixed', 'mixed', 'size', 'size', 'size', 'size'])
    f = {'refs': [], 'version': None, 'langs': [], 'widths': [], 'lines': []}
    vers = sorted({t['ver'] for t in stored if t['ver'] is not None}) or [0]
    if kind in ('refs', 'mixed', 'size') and (kind == 'refs' or rng.random() < 0.6):
        f['refs'] = rng.sample(ref_pool + [near(rng, REF_TWINS, {t['ref'] for t in stored}, REF_NEVER)],
                               rng.randint(1, min(3, len(ref_pool) + 1)))
        if rng.random() < 0.15:
            f['refs'].append(rng.choice(f['refs']))                 # a Ref named twice
    if kind in ('langs', 'mixed', 'size') and (kind == 'langs' or rng.random() < 0.5):
        f['langs'] = rng.sample(lang_pool + [near(rng, LANG_TWINS, {t['lang'] for t in stored}, LANG_NEVER)], rng.randint(1, 2))
    if kind in ('version', 'mixed', 'size') and (kind == 'version' or rng.random() < 0.5):
        f['version'] = rng.choice(vers + [0, max(vers) + 1])
    if kind == 'size':
        m = rng.choice(['w', 'l', 'wl'])
        if 'w' in m:
            f['widths'] = rng.sample(range(6), rng.randint(1, 3))
        if 'l' in m:
            f['lines'] = rng.sample([0, 1, 2, 3, 4], rng.randint(1, 2))
    return f


def gen_history(rng, n_ops):
    """add (new Ref / known Ref + new language / width or line-count variant / new version / exact duplicate, also the
    same Python object again) interleaved with GetSupportedLanguages and GetLocalizedText"""
    ref_pool = pick_pool(rng, REF_TWINS, REF_PLAIN, rng.randint(2, 4))
    lang_pool = pick_pool(rng, LANG_TWINS, LANG_PLAIN, rng.randint(2, 5))
    stored, ops, n = [], [], 0

    def text(nl=None):
        nl = nl or rng.choice([1, 1, 2, 3])
        return '\n'.join(rng.choice(LINES) for _ in range(nl))

    def one_add():
        nonlocal n
        kinds = ['new_ref', 'random']
        if stored:
            kinds += ['new_lang', 'new_lang', 'variant', 'variant', 'variant', 'new_version', 'dup', 'same']
        k = rng.choice(kinds)
        base = rng.choice(stored) if stored else None
        t = {'text': text(), 'lang': rng.choice(lang_pool), 'ref': rng.choice(ref_pool),
             'ver': rng.choice([None, 0, 1, 1, 2]), 'width': rng.choice([None, 0, 1, 2, 3, 4, 5])}
        if k == 'new_ref':
            unused = [r for r in ref_pool if all(s['ref'] != r for s in stored)]
            if unused:
                t['ref'] = rng.choice(unused)
        elif k == 'new_lang':
            unused = [x for x in lang_pool if all(s['lang'] != x for s in stored)]
            t.update(ref=base['ref'], ver=base['ver'], lang=rng.choice(unused or lang_pool))
        elif k == 'variant':                       # equal Ref + Lang + Version, other width / number of lines
            t.update(ref=base['ref'], lang=base['lang'], ver=base['ver'])
            if rng.random() < 0.3:
                t['text'] = base['text']
        elif k == 'new_version':
            t.update(ref=base['ref'], lang=base['lang'], ver=(base['ver'] or 0) + rng.choice([1, 1, 2]))
        elif k in ('dup', 'same'):
            t = {x: base[x] for x in ('text', 'lang', 'ref', 'ver', 'width')}
            if k == 'same':
                t['same'] = base['n']
        t['n'] = n
        t['kind'] = k
        n += 1
        stored.append(t)
        return t

    for _ in range(n_ops):
        r = rng.random()
        if r < 0.45 or not ops:
            ops.append({'op': 'add', 'texts': [one_add() for _ in range(rng.choice([1, 1, 1, 2, 3]))]})
        elif r < 0.65:
            ops.append({'op': 'langs'})
        else:
            ops.append({'op': 'text', 'filter': gen_filter(rng, ref_pool, lang_pool, stored)})
    return {'ops': ops, 'ctor': rng.random() < 0.3, 'ref_pool': ref_pool, 'lang_pool': lang_pool}


def hist_text_oracle(stored, f, got):
    """the C20 clauses for one GetLocalizedText answer (got: list of content keys) against the texts stored at that moment"""
    from collections import Counter
    have = Counter(tkey(t) for t in stored)
    vers = [t['ver'] for t in stored if t['ver'] is not None]
    eff = f['version'] if f['version'] is not None else (max(vers) if vers else None)

    def tw(k):
        return k[3] if k[3] is not None else 999

    def nol(k):
        return len(k[4].split('\n'))
    for k in got:
        if k not in have:
            return 'not stored', f'the answer contains {k} which is not a stored text'
        if f['refs'] and k[0] not in f['refs']:
            return 'ref', f'the answer contains {k}: Ref was not requested'
        if f['langs'] and k[1] not in f['langs']:
            return 'lang', f'the answer contains {k}: language was not requested'
        if k[2] != eff:
            return 'version', f'the answer contains {k} but version {eff} was requested / is the latest'
        if f['widths'] and not any(tw(k) <= w for w in f['widths']):
            return 'width', f'the answer contains {k}: wider than every requested width'
        if f['lines'] and not any(nol(k) <= n for n in f['lines']):
            return 'lines', f'the answer contains {k}: more lines than every requested number of lines'
    base = Counter({k: c for k, c in have.items()
                    if (not f['refs'] or k[0] in f['refs']) and (not f['langs'] or k[1] in f['langs']) and k[2] == eff})
    gc = Counter(got)
    if not f['widths'] and not f['lines']:
        missing = base - gc
        if missing:
            return 'missing', (f'no width / lines constraint: {sum(base.values())} stored texts are selected, the answer has '
                               f'{len(got)}; missing {sorted(missing.elements(), key=repr)[:4]}')
        if len(set(f['refs'])) == len(f['refs']) and gc != base:
            return 'repeated', (f'no width / lines constraint, each Ref named once: returned more often than stored: '
                                f'{sorted((gc - base).elements(), key=repr)[:4]}')
        return None
    # with size constraints: every (Ref, Lang) group that has an admissible text for a requested width / number of
    # lines (combination) is represented in the answer by a text admissible for it
    groups = {}
    for k in base:
        groups.setdefault((k[0], k[1]), []).append(k)
    for g, ks in sorted(groups.items()):
        for w in f['widths'] or [None]:
            for n in f['lines'] or [None]:
                def adm(k, w=w, n=n):
                    return (w is None or tw(k) <= w) and (n is None or nol(k) <= n)
                if any(adm(k) for k in ks) and not any((k[0], k[1]) == g and adm(k) for k in got):
                    return 'group not served', (f'texts of {g} fit width<={w} lines<={n} '
                                                f'({[k for k in ks if adm(k)][:3]}) but the answer has none of them')
    return None


def run(ctx):
    t0 = time.time()

    def lap(what):
        ctx.log(f'{what}: {time.time() - t0:.0f}s since start')
    if not ctx.prove():
        ctx.broken('theorem', 'Props/C20.v', ctx.proof_error)
    nq = ctx.n(44, 600)
    # phase 1: learn the tables, phase 2: the queries
    worlds = [{'mdib': f, 'flag': flag, 'queries': []} for f in FILES for flag in (True, False)]
    # the tables do not depend on the contextstates_in_getmdib flag: one probe world per MDIB file
    probe = ctx.impl('c20_impl', {'worlds': [{'mdib': f, 'flag': True, 'queries': []} for f in FILES]}, timeout=600)
    if probe.get('_crash'):
        ctx.broken('correspondence', 'queries: implementation run crashed', probe['stderr'][-800:])
        return ctx.finish('implementation run crashed', [], [])
    by_file = {info['mdib']: info for info in probe['worlds']}
    for wq, info in ((wq, by_file[wq['mdib']]) for wq in worlds):
        wq['queries'] = fill_queries(ctx.rng, info, nq)
        # phase 2 (after the MDIB changed): handle lists over the old AND the new tables - the removed descriptor is
        # now an unknown handle, the new context states are known
        info2 = dict(info, cstates=info['cstates'] + [c for c in info['cstates2'] if c not in info['cstates']])
        hot = list(info['removed']) + sorted({c['handle'] for c in info['cstates2']} - {c['handle'] for c in info['cstates']})
        # ... a third of them repeat a request of phase 1 literally (an answer remembered per request would be stale)
        wq['queries2'] = [dict(ctx.rng.choice(wq['queries'])) if ctx.rng.random() < 0.35 else q
                          for q in fill_queries(ctx.rng, info2, nq // 2, hot)]
    res = ctx.impl('c20_impl', {'worlds': worlds}, timeout=900)
    if res.get('_crash'):
        ctx.broken('correspondence', 'queries: implementation run crashed', res['stderr'][-800:])
        return ctx.finish('implementation run crashed', [], [])
    lap('queries: implementation runs done')
    cases, keys, kinds = [], [], {}
    phase_hist = {'phase1': 0, 'phase2': 0, 'phase2_removed_handle': 0, 'phase2_new_context_state': 0}
    for world in res['worlds']:
        hid = {}

        def h(s, hid=hid):
            if s not in hid:
                hid[s] = len(hid) + 1
            return hid[s]
        for s in world['states'] + world['cstates'] + world['states2'] + world['cstates2']:
            h(s['handle']), h(s['dh']), h(s['mds'])
        for m in world['mds'] + world['all_handles'] + world['all_handles2']:
            h(m)

        def ql(s):
            return f'mkQ {"true" if s["ctx"] else "false"} {h(s["handle"])} {h(s["dh"])} {h(s["mds"])}'
        new_cs = {c['handle'] for c in world['cstates2']} - {c['handle'] for c in world['cstates']}
        for phase in (1, 2):
            info = world if phase == 1 else dict(world, states=world['states2'], cstates=world['cstates2'],
                                                 all_handles=world['all_handles2'])
            mlit = ('(mkQM [' + '; '.join(ql(s) for s in info['states']) + '] [' + '; '.join(ql(s) for s in info['cstates']) +
                    '] [' + '; '.join(str(h(m)) for m in info['mds']) + '])')
            name = f'm_{len(kinds)}'
            kinds[name] = mlit
            # GetMdib / GetMdDescription without handles: the whole content as it is at that moment
            whole = world['whole' if phase == 1 else 'whole2']
            wrep = {'stream': 'queries', 'case': {'mdib': info['mdib'], 'flag': info['flag'], 'phase': phase}, 'impl': whole}
            if 'error' in whole:
                ctx.fail(f'GetMdib / GetMdDescription failed: {whole["error"]}', {'stream': 'queries', 'clause': 'error'}, wrep)
            else:
                want = sorted([[False, s['handle']] for s in info['states']] +
                              ([[True, c['handle']] for c in info['cstates']] if info['flag'] else []))
                if sorted(whole['states']) != want:
                    ctx.fail(f'GetMdib on {info["mdib"]} (phase {phase}): the states in the answer are not the states of the MDIB: '
                             f'missing {[x for x in want if x not in whole["states"]][:4]}, '
                             f'unexpected {[x for x in whole["states"] if x not in want][:4]}',
                             {'stream': 'queries', 'kind': 'getmdib', 'clause': 'states'}, wrep)
                if whole['descriptors'] != info['all_handles']:
                    ctx.fail(f'GetMdDescription() on {info["mdib"]} (phase {phase}): descriptors in the answer differ from the MDIB: '
                             f'{sorted(set(whole["descriptors"]) ^ set(info["all_handles"]))[:6]}',
                             {'stream': 'queries', 'kind': 'getmddescription', 'clause': 'descriptors'}, wrep)
            for qr in world['queries' if phase == 1 else 'queries2']:
                q = qr['q']
                phase_hist[f'phase{phase}'] += 1
                if phase == 2:
                    phase_hist['phase2_removed_handle'] += any(x in world['removed'] for x in q['handles'])
                    phase_hist['phase2_new_context_state'] += any(x in new_cs for x in q['handles'])
                if 'error' in qr:
                    ctx.fail(f'{q["kind"]} query {q["handles"]} failed: {qr["error"]}', {'stream': 'queries', 'clause': 'error'},
                             {'stream': 'queries', 'case': {'mdib': info['mdib'], 'flag': info['flag'], 'phase': phase, 'query': q}})
                    continue
                got = sorted(qr['items'])
                want = spec(info, q)
                if got != want:
                    extra = [x for x in got if x not in want or got.count(x) > 1]
                    missing = [x for x in want if x not in got]
                    ctx.fail(f'{"GetMdState" if q["kind"] == "state" else "GetContextStates"}({q["handles"]}) on {info["mdib"]} '
                             f'(context states in GetMdib: {info["flag"]}{", after the MDIB changed" if phase == 2 else ""}): '
                             f'unexpected/duplicated {extra[:4]}, missing {missing[:4]}',
                             {'stream': 'queries', 'kind': q['kind'],
                              'clause': 'duplicate' if len(got) != len({tuple(x) for x in got}) else ('extra' if extra else 'missing')},
                             {'stream': 'queries', 'case': {'mdib': info['mdib'], 'flag': info['flag'], 'phase': phase, 'query': q},
                              'impl': got[:40], 'spec': want[:40]})
                hl = '[' + '; '.join(str(h(x)) for x in q['handles']) + ']'
                enc = coqlit(sorted(2 * h(x[1]) + (1 if x[0] else 0) for x in qr['items']))
                fn = (f'enc (get_md_state {"true" if info["flag"] else "false"} {name} {hl})' if q['kind'] == 'state'
                      else f'enc (get_context_states {name} {hl})')
                cases.append((fn, enc))
                keys.append((info['mdib'], info['flag'], q['kind'], tuple(q['handles']), phase))
    header = HEADER + '\n'.join(f'Definition {n} : qmdib := {l}.' for n, l in kinds.items())
    mism, err = ctx.coq_mism('queries', header, 'zl_eqb', 'fun x => x', cases, shard=120, deps=['Query/Model.vo'])
    if err:
        ctx.broken('correspondence', 'queries (coq evaluation)', err[-1200:])
    if mism:
        i = mism[0]
        ctx.broken('correspondence', 'queries: model vs implementation',
                   {'disagreements': len(mism), 'first': keys[i], 'impl': cases[i][1][:500],
                    'model': ctx.coq_eval(header, cases[i][0])[-500:]})
    ctx.count('queries', len(cases), keys, worlds=len(res['worlds']), phases=phase_hist,
              handle_list_lengths={str(k): sum(1 for x in keys if len(x[3]) == k) for k in range(6)})
    ctx.sample({'stream': 'queries', 'query': keys[1] if len(keys) > 1 else None, 'result': cases[1][1] if len(cases) > 1 else None})

    lap('queries: model evaluated')
    # ---------------------------------------------------------------- localized texts
    tcases = [gen_text_case(ctx.rng) for _ in range(ctx.n(400, 6000))]
    tres = ctx.impl('c20_impl', {'worlds': [], 'texts': tcases}, timeout=600)
    if tres.get('_crash'):
        ctx.broken('correspondence', 'texts: implementation run crashed', tres['stderr'][-800:])
    else:
        lits = []
        hist = {'none': 0, 'widths': 0, 'lines': 0, 'both': 0, 'empty_result': 0, 'error': 0}
        for case, r in zip(tcases, tres['texts']):
            f = case['filter']
            mode = 'both' if f['widths'] and f['lines'] else 'widths' if f['widths'] else 'lines' if f['lines'] else 'none'
            hist[mode] += 1
            if 'error' in r:
                hist['error'] += 1
                ctx.fail(f'filter_localized_texts raised {r["error"]}', {'stream': 'texts', 'clause': 'error', 'mode': mode},
                         {'stream': 'texts', 'case': case})
                continue
            hist['empty_result'] += not r['ids']
            why = text_oracle(case, r['ids'])
            if why:
                ctx.fail(f'GetLocalizedText: {why}', {'stream': 'texts', 'clause': why.split(' which')[0].split(' but')[0][:40], 'mode': mode},
                         {'stream': 'texts', 'case': case, 'impl': r['ids']})
            langs = sorted({t['lang'] for t in case['store']})
            if r['langs'] != langs:
                ctx.fail(f'GetSupportedLanguages returned {r["langs"]} but the stored languages are {langs}',
                         {'stream': 'texts', 'clause': 'languages'}, {'stream': 'texts', 'case': case})
            sid = {s: i + 1 for i, s in enumerate(sorted({t['ref'] for t in case['store']} | set(f['refs'])))}
            lid = {s: i + 1 for i, s in enumerate(sorted({t['lang'] for t in case['store']} | set(f['langs'])))}
            refs_in_order = []
            for t in case['store']:
                if t['ref'] not in refs_in_order:
                    refs_in_order.append(t['ref'])

            def tl(i, t):
                return (f'mkT {i} {sid[t["ref"]]} {lid[t["lang"]]} {"None" if t["ver"] is None else "(Some " + str(t["ver"]) + ")"} '
                        f'{"None" if t["width"] is None else "(Some " + str(t["width"]) + ")"} {len(t["text"].split(chr(10)))}')
            st = '[' + '; '.join(
                f'({sid[r_]}, [' + '; '.join(tl(i, t) for i, t in enumerate(case['store']) if t['ref'] == r_) + '])'
                for r_ in refs_in_order) + ']'
            rank = r.get('both_rank') or {}
            keyf = ('(fun t => match x_id t with ' + ' '.join(f'| {i} => {k}' for i, k in sorted((int(a), b) for a, b in rank.items()))
                    + ' | _ => 0 end)') if rank else '(fun _ => 0)'
            ver = 'None' if f['version'] is None else f'(Some {f["version"]})'
            inp = (f'map x_id (filter_texts {st} {coqlit([sid[x] for x in f["refs"]])} {ver} {coqlit([lid[x] for x in f["langs"]])} '
                   f'{coqlit(list(f["widths"]))} {coqlit(list(f["lines"]))} {keyf})')
            lits.append((inp, coqlit(r['ids'])))
        mism, err = ctx.coq_mism('texts', HEADER, 'zl_eqb', 'fun x => x', lits, shard=150, deps=['Query/Model.vo'])
        if err:
            ctx.broken('correspondence', 'texts (coq evaluation)', err[-1200:])
        if mism:
            i = mism[0]
            ctx.broken('correspondence', 'texts: model vs implementation',
                       {'disagreements': len(mism), 'first_case': tcases[i], 'impl': lits[i][1],
                        'model': ctx.coq_eval(HEADER, lits[i][0])[-300:]})
        ctx.count('texts', len(tcases), [repr(c) for c in tcases], histogram=hist)
        ctx.sample({'stream': 'texts', 'case': tcases[0], 'impl': tres['texts'][0]})

    lap('texts done')
    # ---------------------------------------------------------------- histories through the real service handlers
    from collections import Counter

    def hfail(what, sig, rep):
        return ctx.fail(asc(what), sig, rep)
    hcases = [gen_history(ctx.rng, ctx.rng.randint(10, 26)) for _ in range(ctx.n(60, 900))]
    hres = ctx.impl('c20_impl', {'worlds': [], 'hist': hcases}, timeout=900)
    lap('text_histories: implementation run done')
    if hres.get('_crash') or len(hres.get('hist', [])) != len(hcases):
        ctx.broken('correspondence', 'text_histories: implementation run crashed', str(hres.get('stderr', hres))[-800:])
    else:
        area = hres['area_keys']
        order = sorted(set(area.values()))
        bk = ('Definition bk (t : ltext) : Z := match x_width t, x_nol t with ' +
              ' '.join(f'| Some {wn.split(",")[0]}, {wn.split(",")[1]} => {order.index(v) + 1}' for wn, v in sorted(area.items())) +
              ' | _, _ => 0 end.\n')
        hheader = HEADER + bk + 'Definition srt (l : list (list Z)) := map (sort_by (fun x => x)) l.\n'
        hist = {'add': 0, 'langs': 0, 'text_no_size': 0, 'text_widths': 0, 'text_lines': 0, 'text_both': 0,
                'ref_named_twice': 0, 'unknown_ref_requested': 0, 'empty_answer': 0, 'answers_with_repeated_text': 0,
                'langs_after_new_lang_for_known_ref': 0, 'queries_on_store_with_equal_ref_lang_version': 0,
                'langs_with_upper_case_stored': 0, 'langs_with_case_twins_stored': 0,
                'text_lang_requested_is_case_twin_of_stored_only': 0, 'text_ref_requested_is_lookalike_of_stored_only': 0,
                'wire_exchanges': 0}
        addk = Counter()
        hlits, hkeys = [], []
        for case, r in zip(hcases, hres['hist']):
            sid = {x: i + 1 for i, x in enumerate([x for tw in REF_TWINS for x in tw] + REF_PLAIN + REF_NEVER)}
            lid = {x: i + 1 for i, x in enumerate(LANGS + LANG_NEVER)}
            stored, ids, lops, expect = [], {}, [], []
            answers = iter(r['answers'])
            langs_asked = False
            armed = False                  # a new language arrived for a known Ref after GetSupportedLanguages was asked
            bad = False
            for oi, op in enumerate(case['ops']):
                if op['op'] == 'add':
                    hist['add'] += len(op['texts'])
                    for t in op['texts']:
                        addk[t['kind']] += 1
                        if langs_asked and any(s['ref'] == t['ref'] for s in stored) and all(s['lang'] != t['lang'] for s in stored):
                            armed = True
                        stored.append(t)
                        i = ids.setdefault(tkey(t), len(ids) + 1)
                        lops.append(f'LAdd (mkT {i} {sid[t["ref"]]} {lid[t["lang"]]} '
                                    f'{"None" if t["ver"] is None else "(Some " + str(t["ver"]) + ")"} '
                                    f'{"None" if t["width"] is None else "(Some " + str(t["width"]) + ")"} '
                                    f'{len(t["text"].split(chr(10)))})')
                    continue
                a = next(answers)
                replay = {'stream': 'text_histories', 'case': {'ctor': case['ctor'], 'ops': case['ops'][:oi + 1]},
                          'stored_at_that_moment': [list(tkey(t)) for t in stored], 'answer': a}
                hist['wire_exchanges'] += a.get('wire', 0)
                if 'error' in a:
                    hfail(f'{op["op"]} request failed: {a["error"]}', {'stream': 'text_histories', 'clause': 'error'}, replay)
                    bad = True
                    break
                if a.get('wire') != 1 or a.get('status') != [200] or not a.get('to_handler'):
                    ctx.broken('correspondence', 'text_histories: a request did not cross the loop-back wire exactly once', a)
                if op['op'] == 'langs':
                    hist['langs'] += 1
                    hist['langs_after_new_lang_for_known_ref'] += armed
                    sl = {t['lang'] for t in stored}
                    hist['langs_with_upper_case_stored'] += any(x != x.lower() for x in sl)
                    hist['langs_with_case_twins_stored'] += len({x.lower() for x in sl}) < len(sl)
                    langs_asked = True
                    want = sorted({t['lang'] for t in stored})
                    if sorted(a['langs']) != want:
                        hfail(f'GetSupportedLanguages answered {sorted(a["langs"])} but the stored languages are {want} '
                                 f'(history of {oi + 1} operations, last add: '
                                 f'{[tkey(t) for o in case["ops"][:oi] if o["op"] == "add" for t in o["texts"]][-1:]})',
                                 {'stream': 'text_histories', 'clause': 'languages'}, replay)
                    lops.append('LLangs')
                    expect.append(sorted(lid.get(x, 0) for x in a['langs']))
                    continue
                f = op['filter']
                mode = 'text_both' if f['widths'] and f['lines'] else 'text_widths' if f['widths'] else 'text_lines' if f['lines'] else 'text_no_size'
                hist[mode] += 1
                hist['ref_named_twice'] += len(set(f['refs'])) != len(f['refs'])
                hist['unknown_ref_requested'] += any(all(s['ref'] != x for s in stored) for x in f['refs'])
                hist['empty_answer'] += not a['texts']
                sl, sr = {t['lang'] for t in stored}, {t['ref'] for t in stored}
                hist['text_lang_requested_is_case_twin_of_stored_only'] += any(
                    x not in sl and x.lower() in {y.lower() for y in sl} for x in f['langs'])
                hist['text_ref_requested_is_lookalike_of_stored_only'] += any(
                    x not in sr and norm_ref(x) in {norm_ref(y) for y in sr} for x in f['refs'])
                hist['queries_on_store_with_equal_ref_lang_version'] += (
                    len({(t['ref'], t['lang'], t['ver']) for t in stored}) < len({tkey(t) for t in stored}))
                got = [(x[0], x[1], x[2], WN.index(x[3]) if x[3] in WN else x[3], x[4]) for x in a['texts']]
                hist['answers_with_repeated_text'] += any(c > Counter(tkey(t) for t in stored)[k] for k, c in Counter(got).items())
                why = hist_text_oracle(stored, f, got)
                if why:
                    hfail(f'GetLocalizedText(refs={f["refs"]}, version={f["version"]}, langs={f["langs"]}, '
                             f'widths={[WN[x] for x in f["widths"]]}, lines={f["lines"]}) through the service handler, '
                             f'{len(stored)} texts stored: {why[1]}',
                             {'stream': 'text_histories', 'clause': why[0], 'mode': mode}, replay)
                ver = 'None' if f['version'] is None else f'(Some {f["version"]})'
                lops.append(f'LText {coqlit([sid[x] for x in f["refs"]])} {ver} {coqlit([lid[x] for x in f["langs"]])} '
                            f'{coqlit(list(f["widths"]))} {coqlit(list(f["lines"]))}')
                expect.append(sorted(ids.get(k, 0) for k in got))
            if bad:
                continue
            # the storage holds exactly what was added (no request stored or dropped a text)
            fin = Counter((x[0], x[1], x[2], WN.index(x[3]) if x[3] in WN else x[3], x[4]) for x in r['final'])
            if fin != Counter(tkey(t) for t in stored):
                hfail('after the history the storage does not hold exactly the added texts',
                         {'stream': 'text_histories', 'clause': 'storage content'},
                         {'stream': 'text_histories', 'case': case, 'final': r['final']})
            hlits.append((f'srt (run_hist bk [{"; ".join(lops)}] [])',
                          '[' + '; '.join(coqlit(e) if e else '([] : list Z)' for e in expect) + ']'
                          if expect else '([] : list (list Z))'))
            hkeys.append(repr(case['ops']))
        mism, err = ctx.coq_mism('text_histories', hheader, 'zll_eqb', 'fun x => x', hlits, shard=40, deps=['Query/Model.vo'])
        if err:
            ctx.broken('correspondence', 'text_histories (coq evaluation)', err[-1200:])
        if mism:
            i = mism[0]
            ctx.broken('correspondence', 'text_histories: model vs implementation (through the handlers)',
                       {'disagreements': len(mism), 'first_case': hlits[i][0][:1500], 'impl': hlits[i][1][:600],
                        'model': ctx.coq_eval(hheader, hlits[i][0])[-600:]})
        hist['adds_by_kind'] = dict(addk)
        nq = hist['langs'] + sum(hist[k] for k in ('text_no_size', 'text_widths', 'text_lines', 'text_both'))
        ctx.count('text_histories', nq, [k + str(j) for k in hkeys for j in range(1)], histories=len(hcases), histogram=hist)
        ctx.sample({'stream': 'text_histories', 'ops': hcases[0]['ops'][:6], 'answers': hres['hist'][0]['answers'][:3]})
    lap('text_histories done')
    if ctx.thorough:
        hits = ctx.gate_grep(['Query', 'Common'])
        if hits:
            ctx.broken('theorem', 'grep gate', hits)
        ctx.coqchk('SDC.Props.C20')
    return ctx.finish(
        rule='queries: GetMdState / GetContextStates through the real consumer service clients over the loop-back transport '
             '(request serialised -> _on_get_md_state / _on_get_context_states -> response serialised, validated, parsed) '
             'on the single- and the two-MDS MDIB (context states in every MDS, both settings of contextstates_in_getmdib) '
             'for generated handle lists (descriptor / context-descriptor / context-state / MDS / unknown / duplicated '
             'handles, empty list) in TWO phases: between them the MDIB changes (new context states, a metric removed) '
             'and a third of the phase-2 requests repeat a phase-1 request literally; every answer vs the BICEPS rules on '
             'the tables of that moment (oracle) and vs the Coq model; GetMdib / GetMdDescription() once per phase: the '
             'states / descriptors of that moment; texts: generated stores and filter combinations through '
             'LocalizationStorage.filter_localized_texts / get_supported_languages vs oracle and model; text_histories: '
             'one LocalizationStorage per history, add() (new Ref, known Ref + new language, width / line-count variants '
             'with equal Ref+Lang+Version, new versions, exact duplicates, the same object twice, constructor arguments) '
             'interleaved with GetSupportedLanguages and GetLocalizedText sent by the consumer '
             'LocalizationServiceClient over the loop-back transport through LocalizationService._on_get_supported_languages '
             '/ _on_get_localized_text; EVERY answer is judged against the texts stored at that moment (multiset of returned '
             'texts identified by content: nothing unselected, without width / lines constraint exactly the selection, with '
             'them every (Ref, Lang) group with an admissible text is served) and compared with run_hist of the Coq model; '
             'distinct = distinct queries / (store, filter) pairs / histories',
        assumptions=['results are compared as sorted multisets (the state tables are Python sets)',
                     'the sort key used when BOTH widths and lines are given (a Python string repeated n times) enters the '
                     'model as a rank table computed by Python',
                     'texts that come back over the wire are identified by their content (Ref, Lang, Version, TextWidth, text)',
                     'a text returned more often than it is stored (a Ref named twice in the request, two requested widths '
                     'resolving to one text) is reproduced by the model and counted (answers_with_repeated_text) but is not a '
                     'violation: the statement demands "at most once" for states only'],
        trusted_base=['harness/impl/c20_impl.py', 'harness/world.py (loop-back transport)', 'model evaluated inside Coq with vm_compute'],
        not_modelled=['which of several admissible texts is chosen as "best match" is not part of the property (soundness + '
                      'group coverage only)',
                      'the handlers between filter and wire are the identity in the model: they are covered by the '
                      'correspondence and the oracle of the text_histories stream, not by a theorem',
                      'GetMdDescription with a non-empty handle list (documented simplification: all or nothing) is not part '
                      'of the statement and not checked'])


def replay(ctx, rep):
    """./check C20 --replay <file>: run the recorded case again on the implementation and print what it answers now"""
    import json
    stream, case = rep.get('stream'), rep.get('case')
    print(json.dumps({k: v for k, v in rep.items() if k != 'case'}, indent=1)[:3000])
    if stream == 'text_histories' and case:
        res = ctx.impl('c20_impl', {'worlds': [], 'hist': [case]})
        print('operations:')
        for op in case['ops']:
            print('  ', json.dumps(op)[:300])
        print('answers of the implementation now (one per query, in order):')
        for a in (res.get('hist') or [{}])[0].get('answers', [res]):
            print('  ', json.dumps(a)[:600])
    elif stream == 'texts' and case:
        res = ctx.impl('c20_impl', {'worlds': [], 'texts': [case]})
        print('case:', json.dumps(case)[:1500])
        print('implementation now:', json.dumps(res.get('texts'))[:1500])
    elif stream == 'queries' and case and case.get('query'):
        q = {'mdib': case['mdib'], 'flag': case['flag'], 'queries': [], 'queries2': []}
        q['queries2' if case.get('phase') == 2 else 'queries'].append(case['query'])
        res = ctx.impl('c20_impl', {'worlds': [q]})
        w = (res.get('worlds') or [{}])[0]
        print('query:', json.dumps(case))
        print('implementation now:', json.dumps(w.get('queries2' if case.get('phase') == 2 else 'queries', res))[:2000])
    return 0
