"""C20 - query services return exactly the selected states and texts."""
from lib import coqlit

HEADER = ('From Coq Require Import List ZArith Bool.\nImport ListNotations.\n'
          'From SDC Require Import Common.Corr Query.Model.\nOpen Scope Z_scope.\n'
          'Definition qkey (s : qstate) : Z := 2 * q_handle s + (if q_ctx s then 1 else 0).\n'
          'Definition enc (l : list qstate) : list Z := map qkey (sort_by qkey l).\n')
FILES = ('70041_MDIB_Final.xml', 'mdib_two_mds.xml')


def gen_queries(rng, world, n):
    qs = []
    pools = None
    for _ in range(n):
        kind = rng.choice(['state', 'ctx'])
        qs.append({'kind': kind, 'handles': None})
    return qs


def fill_queries(rng, info, n):
    """handle lists over existing descriptor handles, context state handles, MDS handles, unknown and duplicated ones"""
    dhs = info['all_handles']
    ctx_dhs = sorted({c['dh'] for c in info['cstates']})
    cs = sorted(c['handle'] for c in info['cstates'])
    qs = []
    for _ in range(n):
        kind = rng.choice(['state', 'ctx'])
        k = rng.choice([0, 1, 1, 2, 3, 5])
        hs = []
        for _ in range(k):
            r = rng.random()
            if r < 0.3:
                hs.append(rng.choice(dhs))
            elif r < 0.5 and ctx_dhs:
                hs.append(rng.choice(ctx_dhs))
            elif r < 0.7 and cs:
                hs.append(rng.choice(cs))
            elif r < 0.8:
                hs.append(rng.choice(info['mds']))
            elif r < 0.9:
                hs.append('no_such_handle')
            elif hs:
                hs.append(rng.choice(hs))           # duplicate
        qs.append({'kind': kind, 'handles': hs})
    return qs


def spec(info, q):
    """the BICEPS selection rules evaluated directly on the provider tables (oracle)"""
    flag = info['flag']
    hs = q['handles']
    cst = info['cstates']
    if q['kind'] == 'state':
        if not hs:
            return sorted([[False, s['handle']] for s in info['states']] + ([[True, c['handle']] for c in cst] if flag else []))
        sel = set()
        for h in hs:
            if flag and any(c['handle'] == h for c in cst):
                sel.add((True, h))
            else:
                sel |= {(False, s['handle']) for s in info['states'] if s['dh'] == h}
                if flag:
                    sel |= {(True, c['handle']) for c in cst if c['dh'] == h}
        return sorted([list(x) for x in sel])
    if not hs:
        return sorted([True, c['handle']] for c in cst)
    sel = set()
    for h in hs:
        if any(c['handle'] == h for c in cst):
            sel.add((True, h))
        elif any(c['dh'] == h for c in cst):
            sel |= {(True, c['handle']) for c in cst if c['dh'] == h}
        elif h in info['mds']:
            sel |= {(True, c['handle']) for c in cst if c['mds'] == h}
    return sorted([list(x) for x in sel])


def gen_text_case(rng):
    refs = [f'r{i}' for i in range(rng.randint(1, 3))]
    langs = ['en', 'de', 'fr'][:rng.randint(1, 3)]
    store = []
    for _ in range(rng.randint(0, 8)):
        nl = rng.randint(1, 3)
        store.append({'text': '\n'.join('x' * rng.randint(1, 3) for _ in range(nl)), 'lang': rng.choice(langs),
                      'ref': rng.choice(refs), 'ver': rng.choice([None, 0, 0, 1, 1, 2, 3]),
                      'width': rng.choice([None, 0, 1, 2, 3, 4, 5])})
    f = {'refs': rng.sample(refs + ['zz'], rng.randint(0, 2)) if rng.random() < 0.6 else [],
         'version': rng.choice([None, None, 0, 0, 1, 2, 4]),
         'langs': rng.sample(langs + ['it'], rng.randint(0, 2)) if rng.random() < 0.5 else [],
         'widths': rng.sample(range(6), rng.randint(0, 2)) if rng.random() < 0.5 else [],
         'lines': rng.sample([1, 2, 3], rng.randint(0, 2)) if rng.random() < 0.5 else []}
    return {'store': store, 'filter': f}


def text_oracle(case, ids):
    st, f = case['store'], case['filter']
    vers = [t['ver'] for t in st if t['ver'] is not None]
    eff = f['version'] if f['version'] is not None else (max(vers) if vers else None)
    for i in ids:
        t = st[i]
        nol = len(t['text'].split('\n'))
        if f['refs'] and t['ref'] not in f['refs']:
            return f'text {i} has Ref {t["ref"]} which was not requested'
        if f['langs'] and t['lang'] not in f['langs']:
            return f'text {i} has language {t["lang"]} which was not requested'
        if t['ver'] != eff:
            return f'text {i} has version {t["ver"]} but {eff} was requested / is the latest'
        if f['widths'] and not any((t['width'] if t['width'] is not None else 999) <= w for w in f['widths']):
            return f'text {i} is wider than every requested width'
        if f['lines'] and not any(nol <= n for n in f['lines']):
            return f'text {i} has more lines than every requested number of lines'
    if not any(f[k] for k in ('refs', 'langs', 'widths', 'lines')) and f['version'] is None:
        want = sorted(i for i, t in enumerate(st) if t['ver'] == eff)
        if sorted(ids) != want:
            return f'without constraints the texts of the latest version are {want} but {sorted(ids)} were returned'
    return None


def run(ctx):
    if not ctx.prove():
        ctx.broken('theorem', 'Props/C20.v', ctx.proof_error)
    nq = ctx.n(60, 800)
    # phase 1: learn the tables, phase 2: the queries
    worlds = [{'mdib': f, 'flag': flag, 'queries': []} for f in FILES for flag in (True, False)]
    probe = ctx.impl('c20_impl', {'worlds': worlds}, timeout=600)
    if probe.get('_crash'):
        ctx.broken('correspondence', 'queries: implementation run crashed', probe['stderr'][-800:])
        return ctx.finish('implementation run crashed', [], [])
    for wq, info in zip(worlds, probe['worlds']):
        wq['queries'] = fill_queries(ctx.rng, info, nq)
    res = ctx.impl('c20_impl', {'worlds': worlds}, timeout=900)
    if res.get('_crash'):
        ctx.broken('correspondence', 'queries: implementation run crashed', res['stderr'][-800:])
        return ctx.finish('implementation run crashed', [], [])
    cases, keys, kinds = [], [], {}
    for info in res['worlds']:
        hid = {}

        def h(s, hid=hid):
            if s not in hid:
                hid[s] = len(hid) + 1
            return hid[s]
        for s in info['states'] + info['cstates']:
            h(s['handle']), h(s['dh']), h(s['mds'])
        for m in info['mds'] + info['all_handles']:
            h(m)

        def ql(s):
            return f'mkQ {"true" if s["ctx"] else "false"} {h(s["handle"])} {h(s["dh"])} {h(s["mds"])}'
        mlit = ('(mkQM [' + '; '.join(ql(s) for s in info['states']) + '] [' + '; '.join(ql(s) for s in info['cstates']) +
                '] [' + '; '.join(str(h(m)) for m in info['mds']) + '])')
        name = f'm_{len(kinds)}'
        kinds[name] = mlit
        for qr in info['queries']:
            q = qr['q']
            if 'error' in qr:
                ctx.fail(f'{q["kind"]} query {q["handles"]} failed: {qr["error"]}', {'stream': 'queries', 'clause': 'error'},
                         {'stream': 'queries', 'case': {'mdib': info['mdib'], 'flag': info['flag'], 'query': q}})
                continue
            got = sorted(qr['items'])
            want = spec(info, q)
            if got != want:
                extra = [x for x in got if x not in want or got.count(x) > 1]
                missing = [x for x in want if x not in got]
                ctx.fail(f'{"GetMdState" if q["kind"] == "state" else "GetContextStates"}({q["handles"]}) on {info["mdib"]} '
                         f'(context states in GetMdib: {info["flag"]}): unexpected/duplicated {extra[:4]}, missing {missing[:4]}',
                         {'stream': 'queries', 'kind': q['kind'],
                          'clause': 'duplicate' if len(got) != len({tuple(x) for x in got}) else ('extra' if extra else 'missing')},
                         {'stream': 'queries', 'case': {'mdib': info['mdib'], 'flag': info['flag'], 'query': q},
                          'impl': got[:40], 'spec': want[:40]})
            hl = '[' + '; '.join(str(h(x)) for x in q['handles']) + ']'
            enc = coqlit(sorted(2 * h(x[1]) + (1 if x[0] else 0) for x in qr['items']))
            fn = (f'enc (get_md_state {"true" if info["flag"] else "false"} {name} {hl})' if q['kind'] == 'state'
                  else f'enc (get_context_states {name} {hl})')
            cases.append((fn, enc))
            keys.append((info['mdib'], info['flag'], q['kind'], tuple(q['handles'])))
    header = HEADER + '\n'.join(f'Definition {n} : qmdib := {l}.' for n, l in kinds.items())
    mism, err = ctx.coq_mism('queries', header, 'zl_eqb', 'fun x => x', cases, shard=120, deps=['Query/Model.vo'])
    if err:
        ctx.broken('correspondence', 'queries (coq evaluation)', err[-1200:])
    if mism:
        i = mism[0]
        ctx.broken('correspondence', 'queries: model vs implementation',
                   {'disagreements': len(mism), 'first': keys[i], 'impl': cases[i][1][:500],
                    'model': ctx.coq_eval(header, cases[i][0])[-500:]})
    ctx.count('queries', len(cases), keys, worlds=len(res['worlds']),
              handle_list_lengths={str(k): sum(1 for x in keys if len(x[3]) == k) for k in range(6)})
    ctx.sample({'stream': 'queries', 'query': keys[1] if len(keys) > 1 else None, 'result': cases[1][1] if len(cases) > 1 else None})

    # ---------------------------------------------------------------- localized texts
    tcases = [gen_text_case(ctx.rng) for _ in range(ctx.n(400, 6000))]
    tres = ctx.impl('c20_impl', {'worlds': [], 'texts': tcases}, timeout=600)
    if tres.get('_crash'):
        ctx.broken('correspondence', 'texts: implementation run crashed', tres['stderr'][-800:])
    else:
        lits = []
        hist = {'none': 0, 'widths': 0, 'lines': 0, 'both': 0, 'empty_result': 0, 'error': 0}
        for case, r in zip(tcases, tres['texts']):
            f = case['filter']
            mode = 'both' if f['widths'] and f['lines'] else 'widths' if f['widths'] else 'lines' if f['lines'] else 'none'
            hist[mode] += 1
            if 'error' in r:
                hist['error'] += 1
                ctx.fail(f'filter_localized_texts raised {r["error"]}', {'stream': 'texts', 'clause': 'error', 'mode': mode},
                         {'stream': 'texts', 'case': case})
                continue
            hist['empty_result'] += not r['ids']
            why = text_oracle(case, r['ids'])
            if why:
                ctx.fail(f'GetLocalizedText: {why}', {'stream': 'texts', 'clause': why.split(' which')[0].split(' but')[0][:40], 'mode': mode},
                         {'stream': 'texts', 'case': case, 'impl': r['ids']})
            langs = sorted({t['lang'] for t in case['store']})
            if r['langs'] != langs:
                ctx.fail(f'GetSupportedLanguages returned {r["langs"]} but the stored languages are {langs}',
                         {'stream': 'texts', 'clause': 'languages'}, {'stream': 'texts', 'case': case})
            sid = {s: i + 1 for i, s in enumerate(sorted({t['ref'] for t in case['store']} | set(f['refs'])))}
            lid = {s: i + 1 for i, s in enumerate(sorted({t['lang'] for t in case['store']} | set(f['langs'])))}
            refs_in_order = []
            for t in case['store']:
                if t['ref'] not in refs_in_order:
                    refs_in_order.append(t['ref'])

            def tl(i, t):
                return (f'mkT {i} {sid[t["ref"]]} {lid[t["lang"]]} {"None" if t["ver"] is None else "(Some " + str(t["ver"]) + ")"} '
                        f'{"None" if t["width"] is None else "(Some " + str(t["width"]) + ")"} {len(t["text"].split(chr(10)))}')
            st = '[' + '; '.join(
                f'({sid[r_]}, [' + '; '.join(tl(i, t) for i, t in enumerate(case['store']) if t['ref'] == r_) + '])'
                for r_ in refs_in_order) + ']'
            rank = r.get('both_rank') or {}
            keyf = ('(fun t => match x_id t with ' + ' '.join(f'| {i} => {k}' for i, k in sorted((int(a), b) for a, b in rank.items()))
                    + ' | _ => 0 end)') if rank else '(fun _ => 0)'
            ver = 'None' if f['version'] is None else f'(Some {f["version"]})'
            inp = (f'map x_id (filter_texts {st} {coqlit([sid[x] for x in f["refs"]])} {ver} {coqlit([lid[x] for x in f["langs"]])} '
                   f'{coqlit(list(f["widths"]))} {coqlit(list(f["lines"]))} {keyf})')
            lits.append((inp, coqlit(r['ids'])))
        mism, err = ctx.coq_mism('texts', HEADER, 'zl_eqb', 'fun x => x', lits, shard=150, deps=['Query/Model.vo'])
        if err:
            ctx.broken('correspondence', 'texts (coq evaluation)', err[-1200:])
        if mism:
            i = mism[0]
            ctx.broken('correspondence', 'texts: model vs implementation',
                       {'disagreements': len(mism), 'first_case': tcases[i], 'impl': lits[i][1],
                        'model': ctx.coq_eval(HEADER, lits[i][0])[-300:]})
        ctx.count('texts', len(tcases), [repr(c) for c in tcases], histogram=hist)
        ctx.sample({'stream': 'texts', 'case': tcases[0], 'impl': tres['texts'][0]})
    if ctx.thorough:
        hits = ctx.gate_grep(['Query', 'Common'])
        if hits:
            ctx.broken('theorem', 'grep gate', hits)
        ctx.coqchk('SDC.Props.C20')
    return ctx.finish(
        rule='queries: GetMdState / GetContextStates through the real consumer service clients over the loop-back transport '
             'on the single- and the two-MDS MDIB (context states in every MDS, both settings of contextstates_in_getmdib) '
             'for generated handle lists (descriptor / context-descriptor / context-state / MDS / unknown / duplicated '
             'handles, empty list); result vs the BICEPS rules (oracle) and vs the Coq model; texts: generated stores and '
             'filter combinations through LocalizationStorage.filter_localized_texts / get_supported_languages vs oracle and '
             'model; distinct = distinct queries / (store, filter) pairs',
        assumptions=['results are compared as sorted multisets (the state tables are Python sets)',
                     'the sort key used when BOTH widths and lines are given (a Python string repeated n times) enters the '
                     'model as a rank table computed by Python'],
        trusted_base=['harness/impl/c20_impl.py', 'model evaluated inside Coq with vm_compute'],
        not_modelled=['which of several admissible texts is chosen as "best match" is not part of the property (soundness only)',
                      'the LocalizationService SOAP port type is not offered by the test provider; the storage is driven directly'])
