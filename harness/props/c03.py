"""C03 - transactions are atomic; handed-out data is isolated from the MDIB."""
import mdibcheck
import mdibgen

FILES = ('70041_MDIB_Final.xml', 'mdib_two_mds.xml')


def run(ctx):
    if not ctx.prove():
        ctx.broken('theorem', 'Props/C03.v', ctx.proof_error)

    # ---- stream `atomic`: aborts after each of the k body statements, rejected calls of every kind
    pairs = mdibcheck.run_histories(ctx, 'atomic', ctx.n(60, 700), ctx.n(10, 30), consumer=True,
                                    weights={'state': 3, 'ctx': 2, 'location': 1, 'descr': 3, 'reject': 4, 'abort': 5, 'delstate': 1},
                                    mdib_files=FILES)
    nfail = mdibcheck.judge(ctx, 'atomic', pairs, [mdibgen.oracle_provider], {'C03'})
    mism = mdibcheck.model_correspondence(ctx, 'atomic', pairs, FILES)
    hist = mdibcheck.op_histogram(pairs)
    ctx.count('atomic', len(pairs), [repr(r['trace']) for _, r in pairs], histogram=hist,
              aborted_or_rejected=sum(v for k, v in hist.items() if k.startswith('res=') and k != 'res=ok'))
    if pairs:
        c, r = pairs[0]
        ctx.sample({'stream': 'atomic', 'ops': c['ops'][:3], 'results': [s['res'] for s in r['trace'][:3]]})

    # ---- stream `alias`: every nested path of every handed-out object is written inside an aborted transaction
    inv = mdibcheck.inventory(ctx, FILES[0])
    pool = inv['metric'] + inv['alert'] + inv['comp'] + inv['op'] + inv['rt'] + inv['metric_str']
    k = ctx.n(10, 60)
    handles = ctx.rng.sample(pool, min(k, len(pool)))
    chunks = [handles[i::4] for i in range(4)]
    from concurrent.futures import ThreadPoolExecutor
    with ThreadPoolExecutor(max_workers=4) as ex:
        outs = list(ex.map(lambda hs: ctx.impl('c03_alias_impl', {'handles': hs, 'max_paths': ctx.n(6, 40),
                                                                 'seed': ctx.seed}, timeout=900), chunks))
    res = []
    for o in outs:
        if o.get('_crash'):
            ctx.broken('correspondence', 'alias: implementation run crashed', o['stderr'][-800:])
        else:
            res += o['results']
    written = 0
    for x in res:
        written += bool(x.get('wrote'))
        if x.get('mdib_changed') or 'error' in x:
            what = ('changed the MDIB / an earlier published copy' if x.get('mdib_changed')
                    else 'made the transaction machinery fail: ' + x.get('error', '')[-200:])
            ctx.fail(f'alias: writing {".".join(map(str, x["path"]))} of the object from {x["getter"]}({x["handle"]}) '
                     f'inside an aborted / later transaction {what}',
                     {'stream': 'alias', 'getter': x['getter'].split('(')[0]},
                     {'stream': 'alias', 'case': x})
    ctx.count('alias', len(res), [(x['getter'], x['handle'], tuple(x['path'])) for x in res if x.get('wrote')],
              written=written, getters=sorted({x['getter'] for x in res}))
    if res:
        ctx.sample({'stream': 'alias', 'case': res[0]})

    # ---- stream `commit-failure`: the commit itself fails while the reports are serialised
    cf = ctx.impl('c03_commitfail_impl', {'handles': ctx.rng.sample(inv['metric'], 3)}, timeout=300)
    if cf.get('_crash'):
        ctx.broken('correspondence', 'commit-failure: implementation run crashed', cf['stderr'][-800:])
    else:
        for x in cf['results']:
            if x['raised'] and x['mdib_changed']:
                ctx.fail(f'commit-failure: the commit raised {x["raised"]} while sending the report, but MdibVersion went '
                         f'{x["ver"][0]}->{x["ver"][1]} and the state was changed; no report reached the consumer '
                         f'(consumer at version {x["consumer_ver"]})',
                         {'stream': 'commit-failure', 'clause': 'commit failed but MDIB changed'},
                         {'stream': 'commit-failure', 'case': x})
            elif not x['raised']:
                ctx.broken('correspondence', 'commit-failure', {'expected an exception from report serialisation': x})
        ctx.count('commit-failure', len(cf['results']), [x['handle'] for x in cf['results']])

    if ctx.thorough:
        hits = ctx.gate_grep(['Mdib', 'Common', 'Alias'])
        if hits:
            ctx.broken('theorem', 'grep gate', hits)
        ctx.coqchk('SDC.Props.C03')
    return ctx.finish(
        rule='histories also contain empty transactions of every kind (empty body, get_state + unget_state, every call refused), API calls that are refused and handled inside the body (the refused statement must leave nothing of itself), re-creation of context state handles through add_state, reseq operations that change only the InstanceId, and the same transaction on the same handle set repeated; '
             'atomic: histories with an application exception after each of the k body statements and with every kind of '
             'rejected call (incl. crafted walks: remove h, aborted / rejected re-creation of h, successful re-creation), '
             'full canonical snapshot incl. the remembered versions of removed handles + report log before/after, compared '
             'with the Coq model; alias: every '
             'nested attribute path (scalar members of nested objects, list members) of objects from transaction getters, '
             'descriptor getters, entity getters and transaction results is written inside an aborted or later '
             'transaction and the MDIB / the published copy must not change; commit-failure: serialisation of the report '
             'fails after the tables were updated; distinct = distinct traces / (getter, handle, path) triples',
        assumptions=['payloads are opaque tokens', 'single writer'],
        trusted_base=['harness/mdibrun.py snapshots, harness/mdibmodel.py', 'harness/impl/c03_alias_impl.py (nested path enumeration '
                      'through sorted_container_properties)'],
        not_modelled=['isolation theorems (C03_handed_out_copy_isolated / _stable) are about the object-graph model Alias/ in '
                      'the configuration of the repaired code; that each getter of the library really deep-copies is decided '
                      'by the alias stream per getter, handle and nested path, not by a theorem (the MDIB model\'s values are '
                      'immutable by construction); histories with update_from_other_container are excluded (C12 known finding)',
                      'a commit failing inside report sending is a known finding (no roll-back in the library)'])
