"""C19 - With TLS configured no endpoint is advertised or contacted in plaintext (DESIGN.md section 4, C19).

Streams
  foreign    the provider alone, talked to by a hand-built peer: every peer-supplied address-like field of every request
             varies (schemes incl. mixed case, foreign netlocs, paths); compared with Tls.Model.run_foreign
  world      every core configuration (provider TLS x provider server x consumer mode x consumer sink) - in the
             thorough tier the whole configuration space - with a random history of operations; real provider and
             consumer on the loop-back transport (harness/impl/c19_impl.py); compared with Tls.Model.run_case
  ctxflags   certloader.mk_ssl_contexts(_from_folder) on real key material over its argument space (CA named+present /
             named+missing / not named, password, cyphers file) incl. a socketpair handshake; compared with Tls.Model.run_ctx
  clientcls  SoapClient / SoapClientAsync: ssl_context -> connection kind; compared with Tls.Model.mk_http_connection
The oracle evaluates the property statement directly on the implementation traces.
"""
import itertools
import json
import os
import re
import time
from concurrent.futures import ThreadPoolExecutor

from lib import Raw, coqlit

HEADER = ('From Coq Require Import List ZArith Bool.\nImport ListNotations.\n'
          'From SDC Require Import Tls.Model.\nOpen Scope Z_scope.')

# the model that is compared with the implementation: True = the repaired _start_event_sink
# (fixes/C19_shared_sink_scheme.diff); False = the code as found (C19_MODEL=as-found: only meaningful if the finding
# were accepted as a known finding instead of being repaired; the oracle reports the violation either way)
REPAIRED = os.environ.get('C19_MODEL', 'repaired') != 'as-found'

P_SRV = ['own', 'http', 'https']
C_MODE = ['none', 'optional', 'enforced', 'enforced_noctx']
XK = ['same', 'flip', 'bad']
OPS = ['probe', 'getmdib', 'operate', 'notify', 'renew', 'getstatus', 'cycle']

KINDS = ['xaddr', 'wsd_xaddr', 'base_url', 'probe_xaddr', 'hosted', 'wsdl', 'submgr', 'submgr_end', 'notify_to', 'end_to']
CTX = {None: 0, 'Pclient': 1, 'Pserver': 2, 'Cclient': 3, 'Cserver': 4}
ROLE = {'P': 0, 'C': 1}
HS = {'ok': 0, 'sslerror': 1, 'reset': 2}
START = {'ok': 0, 'SSLError': 1, 'NotConnected': 2, 'ApiUsageError': 3}


# ----------------------------------------------------------------------------- generation
def gen_plain_ops(rng, n):
    ops = []
    for _ in range(n):
        k = rng.choice(OPS)
        ops.append([k, rng.randrange(4)] if k in ('operate', 'notify', 'renew', 'getstatus', 'cycle') else [k])
    return ops


def gen_ops(rng, max_ops, lifecycle):
    """a history; lifecycle: 0 = none, 1 = one life-cycle segment somewhere, 2 = maybe several.
    A segment is restart() or stop_all - [another kind of peer answers at the provider address] - start_all."""
    if not lifecycle:
        return gen_plain_ops(rng, rng.randint(0, max_ops))
    ops = gen_plain_ops(rng, rng.randint(0, max_ops // 2))
    for _ in range(1 if lifecycle == 1 else rng.randint(1, 3)):
        r = rng.random()
        if r < 0.25:
            ops.append(['restart'])
        else:
            ops.append(['stop'])
            if r < 0.75:
                ops.append(['flip'])
            ops.append(['start'] if rng.random() < 0.7 else ['restart'])
        ops += gen_plain_ops(rng, rng.randint(0, max_ops // 3))
    return ops


def gen_cases(ctx):
    rng = ctx.rng
    cases = []
    max_ops = ctx.n(8, 14)
    if ctx.thorough:
        for p_tls, p_srv, p_alt, c_mode, c_srv, c_alt, x in itertools.product(
                [False, True], P_SRV, [False, True], C_MODE, P_SRV, [False, True], XK):
            for rep in range(2 if x != 'bad' and c_mode != 'enforced_noctx' else 1):
                cases.append(dict(p_tls=p_tls, p_srv=p_srv, p_alt=p_alt, c_mode=c_mode, c_srv=c_srv, c_alt=c_alt, x=x,
                                  ops=gen_ops(rng, max_ops, 2 * rep),
                                  shutdown=rng.choice(['provider_first', 'consumer_first'])))
    else:
        for p_tls, p_srv, c_mode, c_srv in itertools.product([False, True], P_SRV, C_MODE, P_SRV):
            for rep in range(2 if c_mode in ('optional', 'enforced') else 1):
                x = rng.choice(['same', 'flip']) if rep else rng.choice(['same', 'same', 'same', 'flip', 'flip', 'flip', 'bad'])
                # consumers with a TLS container: one plain history and one with a life-cycle segment
                lifecycle = rep if c_mode in ('optional', 'enforced') else int(rng.random() < 0.5)
                cases.append(dict(p_tls=p_tls, p_srv=p_srv, p_alt=rng.random() < 0.5, c_mode=c_mode, c_srv=c_srv,
                                  c_alt=rng.random() < 0.5, x=x, ops=gen_ops(rng, max_ops, lifecycle),
                                  shutdown=rng.choice(['provider_first', 'consumer_first'])))
    return cases


# ----------------------------------------------------------------------------- canonical traces
def ev_codes(tr):
    """event codes of one implementation trace (same coding as Tls.Model.code_event)"""
    out = set()
    for a in tr.get('advs', []):
        if a['kind'] == 'to':
            continue
        k = KINDS.index(a['kind']) if a['kind'] in KINDS else 99
        s = {'http': 0, 'https': 1}.get(a['scheme'], 7)
        out.add(100000 + k * 1000 + ROLE.get(a['by'], 7) * 100 + s * 10 + {'ip': 0, 'alt': 1}.get(a['host'], 2))
    for c in tr.get('created', []):
        out.add(200000 + ROLE.get(c['role'], 7) * 100 + CTX.get(c['ctx'], 9) * 10 + (1 if c['host'] == 'alt' else 0))
        if bool(c['tls']) != (c['ctx'] is not None):
            out.add(299999)
    for c in tr.get('connections', []):
        out.add(300000 + ROLE.get(c['role'], 7) * 100 + (10 if c['https'] else 0) + CTX.get(c['ctx'], 9)
                + (0 if c['same_ctx'] else 50))
    for a in tr.get('attempts', []):
        if a['server_tls'] is None:
            out.add(499999)
            continue
        out.add(400000 + ROLE.get(a['role'], 7) * 1000 + (100 if a['tls'] else 0) + (10 if a['server_tls'] else 0)
                + HS[a['outcome']])
    for w in tr.get('wraps', []):
        out.add(500000 + CTX.get(w['ctx'], 9) * 10 + (1 if w['server_side'] else 0))
    return sorted(out)


def insecure(party, tr):
    """the statement [secure party e] evaluated on every event of an implementation trace; list of clauses violated"""
    own_client, own_server = party + 'client', party + 'server'
    bad = []
    for a in tr.get('advs', []):
        if a['by'] == party and a['kind'] != 'to' and a['scheme'] != 'https':
            bad.append(('advertised-' + a['scheme'] + ':' + a['kind'], a['url']))
    for c in tr.get('created', []):
        if c['role'] == party and c['ctx'] != own_client:
            bad.append(('client-created-without-client-context', f"ssl_context={c['ctx']}"))
    for c in tr.get('connections', []):
        if c['role'] == party and not (c['https'] and c['ctx'] == own_client and c['same_ctx']):
            bad.append(('plain-connection-object', json.dumps(c)))
    for a in tr.get('attempts', []):
        if a['role'] == party and not (a['tls'] and (a['outcome'] != 'ok' or a['server_tls'])):
            bad.append(('plaintext-connection-opened', json.dumps(a)))
    for w in tr.get('wraps', []):
        if (w['ctx'] or '?')[0] == party and not (w['ctx'] == own_server and w['server_side']):
            bad.append(('listening-socket-wrapped-with-wrong-context', json.dumps(w)))
    return bad


def statuses(case, tr):
    """[ctor; is_ssl_connection; provider port TLS at the beginning; sink port TLS (2 = not running at the end);
        provider events secure; consumer events secure] ++ outcome of every start attempt"""
    ctor = {'ok': 0, 'ValueError': 1}.get(tr.get('ctor'), 8)
    if ctor != 0:
        return [ctor, 3, int(bool(tr.get('p_listen_tls'))), 2, int(not insecure('P', tr)), 1]
    isc = {None: 0, False: 1, True: 2}[tr.get('isc')]
    cl = tr.get('c_listen_tls') if tr.get('running') else None
    return [0, isc, int(bool(tr.get('p_listen_tls'))), 2 if cl is None else int(bool(cl)),
            int(not insecure('P', tr)), int(not insecure('C', tr))] + [START.get(x, 8) for x in tr.get('starts', [])]


def lit_case(c):
    def srv(s):
        return 'Own' if s == 'own' else ('(Shared Https)' if s == 'https' else '(Shared Http)')
    mode = {'none': 'CNone', 'optional': 'COptional', 'enforced': 'CEnforced', 'enforced_noctx': 'CEnforcedNoCtx'}[c['c_mode']]
    ops = []
    for o in c['ops']:
        ops += {'probe': ['OProbe'], 'getmdib': ['OGetMdib'], 'operate': ['OOperate'], 'notify': ['ONotify'],
                'renew': ['ORenew'], 'getstatus': ['OGetStatus'], 'cycle': ['OUnsubscribe', 'OResubscribe'],
                'stop': ['OStop'], 'start': ['OStart'], 'restart': ['ORestart'], 'flip': ['OPeerFlip']}[o[0]]
    b = coqlit
    return (f'(mkscase {b(REPAIRED)} (mkpconf {b(c["p_tls"])} {srv(c["p_srv"])} {b(c["p_alt"])}) '
            f'(mkcconf {mode} {srv(c["c_srv"])} {b(c["c_alt"])}) '
            f'{ {"same": "XSame", "flip": "XFlip", "bad": "XBad"}[c["x"]]} [{"; ".join(ops)}] '
            f'{b(c["shutdown"] == "provider_first")})')


def zl(xs):
    return '[' + '; '.join(str(x) for x in xs) + ']'


def decode(code):
    k, r = divmod(code, 100000)
    if k == 1:
        kind, r = divmod(r, 1000)
        by, r = divmod(r, 100)
        s, h = divmod(r, 10)
        return f'Adv {KINDS[kind] if kind < len(KINDS) else "other"} by={"PC?"[min(by, 2)]} {"https" if s == 1 else "http" if s == 0 else "?"} host={["ip", "alt", "other-netloc"][min(h, 2)]}'
    if k == 2:
        return f'Create role={"PC"[r // 100 % 2]} ssl_context={CTXNAME.get(r // 10 % 10, "?")} host={"alt" if r % 10 else "ip"}'
    if k == 3:
        return f'Conn role={"PC"[r // 100 % 2]} https={r // 10 % 5} context={CTXNAME.get(r % 10, "?")}{" (not the one passed in)" if r // 10 % 10 >= 5 else ""}'
    if k == 4:
        return f'Attempt role={"PC"[r // 1000 % 2]} client_tls={r // 100 % 10} port_tls={r // 10 % 10} outcome={["ok", "sslerror", "reset"][r % 10] if r % 10 < 3 else "?"}'
    return f'Wrap context={CTXNAME.get(r // 10, "?")} server_side={r % 10}'


CTXNAME = {0: 'None', 1: 'P.client', 2: 'P.server', 3: 'C.client', 4: 'C.server', 9: 'foreign'}


def summary(tr):
    return {'ctor': tr.get('ctor'), 'starts': tr.get('starts'), 'start_msgs': tr.get('start_msgs'), 'isc': tr.get('isc'),
            'phases': tr.get('phases'), 'events': [decode(c) for c in ev_codes(tr)],
            'urls': sorted({(a['kind'], a['by'], a['url']) for a in tr.get('advs', [])})[:40]}


# ----------------------------------------------------------------------------- oracle
def oracle(ctx, case, tr):
    """C19 evaluated directly on one implementation trace"""
    n = 0
    conf = {k: case[k] for k in ('p_tls', 'p_srv', 'p_alt', 'c_mode', 'c_srv', 'c_alt', 'x')}
    parties = []
    if case['p_tls']:
        parties.append(('P', 'provider', case['p_srv']))
    if case['c_mode'] == 'enforced':
        parties.append(('C', 'consumer', case['c_srv']))
    for party, name, srv in parties:
        bad = insecure(party, tr)
        if party == 'P' and case['p_srv'] == 'own' and not tr.get('p_listen_tls'):
            bad.append(('own-server-not-tls', 'listening socket of the provider not wrapped'))
        if party == 'C' and case['c_srv'] == 'own' and tr.get('running') and not tr.get('c_listen_tls'):
            bad.append(('own-server-not-tls', 'listening socket of the event sink not wrapped'))
        for clause in sorted({b[0] for b in bad}):
            ex = [b[1] for b in bad if b[0] == clause][:3]
            n += 1
            ctx.fail(f'{name} configured with TLS{" (enforced)" if party == "C" else ""}: {clause}; e.g. {ex[0]} '
                     f'[configuration {conf}]',
                     {'stream': 'world', 'party': name, 'clause': clause, 'server': srv},
                     {'stream': 'world', 'case': case, 'impl_trace': summary(tr),
                      'oracle': {'verdict': 'fail', 'clause': clause, 'examples': ex}})
    return n


def oracle_ctx(case, res):
    """the caller NAMED a CA file (present or not): the call raised, or both contexts require and verify the peer
    certificate and a TLS client without certificate is turned away"""
    if case['loader'] == 'defaults' or case['ca'] == 'none':
        return None
    named = 'a CA file that exists' if case['ca'] == 'given' else 'a NAMED CA file that does not exist'
    if res.get('status') != 'ok':
        if case['ca'] == 'given' and case['passwd'] != 'wrong' and case['cyphers'] != 'missing':
            return f'contexts could not be built from {named}: {res.get("status")}'
        return None                                     # the call raised: nothing was built
    for side in ('client', 'server'):
        f = res[side]
        if f['verify'] != 'required':
            return f'{side} context built from {named} has verify_mode {f["verify"]}'
        if f['n_ca'] < 1:
            return f'{side} context built from {named} has no CA certificate loaded'
        if f['protocol'] != side:
            return f'{side} context has protocol {f["protocol"]}'
    if res.get('anonymous_client') != 'rejected':
        return f'server context built from {named} lets a TLS client without certificate in'
    if case['ca'] == 'given' and res.get('own_client') != 'accepted':
        return 'client and server context built from the same CA file cannot complete a handshake'
    if not res['distinct']:
        return 'client and server context are the same object'
    return None


# ----------------------------------------------------------------------------- stream foreign
F_SCHEMES = ['http', 'http', 'https', 'HtTp', 'HTTPS', 'Http']
F_NETLOCS = ['self', 'alt', 'other_ip', 'other_name']


def gen_faddr(rng, service_bias=0.7, allow_anonymous=False):
    r = rng.random()
    if r < 0.08:
        return None
    if r < 0.14:
        return rng.choice(['urn', 'na'] + (['anonymous'] if allow_anonymous else []))
    pk = 'service' if rng.random() < service_bias else rng.choice(['other', 'slash'])
    return [rng.choice(F_SCHEMES), rng.choice(F_NETLOCS), pk]


def gen_pf(rng):
    return {'to': gen_faddr(rng), 'reply_to': gen_faddr(rng, 0.3, True) if rng.random() < 0.6 else None,
            'from': gen_faddr(rng, 0.3) if rng.random() < 0.5 else None,
            'host': rng.choice(['self', 'self', 'alt', 'other_ip', 'other_name']),
            'path': rng.choice(['plain'] * 7 + ['slash', 'absolute_http', 'absolute_https'])}


def gen_foreign(ctx):
    """a hand-built peer (not the library consumer) talks to the provider; every peer-supplied address-like field of
    every request varies over schemes (also mixed case), own / alternative / foreign netlocs, matching / other paths"""
    rng = ctx.rng
    cases = []
    for rep in range(ctx.n(3, 12)):
        for p_tls, p_srv, sink_tls in itertools.product([False, True], P_SRV, [False, True]):
            fields = {k: gen_pf(rng) for k in ('get', 'hosted_md', 'probe', 'subscribe', 'getstatus', 'renew', 'unsubscribe')}
            sub = fields['subscribe']
            if rng.random() < 0.8:
                sub['path'] = rng.choice(['plain', 'plain', 'slash'])       # mostly a Subscribe that is dispatched
            sub['notify_to'] = [rng.choice(F_SCHEMES), 'sink', 'service']
            sub['end_to'] = [rng.choice(F_SCHEMES), 'sink', 'service'] if rng.random() < 0.7 else None
            sub['refparam'] = [rng.choice(F_SCHEMES), rng.choice(F_NETLOCS + ['sink']), 'other'] if rng.random() < 0.5 else None
            cases.append(dict(p_tls=p_tls, p_srv=p_srv, p_alt=rng.random() < 0.5, sink_tls=sink_tls,
                              sink_alt=rng.random() < 0.5, end=rng.choice(['shutdown', 'unsubscribe']), fields=fields))
    return cases


def lit_faddr(spec, sink_alt):
    if not isinstance(spec, list):
        return 'None'
    host = {'self': 'HIp', 'alt': 'HAlt', 'other_ip': 'HOther', 'other_name': 'HOther',
            'sink': 'HAlt' if sink_alt else 'HIp'}[spec[1]]
    return f'(Some (mkaddr {"Https" if spec[0].lower() == "https" else "Http"} {host}))'


def lit_pf(f, sink_alt):
    to = f.get('to')
    is_service = isinstance(to, list) and to[2] in ('service', 'slash')
    host = {'self': 'HIp', 'alt': 'HAlt'}.get(f.get('host', 'self'), 'HOther')
    return (f'(mkpeerf {lit_faddr(to, sink_alt)} {coqlit(is_service)} {lit_faddr(f.get("reply_to"), sink_alt)} '
            f'{lit_faddr(f.get("from"), sink_alt)} {host} {lit_faddr(f.get("refparam"), sink_alt)})')


def lit_fcase(c, tr):
    """the model's inputs: the requests that the provider answered (HTTP 200), with their peer-chosen fields"""
    st = tr.get('statuses', {})
    sa = c['sink_alt']
    F = c['fields']

    def opt(k):
        return f'(Some {lit_pf(F[k], sa)})' if st.get(k) == 200 else 'None'
    srv = 'Own' if c['p_srv'] == 'own' else ('(Shared Https)' if c['p_srv'] == 'https' else '(Shared Http)')
    sub = 'None'
    if tr.get('subscribed'):
        s_ = F['subscribe']
        end_to = lit_faddr(s_.get('end_to'), sa)
        sub = f'(Some ({lit_pf(s_, sa)}, {lit_faddr(s_["notify_to"], sa)[6:-1]}, {end_to}))'
    later = [lit_pf(F[k], sa) for k in ('getstatus', 'renew', 'unsubscribe') if st.get(k) == 200]
    alive = bool(tr.get('subscribed')) and st.get('unsubscribe') != 200
    return (f'(mkfcase (mkpconf {coqlit(c["p_tls"])} {srv} {coqlit(c["p_alt"])}) {coqlit(c["sink_tls"])} '
            f'{opt("get")} {opt("hosted_md")} {opt("probe")} {sub} [{"; ".join(later)}] {coqlit(alive)})')


def oracle_foreign(ctx, case, tr):
    if not case['p_tls']:
        return 0
    bad = insecure('P', tr)
    if case['p_srv'] == 'own' and not tr.get('p_listen_tls'):
        bad.append(('own-server-not-tls', 'listening socket of the provider not wrapped'))
    conf = {k: case[k] for k in ('p_tls', 'p_srv', 'p_alt', 'sink_tls', 'sink_alt', 'end')}
    for clause in sorted({b[0] for b in bad}):
        ex = [b[1] for b in bad if b[0] == clause][:3]
        ctx.fail(f'provider configured with TLS, foreign peer: {clause}; e.g. {ex[0]} [configuration {conf}; '
                 f'peer-chosen fields of the Subscribe: {case["fields"]["subscribe"]}]',
                 {'stream': 'foreign', 'party': 'provider', 'clause': clause, 'server': case['p_srv']},
                 {'stream': 'foreign', 'case': case, 'impl_trace': dict(summary(tr), statuses=tr.get('statuses')),
                  'oracle': {'verdict': 'fail', 'clause': clause, 'examples': ex}})
    return len(bad)


# ----------------------------------------------------------------------------- run
def run_world(ctx, cases, workers=6, stream='world'):
    shards = [cases[i::workers] for i in range(workers)]
    with ThreadPoolExecutor(max_workers=workers) as ex:
        res = list(ex.map(lambda sh: ctx.impl('c19_impl', {'stream': stream, 'cases': sh}, timeout=1500) if sh else
                          {'traces': []}, shards))
    traces = [None] * len(cases)
    for k, r in enumerate(res):
        if r.get('_crash'):
            return None, r.get('stderr')
        for j, tr in enumerate(r['traces']):
            traces[k + j * workers] = tr
    return traces, None


def run(ctx):
    if not ctx.prove():
        ctx.broken('theorem', 'Props/C19.v', ctx.proof_error)

    # ------------------------------------------------------------ stream world
    cases = gen_cases(ctx)
    t0 = time.time()
    traces, err = run_world(ctx, cases)
    ctx.log(f'world: {len(cases)} cases on the implementation in {time.time() - t0:.1f}s')
    if err:
        ctx.broken('correspondence', 'world (implementation run crashed)', err)
        return ctx.finish('implementation run crashed', [], [])
    pairs, keys = [], []
    hist = {'start': {}, 'later_starts': {}, 'ops': {}, 'actions': {}, 'urls_by_kind': {}, 'clients_created': 0, 'exchanges': 0,
            'malformed_urls': {}, 'configs': 0, 'oracle_applicable': {'provider': 0, 'consumer_enforced': 0}}
    n_viol = 0
    crashed = []
    for c, tr in zip(cases, traces):
        if tr is None or 'crash' in tr or tr.get('p_start') != 'ok':
            crashed.append((c, tr))
            continue
        n_viol += oracle(ctx, c, tr)
        st = statuses(c, tr)
        codes = ev_codes(tr)
        pairs.append((lit_case(c), f'({zl(st)}, {zl(codes)})'))
        keys.append((tuple(st), tuple(codes)))
        hist['start'][str(tr.get('start', tr.get('ctor')))] = hist['start'].get(str(tr.get('start', tr.get('ctor'))), 0) + 1
        for o in c['ops']:
            hist['ops'][o[0]] = hist['ops'].get(o[0], 0) + 1
        for x in tr.get('starts', [])[1:]:
            hist['later_starts'][x] = hist['later_starts'].get(x, 0) + 1
        for k, v in tr.get('actions', {}).items():
            hist['actions'][k] = hist['actions'].get(k, 0) + v
        for a in tr['advs']:
            hist['urls_by_kind'][a['kind']] = hist['urls_by_kind'].get(a['kind'], 0) + 1
            if not a['wf']:
                hist['malformed_urls'][a['kind']] = hist['malformed_urls'].get(a['kind'], 0) + 1
        hist['clients_created'] += len(tr['created'])
        hist['exchanges'] += tr.get('n_exchanges', 0)
        hist['oracle_applicable']['provider'] += int(c['p_tls'])
        hist['oracle_applicable']['consumer_enforced'] += int(c['c_mode'] == 'enforced')
    hist['configs'] = len({tuple(sorted((k, str(v)) for k, v in c.items() if k not in ('ops', 'shutdown'))) for c in cases})
    if crashed:
        c, tr = crashed[0]
        ctx.broken('correspondence', 'world (harness could not run a case)',
                   {'cases': len(crashed), 'first': c, 'trace': tr})
    streams = [('world', [(f'(AWorld {x})', y) for x, y in pairs])]
    ctx.count('world', len(pairs), keys, **hist)
    if pairs:
        i = next((k for k, c in enumerate(cases) if c['c_mode'] == 'enforced' and c['p_tls'] and c['ops']), 0)
        ctx.sample({'stream': 'world', 'case': cases[i], 'impl': summary(traces[i])})

    # ------------------------------------------------------------ stream foreign
    fcases = gen_foreign(ctx)
    t0 = time.time()
    ftraces, err = run_world(ctx, fcases, stream='foreign')
    ctx.log(f'foreign: {len(fcases)} cases on the implementation in {time.time() - t0:.1f}s')
    if err:
        ctx.broken('correspondence', 'foreign (implementation run crashed)', err)
        ftraces = []
    fpairs, fkeys, fok = [], [], []
    fh = {'http_status': {}, 'subscribed': 0, 'notifications_received_by_peer_sink': 0, 'urls_by_kind': {},
          'peer_field_variants': {}, 'oracle_applicable': 0}
    for c, tr in zip(fcases, ftraces):
        if tr is None or 'crash' in tr or tr.get('p_start') != 'ok':
            ctx.broken('correspondence', 'foreign (harness could not run a case)', {'first': c, 'trace': tr})
            break
        oracle_foreign(ctx, c, tr)
        st = [int(bool(tr.get('p_listen_tls'))), int(not insecure('P', tr))]
        codes = ev_codes(tr)
        fpairs.append((f'(AForeign {lit_fcase(c, tr)})', f'({zl(st)}, {zl(codes)})'))
        fkeys.append((tuple(st), tuple(codes), json.dumps(c['fields'], sort_keys=True)))
        fok.append((c, tr))
        for k, v in tr.get('statuses', {}).items():
            fh['http_status'][f'{k}:{v}'] = fh['http_status'].get(f'{k}:{v}', 0) + 1
        fh['subscribed'] += int(bool(tr.get('subscribed')))
        fh['notifications_received_by_peer_sink'] += tr.get('sink_received_total', 0)
        fh['oracle_applicable'] += int(c['p_tls'])
        for a in tr['advs']:
            fh['urls_by_kind'][a['kind']] = fh['urls_by_kind'].get(a['kind'], 0) + 1
        for f in c['fields'].values():
            for k in ('to', 'reply_to', 'from', 'notify_to', 'end_to', 'refparam'):
                v = f.get(k)
                key = f'{k}:' + (':'.join(v[:2]).lower() if isinstance(v, list) else str(v))
                fh['peer_field_variants'][key] = fh['peer_field_variants'].get(key, 0) + 1
            for k in ('host', 'path'):
                key = f'{k}:{f.get(k)}'
                fh['peer_field_variants'][key] = fh['peer_field_variants'].get(key, 0) + 1
    streams.append(('foreign', fpairs))
    ctx.count('foreign', len(fpairs), fkeys, **fh)
    if fok:
        ctx.sample({'stream': 'foreign', 'case': fok[0][0], 'impl': dict(summary(fok[0][1]), statuses=fok[0][1].get('statuses'))})

    # ------------------------------------------------------------ stream ctxflags
    ccases = [{'loader': 'defaults'}] + [
        {'loader': ld, 'ca': ca, 'cyphers': cy, 'passwd': pw}
        for ld in ('folder', 'direct') for ca in ('none', 'given', 'missing')
        for cy in (('none', 'given', 'missing') if ld == 'folder' else ('none', 'given'))
        for pw in ('right', 'wrong', 'absent')]
    r = ctx.impl('c19_impl', {'stream': 'ctxflags', 'cases': ccases})
    ctx_results = r.get('results', [])
    if r.get('_crash'):
        ctx.broken('correspondence', 'ctxflags', r.get('stderr'))
    else:
        cp = []
        for c, res in zip(ccases, r['results']):
            why = oracle_ctx(c, res)
            if why:
                ctx.fail(why + f' [{c}]', {'stream': 'ctxflags', 'clause': why.split(' has ')[-1][:40]},
                         {'stream': 'ctxflags', 'case': c, 'impl_trace': res, 'oracle': {'verdict': 'fail', 'clause': why}})
            if res.get('status') == 'ok':
                vm = {'none': 0, 'optional': 1, 'required': 2}
                exp = [0] + [x for side in ('client', 'server') for x in (
                    int(res[side]['protocol'] == 'client'), vm[res[side]['verify']], int(res[side]['check_hostname']),
                    int(res[side]['n_ca'] > 0))]
                if c['loader'] != 'defaults':
                    exp.append({'accepted': 1, 'rejected': 0}.get(res.get('anonymous_client'), 8))
                if not res['distinct'] or res.get('own_client', 'accepted') != 'accepted':
                    exp[0] = 7
            else:
                exp = [{'FileNotFoundError': 1, 'SSLError': 2}.get(res.get('status'), 8)]
            if c['loader'] == 'defaults':
                cp.append(('ADefaults', zl(exp)))
            else:
                ca = {'none': 'CaNone', 'given': 'CaGiven', 'missing': 'CaMissing'}[c['ca']]
                cy = {'none': 'CyNone', 'given': 'CyGiven', 'missing': 'CyMissing'}[c['cyphers']]
                cp.append((f'(ACtx {ca} {cy} {coqlit(c["passwd"] != "wrong")})', zl(exp)))
        streams.append(('ctxflags', [(x, f'({y}, [])') for x, y in cp]))
        ctx.count('ctxflags', len(cp), [b for _, b in cp], exhaustive=True,
                  tls_floor={'min_tls12': all(x.get('client', {}).get('min_tls12', True) for x in r['results']),
                             'no_sslv3': all(x.get('client', {}).get('no_sslv3', True) for x in r['results'])})
        ctx.sample({'stream': 'ctxflags', 'case': ccases[3], 'impl': r['results'][3]})

    # ------------------------------------------------------------ stream clientcls
    kcases = [{'cls': cl, 'ctx': cx} for cl in ('sync', 'async') for cx in ('none', 'client', 'server')]
    r = ctx.impl('c19_impl', {'stream': 'clientcls', 'cases': kcases})
    cls_results = r.get('results', [])
    if r.get('_crash'):
        ctx.broken('correspondence', 'clientcls', r.get('stderr'))
    else:
        kp = []
        for c, res in zip(kcases, r['results']):
            want_https = c['ctx'] != 'none'
            if res['https'] != want_https or not res['same_ctx']:
                ctx.fail(f'{c["cls"]} SOAP client built with ssl_context={c["ctx"]} opens '
                         f'{"https" if res["https"] else "http"} (context passed on: {res["same_ctx"]})',
                         {'stream': 'clientcls', 'cls': c['cls'], 'clause': 'connection-kind'},
                         {'stream': 'clientcls', 'case': c, 'impl_trace': res})
            cx = {'none': 'None', 'client': '(Some PClient)', 'server': '(Some PServer)'}[c['ctx']]
            code = 300000 + (10 if res['https'] else 0) + {'none': 0, 'client': 1, 'server': 2}[c['ctx']] + (0 if res['same_ctx'] else 50)
            kp.append((cx, str(code)))
        streams.append(('clientcls', [(f'(AClient {x})', f'([{y}], [])') for x, y in kp]))
        ctx.count('clientcls', len(kp), [(c['cls'], c['ctx']) for c in kcases], exhaustive=True)

    # ------------------------------------------------------------ model side: one Coq evaluation for all streams
    t0 = time.time()
    flat = [(name, i, a, b) for name, prs in streams for i, (a, b) in enumerate(prs)]
    mism, err = ctx.coq_mism('all', HEADER, 'trace_eqb', 'run_any', [(a, b) for _, _, a, b in flat], deps=['Tls/Model.vo'])
    ctx.log(f'model evaluated on {len(flat)} cases in {time.time() - t0:.1f}s, {len(mism)} disagreements')
    if err:
        ctx.broken('correspondence', 'coq evaluation', err)
    by_stream = {}
    for m in mism:
        by_stream.setdefault(flat[m][0], []).append(flat[m][1])
    if 'world' in by_stream:
        ok_cases = [(c, tr) for c, tr in zip(cases, traces) if not any(c is cc for cc, _ in crashed)]
        c, tr = ok_cases[by_stream['world'][0]]
        model = ctx.coq_eval(HEADER, f'run_case {lit_case(c)}')
        ctx.broken('correspondence', 'world',
                   {'disagreements': len(by_stream['world']), 'first_case': c,
                    'impl': {'statuses': statuses(c, tr), 'events': [decode(x) for x in ev_codes(tr)],
                             'start_msgs': tr.get('start_msgs')},
                    'model': model[-1800:]})
    if 'foreign' in by_stream:
        c, tr = fok[by_stream['foreign'][0]]
        model = ctx.coq_eval(HEADER, f'run_foreign {lit_fcase(c, tr)}')
        ctx.broken('correspondence', 'foreign',
                   {'disagreements': len(by_stream['foreign']), 'first_case': c,
                    'impl': {'statuses': tr.get('statuses'), 'events': [decode(x) for x in ev_codes(tr)]},
                    'model': model[-1500:]})
    if 'ctxflags' in by_stream:
        i = by_stream['ctxflags'][0]
        ctx.broken('correspondence', 'ctxflags', {'disagreements': len(by_stream['ctxflags']), 'first_case': ccases[i],
                                                  'impl': ctx_results[i]})
    if 'clientcls' in by_stream:
        i = by_stream['clientcls'][0]
        ctx.broken('correspondence', 'clientcls', {'first_case': kcases[i], 'impl': cls_results[i]})

    if ctx.thorough:
        hits = ctx.gate_grep(['Tls', 'Common'])
        if hits:
            ctx.broken('theorem', 'grep gate', hits)
        if not ctx.coqchk('SDC.Props.C19'):
            ctx.broken('theorem', 'coqchk', ctx.cov.get('coqchk'))
    return ctx.finish(
        rule='world: one real provider + one real consumer per configuration (quick: all 72 combinations of provider '
             'TLS x provider server (own/shared http/shared https) x consumer mode (none/optional/enforced/enforced '
             'without container) x consumer sink server, alternative host names, device-address variant and history '
             'drawn at random; thorough: the full product of 864 configurations, the 432 that reach start_all twice) driven through start-up, a random list of '
             'probe/getmdib/operate/notify/renew/getstatus/unsubscribe+subscribe, consumer life-cycle segments (restart(), or '
             'stop_all - optionally another kind of peer (TLS <-> plaintext) answers at the provider address - start_all / '
             'restart(); every consumer with a TLS container gets at least one such history per core configuration) and one of '
             'two shutdown orders; the outcome of every start attempt and the set '
             'of events (addresses by carrying element, SOAP clients by ssl_context argument, connection objects, '
             'connection attempts, wrap_socket calls) and the final is_ssl_connection are compared with Tls.Model.run_case; '
             'distinct = distinct (statuses, event set). foreign: the real provider (TLS x own/shared http/shared https server x '
             'alternative host name) driven by a hand-built peer instead of the library consumer: TransferGet, GetMetadata, Probe, '
             'Subscribe, GetStatus, Renew, a report, Unsubscribe or provider shutdown; every peer-supplied address-like field of every '
             'request (wsa:To, wsa:ReplyTo, wsa:From, NotifyTo, EndTo, an URL in reference parameters, the Host header, the request '
             'target: plain / trailing slash / absolute-form) varies over http / https / mixed-case schemes, own / alternative / '
             'foreign netlocs and matching / other paths; every URL in every response, notification and SubscriptionEnd is judged; the '
             'model gets the requests that were carried out (HTTP 200, no fault) with their peer fields (Tls.Model.run_foreign = prun). '
             'ctxflags: the real certloader functions on real key material in a temp folder, exhaustive over loader (folder / direct) x CA '
             'file (not named / named and present / named but missing) x password (right / wrong / not needed) x cyphers (none / '
             'file present / file missing); flags read back, plus a TLS handshake over a socketpair of a client without certificate '
             '(and of the pair itself) against every returned server context; oracle: a named CA file gives an exception or two '
             'verifying contexts that turn the anonymous client away. clientcls: exhaustive.',
        assumptions=['the TLS handshake is abstracted: a TLS client meeting a plaintext port gets ssl.SSLError on connect, a '
                     'plaintext client meeting a TLS port has its first request reset (matches the behaviour pinned by '
                     'tests/test_client_device.py TestEncryptionCombinations)',
                     'an application-supplied shared HTTP server is TLS exactly when its base_url says https',
                     'the subscription managers\' 1 s polling loops do not run during a scenario (time.sleep rebound)',
                     'a stopped consumer is not used by the application until it is started again; the kind of the peer at the '
                     'provider address changes only while the consumer is stopped'],
        trusted_base=['correspondence harness harness/impl/c19_impl.py on harness/world.py: replaces the TCP connection '
                      '(after asking the real SoapClient._mk_http_connection what it would open), socketserver\'s TCP server '
                      'inside httpserverimpl (HttpServerThreadBase.run stays real) and wraps the SSLContext objects in '
                      'recorders', 'URL scraper: classification of addresses by XPath of the carrying element, catch-all for '
                      'any other element naming a transport address of the two parties',
                      'Python ssl module defaults for PROTOCOL_TLS_CLIENT / PROTOCOL_TLS_SERVER (read back in stream ctxflags)'],
        not_modelled=['the TLS handshake, certificate chain validation and cipher negotiation (Python ssl module / OpenSSL)',
                      'SoapClientAsync request path (only its choice of connector / scheme is compared)',
                      'WS-Discovery multicast (the x_addrs handed to the discovery object are compared)',
                      'incoming plaintext requests on an application-supplied plaintext shared server of a TLS provider '
                      '(the provider advertises https for it; the port itself is outside the library)'])


def replay(ctx, rep):
    case = rep.get('case')
    if rep.get('stream') != 'world' or not case:
        print(json.dumps(rep, indent=1)[:6000])
        return 0
    r = ctx.impl('c19_impl', {'stream': 'world', 'cases': [case]})
    tr = r['traces'][0] if not r.get('_crash') else {'crash': r.get('stderr')}
    print('case:', json.dumps(case))
    print('implementation statuses:', statuses(case, tr) if 'crash' not in tr else tr)
    for e in ev_codes(tr):
        print('  impl ', decode(e))
    out = ctx.coq_eval(HEADER, f'run_case {lit_case(case)}')
    lists = re.findall(r'\[([^\[\]]*)\]', out)
    if len(lists) >= 2:
        print('model statuses:         ', [int(x) for x in lists[0].replace(';', ' ').split()])
        for e in sorted({int(x) for x in lists[1].replace(';', ' ').split()}):
            print('  model', decode(e))
    else:
        print('model:', out[-2500:])
    for party in ('P', 'C'):
        print('insecure events of', party, ':', insecure(party, tr))
    return 0
