"""C12 - instances never share mutable state or alter the defaults of later instances (DESIGN.md section 4, C12).

Stream `alias-types`: histories of construct / parse (defaulted members absent) / mk_copy / deepcopy /
update_from_other_container / nested attribute writes on the real classes that have (or contain) a member with a
mutable class-level default.  After every operation
  * the ORACLE judges the implementation trace directly: no class default of the library changed, cls() still has
    the value recorded at the start, no instance other than the target of the operation changed, and no mutable
    object is reachable from two roots (instance/instance or default/instance) - except between the two
    instances of an update_from_other_container, which the statement's quantifier does not cover;
  * the sharing graph (id() of every reachable nested mutable object, numbered in order of first visit) is
    compared with the one computed by the Coq model Alias.Model.run_case (vm_compute).
The histories contain IN-PLACE list operations (append / pop / clear: model OMut) and a constructor that stores the
object of a mutable default argument is described to the model as XArg (the repaired configuration says: never).

Streams `alias-ctor`, `alias-sep`, `alias-mdib` (harness/impl/c12b_impl.py) judge object identity directly, for
EVERY class of xml_types / containers (no model needed, so they also see what the model abstracts away: lxml
elements, the observable `node`, attributes outside _props):
  * alias-ctor: all instances obtained through __init__ (no argument / each optional argument / subsets / with
    descriptor / from_node of the own serialisation, with and without child elements / factories) stay alive in one
    registry id(object) -> owner; a mutable object reachable from two roots (instances, class defaults,
    default-argument objects of functions) is a finding; every reachable mutable object of an instance is then
    mutated in place and after each single mutation all other live instances, newly constructed ones and all class
    defaults must have kept their value; at the end cls() of every class equals its value at process start;
  * alias-sep: b = op(a) for mk_copy / mk_copy(copy_node) / deepcopy / copy.copy (top level only) / from_node
    (same document twice, two documents) / update_from_node / update_from_other_container on populated instances:
    no mutable object in common at any depth (path reported), in-place mutation of either side invisible in
    the other;
  * "reachable from an instance" means: declared members, every other entry of __dict__, __slots__, python
    properties and whatever the zero-argument public getters (get_retrievability(), ...; methods whose name says
    they change something are not called) and get_actual_value(name) hand out - a memo behind a getter is state of
    the instance; alias-sep repeats every operation with the getters of the source called BEFORE the operation;
  * alias-mdib: working copies of the transaction getters (get_descriptor / get_state / get_context_state),
    entity getters and entity.update() of a ProviderMdib against the containers inside the mdib, also for
    entities that are OLDER than the mdib (context states added / changed / removed, single states changed since);
  * alias-tables: the containers INSIDE a set-up mdib, for every MDIB file of tests/: after ProviderMdib.from_mdib_file /
    from_string (two mdibs from the same bytes too), after each xtra set-up method, set_location and context state
    transactions, after SdcProvider.start_all with the tutorial role providers, the ConsumerMdib after init_mdib and
    after reports: no mutable object reachable from two different containers of descriptions / states /
    context_states; in-place mutation of one container leaves the value of all the others unchanged."""
import json

from lib import Raw, coqlit  # noqa: F401

HEADER = ('From Coq Require Import List ZArith Bool.\nImport ListNotations.\n'
          'From SDC Require Import Alias.Model.\nOpen Scope Z_scope.')


# --------------------------------------------------------------------------- generation
def is_container(key):
    return key.startswith(('statecontainers.', 'descriptorcontainers.'))


def gen_case(rng, direct, carriers, max_ops, n):
    conts = [k for k in direct + carriers if is_container(k)]
    if n % 3 == 2 and conts:
        cls = conts[(n // 3) % len(conts)]          # containers have mk_copy / update_from_other_container
    elif carriers and rng.random() < 0.2:
        cls = rng.choice(carriers)
    else:
        cls = direct[n % len(direct)]
    cont = is_container(cls)
    ops = [['parse', rng.choice([100, 100, 60]), 0, 0] if rng.random() < 0.6 else ['new', 0, 0, 0]]
    for _ in range(rng.randint(2, max_ops)):
        r = rng.random()
        a, b = rng.randrange(1000), rng.randrange(1000)
        if r < 0.10:
            ops.append(['new', 0, 0, 0])
        elif r < 0.28:
            ops.append(['parse', rng.choice([100, 100, 60, 0]), 0, 0])
        elif r < 0.43:
            ops.append(['copy', a, 0, 0])
        elif r < 0.50:
            ops.append(['deepcopy', a, 0, 0])
        elif r < 0.62 and cont:
            ops.append(['update', a, b, 0])
        elif r < 0.80:
            ops.append(['mutate', a, b, rng.choice([0, 0, 0, 1, 2])])
        else:
            ops.append(['write', a, b, 1 if rng.random() < 0.85 else 0])
    return {'cls': cls, 'seed': rng.randrange(1 << 30), 'ops': ops}


# --------------------------------------------------------------------------- literals
def lit_tree(t):
    if isinstance(t, int):
        return f'TImm {t}'
    return 'TNode [' + '; '.join(lit_tree(x) for x in t) + ']'


def lit_x(x):
    if x[0] == 'I':
        return f'XImm {x[1]}'
    if x[0] == 'D':
        return f'XDefault {x[1]}%nat'
    if x[0] == 'A':
        return f'XArg {x[1]}%nat'
    return 'XNode [' + '; '.join(lit_x(y) for y in x[1]) + ']'


def lit_op(o):
    k = o[0]
    if k == 'new':
        return 'ONew [' + '; '.join(lit_x(x) for x in o[1]) + ']'
    if k == 'parse':
        return 'OParse [' + '; '.join(lit_x(x) for x in o[1]) + ']'
    if k == 'copy':
        return f'OCopy {o[1]}%nat'
    if k == 'deepcopy':
        return f'ODeepCopy {o[1]}%nat'
    if k == 'update':
        return f'OUpdate {o[1]}%nat {o[2]}%nat [' + '; '.join('None' if z is None else f'Some {z}' for z in o[3]) + ']'
    if k == 'write':
        return f'OWrite {o[1]}%nat [' + '; '.join(f'{i}%nat' for i in o[2]) + f'] {o[3]}%nat {o[4]}'
    if k == 'mutate':
        m = {'append': f'(MAppend {o[4]})', 'pop': 'MPop', 'clear': 'MClear'}[o[3]]
        return f'OMut {o[1]}%nat [' + '; '.join(f'{i}%nat' for i in o[2]) + f'] {m}'
    raise ValueError(k)


def lit_case(tr):
    ops = [o for o in tr['ops'] if o[0] != 'skip']
    return '([' + '; '.join(lit_tree(t) for t in tr['defaults']) + '], [' + '; '.join(lit_op(o) for o in ops) + '])'


def lit_obs(tr):
    return '[' + '; '.join('[' + '; '.join(str(t) for t in o) + ']' for o in tr['obs']) + ']'


# --------------------------------------------------------------------------- oracle
def oracle(tr):
    """C12 evaluated directly on the implementation trace.  Returns [(step, clause, via, detail)]."""
    out = []
    ops = [o for o in tr['ops'] if o[0] != 'skip']
    origin = tr['origin']
    link = list(range(len(origin) + 1))      # union-find over instances joined by update_from_other_container

    def find(x):
        while link[x] != x:
            x = link[x]
        return x

    for i, op in enumerate(ops, start=1):
        if op[0] == 'update':
            link[find(op[1])] = find(op[2])
        target = op[1] if op[0] in ('write', 'update', 'mutate') else None
        via = origin[target] if target is not None else op[0]
        if tr['dflt'][i] != tr['dflt'][i - 1]:
            out.append((i, 'class default changed', via, 'a _default_py_value of the library changed its value'))
        if tr['fresh'][i] != tr['fresh'][i - 1]:
            out.append((i, 'fresh instance differs', via, 'cls() no longer has the value it had before this operation'))
        before, after = tr['inst'][i - 1], tr['inst'][i]
        for r, hb in enumerate(before):
            if r != target and after[r] != hb and not (target is not None and find(r) == find(target)):
                out.append((i, 'other instance changed', origin[max(r, target or 0)],
                            f'instance {r} changed by {op[0]} on instance {target}'))
        for a, b in tr['shared'][i]:
            if [a, b] in tr['shared'][i - 1]:
                continue                      # reported at the step that created the sharing
            if a[0] == 'd':
                out.append((i, 'instance shares an object with a class default', op[0], f'{a[1]} / instance {b[1]}'))
            elif find(a[1]) != find(b[1]):
                out.append((i, 'two instances share a mutable object', op[0], f'instances {a[1]} and {b[1]}'))
    return out


def judge(ctx, case, tr):
    for step, clause, via, detail in oracle(tr):
        ops = [o for o in tr['ops'] if o[0] != 'skip']
        ctx.fail(f'alias-types: {case["cls"]}: after op {step} ({ops[step - 1][0]}): {clause} ({detail}); created by {via}',
                 {'stream': 'alias-types', 'clause': clause, 'via': via},
                 {'stream': 'alias-types', 'case': case, 'resolved_ops': ops[:step], 'sites': tr['sites'],
                  'oracle': {'verdict': 'fail', 'clause': clause, 'detail': detail, 'step': step},
                  'shared_after_step': tr['shared'][step]})


def identity_streams(ctx):
    """alias-ctor / alias-sep / alias-mdib: findings of c12b_impl become oracle failures"""
    request = {'seed': ctx.rng.randrange(1 << 30), 'ctor_rounds': ctx.n(2, 8), 'sep_rounds': ctx.n(1, 8)}
    request_tables = {'seed': request['seed'], 'ctor': False, 'sep': False, 'mdib': False, 'tables': True,
                      'table_sweep': ctx.n(8, 40)}
    from concurrent.futures import ThreadPoolExecutor
    with ThreadPoolExecutor(max_workers=2) as ex:        # two processes: the tables stream starts providers / consumers
        res, res_t = ex.map(lambda rq: ctx.impl('c12b_impl', rq, timeout=2400), [request, request_tables])
    if res.get('_crash'):
        ctx.broken('correspondence', 'alias-ctor / alias-sep / alias-mdib (implementation run)', res['stderr'])
        return
    if res_t.get('_crash'):
        ctx.broken('correspondence', 'alias-tables (implementation run)', res_t['stderr'])
        res_t = {}
    res['tables'] = res_t.get('tables')
    requests = {'tables': request_tables}
    for stream, part, unit in (('alias-ctor', 'ctor', 'instances'), ('alias-sep', 'sep', 'pairs'), ('alias-mdib', 'mdib', 'pairs'),
                               ('alias-tables', 'tables', 'containers')):
        r = res.get(part) or {'crash': 'stream missing in the output'}
        if 'crash' in r:
            ctx.broken('correspondence', f'{stream} (implementation run)', r['crash'])
            continue
        for f in r['findings']:
            sig = {'stream': stream, 'clause': f['clause'], 'op': f['op']}
            if f.get('kind'):
                sig['kind'] = f['kind']
            ctx.fail(f'{stream}: {f["clause"]}' + (f' ({f["kind"]})' if f.get('kind') else '') + f': {f["detail"]}',
                     sig, {'stream': stream, 'class': f['cls'], 'path': f['path'],
                           'request': dict(requests.get(part, request), only=[f['cls']]),
                           'finding': f['replay'], 'classes_with_this_finding': len(
                               [k for k in r['finding_counts'] if k.startswith(
                                   f['clause'] + (': ' + f['kind'] if f.get('kind') else '') + ' | ' + f['op'] + ' | ')])})
        hist = dict(r['hist'])
        ctx.count(stream, hist.get(unit, 0), r.get('keys', []), histogram=hist,
                  findings=len(r['findings']), classes=res.get('n_classes'))
    if res.get('opaque_types'):
        ctx.log(f'alias streams: objects of unknown mutability not followed: {res["opaque_types"]}')
    ctx.cov['getters_followed'] = {'identity streams': res.get('accessors'), 'alias-tables': res_t.get('accessors')}
    ctx.sample({'stream': 'alias-ctor/alias-sep/alias-mdib', 'request': request,
                'ctor_hist': json.dumps((res.get('ctor') or {}).get('hist'))[:600]})


def run(ctx):
    proof_ok = ctx.prove()
    if not proof_ok:
        ctx.broken('theorem', 'Props/C12.v', ctx.proof_error)
    disc = ctx.impl('c12_impl', {'discover': True})
    if disc.get('_crash'):
        ctx.broken('correspondence', 'alias-types (discovery)', disc['stderr'])
        return ctx.finish('implementation run crashed', [], [])
    direct, carriers = disc['direct'], disc['carriers']
    per_class = ctx.n(10, 100)
    ncases = len(direct) * per_class + ctx.n(40, 600)
    max_ops = ctx.n(7, 12)
    cases = [gen_case(ctx.rng, direct, carriers, max_ops, n) for n in range(ncases)]
    impl = ctx.impl('c12_impl', {'cases': cases}, timeout=2400)
    if impl.get('_crash'):
        ctx.broken('correspondence', 'alias-types', impl['stderr'])
        return ctx.finish('implementation run crashed', [], [])
    traces = impl['traces']
    hist = {'new': 0, 'parse': 0, 'parse_with_absent_default': 0, 'copy': 0, 'deepcopy': 0, 'update': 0, 'write': 0,
            'nested_write': 0, 'mutate': 0, 'mutate_append': 0, 'mutate_pop': 0, 'mutate_clear': 0, 'skip': 0,
            'template_retries': 0}
    lits, good = [], []
    classes_hit = set()
    for c, tr in zip(cases, traces):
        if 'crash' in tr:
            ctx.broken('correspondence', 'alias-types (case crashed)', {'case': c, 'error': tr['crash']})
            continue
        for o in tr['ops']:
            hist[o[0]] += 1
            hist['parse_with_absent_default'] += o[0] == 'parse' and o[2] > 0
            hist['nested_write'] += o[0] == 'write' and len(o[2]) > 0
            if o[0] == 'mutate':
                hist['mutate_' + o[3]] += 1
        hist['template_retries'] += len(tr['notes'])
        classes_hit.add(c['cls'])
        judge(ctx, c, tr)
        lits.append((lit_case(tr), lit_obs(tr)))
        good.append((c, tr))
    mism, err = ctx.coq_mism('alias', HEADER, 'zll_eqb', 'run_case fixed', lits, shard=40, deps=['Alias/Model.vo'])
    if err:
        ctx.broken('correspondence', 'alias-types (coq evaluation)', err)
    if mism:
        i = mism[0]
        c, tr = good[i]
        model = ctx.coq_eval(HEADER, f'run_case fixed {lits[i][0]}')
        ctx.broken('correspondence', 'alias-types',
                   {'disagreements': len(mism), 'first_case': c, 'resolved_ops': tr['ops'], 'impl_obs': tr['obs'],
                    'model_obs': model[-3000:]})
    ctx.count('alias-types', len(good), [repr(t['obs']) for _, t in good], histogram=hist,
              classes=len(classes_hit), default_sites=len(disc['sites']), direct_classes=len(direct),
              carrier_classes=len(carriers))
    if good:
        c, tr = good[0]
        ctx.sample({'stream': 'alias-types', 'case': c, 'resolved_ops': json.dumps(tr['ops'])[:1500],
                    'final_observation_tokens': len(tr['obs'][-1])})
    identity_streams(ctx)
    if ctx.thorough:
        hits = ctx.gate_grep(['Alias', 'Common'])
        if hits:
            ctx.broken('theorem', 'grep gate', hits)
        ctx.coqchk('SDC.Props.C12')
    return ctx.finish(
        rule='alias-types: for every class with (or containing) a member that has a mutable class-level default (or a '
             'mutable default argument): random histories of cls() / from_node(XML with defaulted members removed) / '
             'mk_copy / copy.deepcopy / update_from_other_container / nested scalar writes / in-place list append, pop, '
             'clear; after every operation the id()-sharing graph of all defaults and instances is compared '
             'with the Coq heap model (run_case fixed, vm_compute) and the oracle checks defaults, cls() and all '
             'non-target instances unchanged and no mutable object reachable from two roots; distinct = distinct '
             'observation sequences.  alias-ctor / alias-sep / alias-mdib: for EVERY class, object identity judged '
             'directly: pairwise sharing among all live instances, class defaults and default-argument objects after '
             'construction through every constructor variant; after mk_copy / deepcopy / from_node / update_from_node / '
             'update_from_other_container / entity getter / entity.update (also of entities older than the mdib) no common '
             'mutable object at any depth; after every single in-place mutation of every reachable mutable object all other '
             'values unchanged; reachable from an instance = declared members, every other __dict__ entry, __slots__, '
             'python properties and what every zero-argument public getter returns (mutator-named methods excluded); '
             'alias-sep runs every operation a second time after the getters of the source were called (memoised '
             'results), alias-mdib also judges the working copies of transaction getters; alias-tables: no mutable object reachable from two containers of the tables of a provider / '
             'consumer mdib at every set-up stage, for all MDIB files of tests/',
        assumptions=['the model is the REPAIRED code (fixes/C12_parse_default, fixes/C12_mk_copy); C12_parse_refuted / '
                     'C12_mkcopy_refuted state what the unrepaired code does',
                     'update_from_other_container keeps sharing one level below the copied values (C12_update_refuted, '
                     'proposed known finding fixes/C12_known.json): C12_instances_independent quantifies over histories '
                     'without it, C12_instances_independent_if_update_deep shows what a deep copy would give; the '
                     'alias-types oracle exempts the pair (dst, src) of an update, alias-sep / alias-mdib report it '
                     '(kind = nested objects below the copied member values)',
                     'arg_fresh = true (no constructor stores a mutable default-argument object): measured by '
                     'alias-ctor on every run (mutable_default_arguments, registry of default-argument objects)',
                     'immutable values (str, int, Decimal, enum, QName, None) are abstracted to integers; lxml elements '
                     'are mutable leaf objects'],
        trusted_base=['correspondence harness harness/impl/c12_impl.py + xs_lib.py + xs_gen.py (object graph read from '
                      'instance __dict__ storage slots of the declared properties)',
                      'model evaluated inside Coq with vm_compute on generated case files'],
        not_modelled=['Coq model: attributes that are not declared properties (node, descriptor_container, parent_handle); '
                      'the identity streams follow them, except state.descriptor_container and the element the '
                      'observable node points to (shared by design)',
                      'copy.copy of a whole instance is shallow by definition: only the top-level object is required to be new',
                      'two parses of the SAME lxml document may both reference its elements (Extension members); two '
                      'documents must give disjoint objects',
                      'writes / appends that store a mutable object into an existing instance (model stores immutable values)',
                      'Python garbage (objects allocated by cls() and overwritten by from_node are not observable)'])


def replay(ctx, rep):
    if rep.get('stream') in ('alias-ctor', 'alias-sep', 'alias-mdib', 'alias-tables'):
        part = {'alias-ctor': 'ctor', 'alias-sep': 'sep', 'alias-mdib': 'mdib', 'alias-tables': 'tables'}[rep['stream']]
        request = dict(rep['request'], ctor=part == 'ctor', sep=part == 'sep', mdib=part == 'mdib', tables=part == 'tables')
        if part in ('mdib', 'tables'):
            request['only'] = None
        if part == 'tables' and rep.get('finding', {}).get('mdib_file'):
            request['table_files'] = [rep['finding']['mdib_file']]
            request['world_files'] = [rep['finding']['mdib_file']]
        res = ctx.impl('c12b_impl', request, timeout=2400)
        found = (res.get(part) or {}).get('findings', [])
        sig = rep['signature']
        same = [f for f in found if f['clause'] == sig['clause'] and f['op'] == sig['op']
                and f.get('kind', '') == sig.get('kind', '')]
        print(json.dumps({'request': request, 'findings_with_this_signature': same[:3],
                          'all_finding_counts': (res.get(part) or {}).get('finding_counts', res)}, indent=1)[:6000])
        return 1 if same else 0
    case = rep.get('case')
    impl = ctx.impl('c12_impl', {'cases': [case]})
    tr = impl['traces'][0]
    print(json.dumps({'case': case, 'resolved_ops': tr.get('ops'), 'shared': tr.get('shared'),
                      'oracle': oracle(tr) if 'ops' in tr else tr}, indent=1)[:6000])
    return 1 if 'ops' in tr and oracle(tr) else 0
