"""C04 - reports are complete, truthful, schema-valid and delivered in version order."""
import mdibcheck
import mdibgen

FILES = ('70041_MDIB_Final.xml', 'mdib_two_mds.xml')


def run(ctx):
    ctx.regenerate('gen_conc_programs')
    if not ctx.prove():
        ctx.broken('theorem', 'Props/C04.v', ctx.proof_error)
    # ---- stream `reports`: wire reports vs the committed changes (single- and two-MDS MDIBs)
    pairs = mdibcheck.run_histories(ctx, 'reports', ctx.n(48, 800), ctx.n(10, 40), consumer=True, mdib_files=FILES,
                                    weights={'state': 5, 'ctx': 3, 'location': 1, 'descr': 4, 'reject': 1, 'abort': 1})
    nfail = mdibcheck.judge(ctx, 'reports', pairs, [mdibgen.oracle_reports], {'C04'})
    mism = mdibcheck.model_correspondence(ctx, 'reports', pairs, FILES)
    mism = mdibcheck.report_correspondence(ctx, 'reports', pairs, FILES) or mism
    nrep = sum(len(s['reports']) for _, r in pairs for s in r['trace'])
    mds = sorted({str(p.get('mds')) for _, r in pairs for s in r['trace'] for rep in s['reports'] for p in rep.get('parts', [])})
    ctx.count('reports', len(pairs), [repr(r['trace']) for _, r in pairs], histogram=mdibcheck.op_histogram(pairs),
              wire_reports_parsed_and_schema_validated=nrep, source_mds_seen=mds)
    if pairs:
        c, r = pairs[0]
        ctx.sample({'stream': 'reports', 'op': c['ops'][0], 'reports': r['trace'][0]['reports'][:2]})
    # ---- stream `order`: real concurrent writer threads, two subscribers
    inv = mdibcheck.inventory(ctx, FILES[0])
    o = ctx.impl('c04_order_impl', {'handles': ctx.rng.sample(inv['metric'], 4), 'comp': inv['comp'][:4],
                                    'threads': ctx.n(4, 8), 'tx': ctx.n(9, 40)}, timeout=600)
    if o.get('_crash'):
        ctx.broken('correspondence', 'order: implementation run crashed', o['stderr'][-800:])
    else:
        for e in o['errors'][:1]:
            ctx.fail('order: a writer thread failed: ' + e, {'stream': 'order', 'clause': 'writer error'}, {'stream': 'order', 'errors': o['errors']})
        total = 0
        for netloc, seq in o['subscribers'].items():
            vs = [x[0] for x in seq]
            total += len(vs)
            bad = next((i for i in range(1, len(vs)) if vs[i] < vs[i - 1]), None)
            if bad is not None:
                ctx.fail(f'order: subscriber {netloc} was handed MdibVersion {vs[bad]} after {vs[bad - 1]}',
                         {'stream': 'order', 'clause': 'out of order'},
                         {'stream': 'order', 'case': {'delivery_order': seq[max(0, bad - 3):bad + 2]}})
            if vs and sorted(set(vs)) != list(range(min(vs), max(vs) + 1)):
                ctx.fail(f'order: subscriber {netloc} did not get a report for every committed version',
                         {'stream': 'order', 'clause': 'gap'}, {'stream': 'order', 'case': {'versions': sorted(set(vs))}})
            if any(x[2] != 200 for x in seq):
                ctx.fail('order: a notification was answered with an HTTP error', {'stream': 'order', 'clause': 'http'},
                         {'stream': 'order', 'case': [x for x in seq if x[2] != 200][:3]})
        ctx.count('order', total, [(n, tuple(map(tuple, s))) for n, s in o['subscribers'].items()],
                  final_version=o['final_version'], subscribers=len(o['subscribers']))
        ctx.sample({'stream': 'order', 'first_deliveries': next(iter(o['subscribers'].values()))[:8]})
    # ---- stream `slow-subscriber`: async subscriptions manager, one subscriber's round trip takes seconds (real time)
    sl = ctx.impl('c04_async_impl', {'handle': inv['metric'][0], 'delay': 4.0 if not ctx.thorough else 9.0}, timeout=300)
    if sl.get('_crash'):
        ctx.broken('correspondence', 'slow-subscriber: implementation run crashed', sl['stderr'][-800:])
    else:
        for netloc, vs in sl['arrival_order'].items():
            bad = next((i for i in range(1, len(vs)) if vs[i] < vs[i - 1]), None)
            if bad is not None:
                ctx.fail(f'slow-subscriber: {"the slow" if netloc == sl["slow_subscriber"] else "a"} subscriber received MdibVersion '
                         f'{vs[bad]} after {vs[bad - 1]} (arrival order {vs}; the first report was delayed {sl["delay"]} s, the '
                         f'commit returned after {sl["commit_blocked_s"]} s)',
                         {'stream': 'slow-subscriber', 'clause': 'out of order'}, {'stream': 'slow-subscriber', 'case': sl})
            if sorted(vs) != sl['versions']:
                ctx.fail(f'slow-subscriber: subscriber {netloc} received versions {vs}, committed were {sl["versions"]}',
                         {'stream': 'slow-subscriber', 'clause': 'lost or duplicated'}, {'stream': 'slow-subscriber', 'case': sl})
        ctx.count('slow-subscriber', sum(len(v) for v in sl['arrival_order'].values()),
                  [(n, tuple(v)) for n, v in sl['arrival_order'].items()], delay_s=sl['delay'],
                  commit_blocked_s=sl['commit_blocked_s'])
    # ---- stream `retained`: copies published by an earlier commit keep their values (shared with C03's alias stream)
    hs = ctx.rng.sample(inv['metric'] + inv['alert'] + inv['comp'], ctx.n(4, 20))
    a = ctx.impl('c03_alias_impl', {'handles': hs, 'max_paths': ctx.n(4, 20), 'seed': ctx.seed}, timeout=600)
    if a.get('_crash'):
        ctx.broken('correspondence', 'retained: implementation run crashed', a['stderr'][-800:])
    else:
        rs = [x for x in a['results'] if x['getter'].startswith('published')]
        for x in rs:
            if x.get('mdib_changed') or 'error' in x:
                ctx.fail(f'retained: the state copy published for {x["handle"]} by an earlier commit changed when a later '
                         f'transaction wrote {".".join(map(str, x["path"]))}', {'stream': 'retained'},
                         {'stream': 'retained', 'case': x})
        ctx.count('retained', len(rs), [(x['handle'], tuple(x['path'])) for x in rs])
    if ctx.thorough:
        hits = ctx.gate_grep(['Mdib', 'Conc', 'Common'])
        if hits:
            ctx.broken('theorem', 'grep gate', hits)
        ctx.coqchk('SDC.Props.C04')
    return ctx.finish(
        rule='reports: crafted + random histories on single- and two-MDS MDIBs (transactions whose states belong to two MDSs '
             'in every order, MDSs created at run time, context descriptors with several states updated); every notification '
             'on the wire is parsed by the real reader (schema validation on) and compared with the committed changes: '
             'version group, exactly the changed states / descriptors, each once, committed values, grouped under their MDS, '
             'every description report part with every changed state of its descriptor; order: real writer threads commit '
             'concurrently, two subscribers, delivery order per subscriber must be non-decreasing and complete; slow-subscriber: '
             'the ASYNC subscriptions manager with a fake aiohttp client whose first round trip to one subscriber takes 4 s '
             '(thorough 9 s) of real time while further transactions commit: arrival order per subscriber; retained: '
             'copies published by a commit keep their values under later nested writes; distinct = distinct traces / '
             'delivery sequences / (handle, path) pairs',
        assumptions=['the order theorem is over the traced lock-step programs; the real-thread stream samples schedules only',
                     'XSD validity is judged by lxml with the bundled schemas (oracle, not a theorem)'],
        trusted_base=['translator harness/impl/gen_conc_programs.py (traced commit program)', 'harness/mdibrun.py report parsing',
                      'loop-back transport'],
        not_modelled=['the asynchronous subscription manager (asyncio) is exercised by the slow-subscriber stream only (oracle, no model; a give-up '
                      'timeout longer than the injected delay would not be seen)',
                      'report content theorem is for state transactions; context / descriptor reports by oracle + correspondence'])
