"""C04 - reports are complete, truthful, schema-valid and delivered in version order."""
import json
from concurrent.futures import ThreadPoolExecutor

import mdibcheck
import mdibgen

FILES = ('70041_MDIB_Final.xml', 'mdib_two_mds.xml')


# ----------------------------------------------------------------------------- oracle of stream `order`
STATE_REPORTS = ('EpisodicMetricReport', 'EpisodicAlertReport', 'EpisodicComponentReport', 'EpisodicContextReport',
                 'EpisodicOperationalStateReport', 'WaveformStream')


def _key(x):
    return json.dumps(x, sort_keys=True, default=str)


def _wire_content(rep):
    """content of a parsed notification in the normal form of c04_common.Recorder"""
    if rep['kind'] == 'DescriptionModificationReport':
        d = {'Crt': [], 'Upt': [], 'Del': [], 'states': []}
        for p in rep['parts']:
            mod = p['mod'] if p['mod'] in d else 'Upt'
            if mod == 'Del':
                d['Del'] += [x[0] for x in p['descrs']]
            else:
                d[mod] += p['descrs']
                d['states'] += p['states']
        return {k: sorted(v, key=_key) for k, v in d.items()}
    return sorted((s for p in rep['parts'] for s in p['states']), key=_key)


def _expected_content(kind, exp):
    if kind == 'DescriptionModificationReport':
        return {k: sorted(v, key=_key) for k, v in exp.items()}
    return sorted(exp, key=_key)


def order_findings(o):
    """C04 evaluated directly on what every subscriber was handed: (what, signature, replay) per violated clause"""
    out = []
    commits = {int(v): c for v, c in o['commits'].items()}
    sched_of = {}
    for s in o['schedules']:
        for v in s['versions']:
            sched_of[v] = {k: s[k] for k in ('a', 'b', 'point', 'at', 'versions', 'by')}

    def ctx_of(v):
        c = commits.get(v)
        return {'schedule': sched_of.get(v) or 'free-running threads', 'commit': c and {'kind': c['kind'], 'thread': c['thread'],
                'reports': sorted(c['expect'])}}
    for netloc, seq in o['subscribers'].items():
        seen = {}
        last = None
        for i, rep in enumerate(seq):
            kind = rep['kind']
            if kind == 'UNPARSABLE':
                out.append((f'order: a notification handed to {netloc} cannot be parsed / is not schema-valid: {rep.get("err")}',
                            {'stream': 'order', 'clause': 'unparsable'}, {'report': rep}))
                continue
            if kind not in STATE_REPORTS and kind != 'DescriptionModificationReport':
                continue
            v = rep['ver']
            if rep.get('status') != 200:
                out.append((f'order: {kind} {v} was answered with HTTP {rep.get("status")}', {'stream': 'order', 'clause': 'http'},
                            {'report': rep}))
            if last is not None and v < last['ver']:
                out.append((f'order: subscriber {netloc} was handed {kind} with MdibVersion {v} after {last["kind"]} with '
                            f'MdibVersion {last["ver"]}', {'stream': 'order', 'clause': 'out of order', 'kind': kind},
                            {'delivery_order': [[r['ver'], r['kind']] for r in seq[max(0, i - 3):i + 2]], **ctx_of(v)}))
            last = rep
            if (rep['seq'], rep['inst']) != (o['seq'], o['inst']):
                out.append((f'order: {kind} {v} carries SequenceId / InstanceId {rep["seq"]} / {rep["inst"]}',
                            {'stream': 'order', 'clause': 'sequence id', 'kind': kind}, {'report': rep}))
            c = commits.get(v)
            if c is None or kind not in c['expect']:
                what = ('no transaction committed that version' if c is None else
                        f'the commit of that version (a {c["kind"]} transaction of thread {c["thread"]}) changed nothing a {kind} reports '
                        f'(it produces {sorted(c["expect"])})')
                out.append((f'order: subscriber {netloc} was handed {kind} stating MdibVersion {v}, but {what}',
                            {'stream': 'order', 'clause': 'version without such a change', 'kind': kind},
                            {'report': rep, **ctx_of(v)}))
                continue
            seen[(v, kind)] = seen.get((v, kind), 0) + 1
            got, want = _wire_content(rep), _expected_content(kind, c['expect'][kind])
            if got != want:
                out.append((f'order: {kind} stating MdibVersion {v} does not show what the commit of version {v} changed: '
                            f'report {got}, committed {want}', {'stream': 'order', 'clause': 'content', 'kind': kind},
                            {'report': rep, 'committed': want, **ctx_of(v)}))
        for v, c in commits.items():
            for kind in c['expect']:
                n = seen.get((v, kind), 0)
                if n != 1:
                    out.append((f'order: subscriber {netloc} was handed {n} {kind} for MdibVersion {v} (a {c["kind"]} transaction '
                                f'committed it; exactly one is due)', {'stream': 'order', 'clause': 'lost or duplicated', 'kind': kind},
                                {'version': v, 'handed': n, **ctx_of(v)}))
    return out


# ----------------------------------------------------------------------------- oracle of stream `periodic`
EPISODIC_OF = {'metric': 'EpisodicMetricReport', 'alert': 'EpisodicAlertReport', 'component': 'EpisodicComponentReport',
               'operational': 'EpisodicOperationalStateReport', 'context': 'EpisodicContextReport'}


def _skey(kind, st):
    """(key in the per-version record, descriptor handle) of a canonical state"""
    return ('c:' + str(st[0]), st[1]) if kind == 'context' else (st[0], st[0])


def periodic_findings(r):
    """C04 (periodic clause) evaluated on every PeriodicStates list the real PeriodicReportsHandler handed to a service
    and on every periodic report on the wire: the states carried are exactly the values the MDIB had at the MdibVersion
    they are labelled with"""
    out = []
    mode = r['mode']
    sig = {'stream': 'periodic', 'mode': mode}
    if r['died'] or not r['completed'] or not r['thread_alive']:
        out.append((f'periodic ({mode}): the periodic reports thread stopped working: {r["died"] or "did not reach its next sleep"}',
                    {**sig, 'clause': 'thread stopped'}, {'died': r['died'], 'yields': r['yields'][-6:]}))
    hist = {int(v): t for v, t in r['hist'].items()}
    commits = {int(v): c for v, c in r['commits'].items()}
    for ev in r['events']:
        kind = ev['kind']
        where = {'round': ev['round'], 'injected_commits_in_this_round': [y for y in r['yields'] if y[0] == ev['round']]}
        for lst in ev['lists']:
            label, got = lst['label'], sorted(lst['states'], key=_key)
            if mode == 'retrievability':
                if not got:
                    continue
                period = r['period_of'].get(_skey(kind, got[0])[1])
                handles = r['groups'].get(str(period), {}).get(kind, [])
                at = hist.get(label, {})
                want = sorted((st for st in at.values() if (len(st) > 5) == (kind == 'context') and _skey(kind, st)[1] in handles),
                              key=_key)
                why = 'the MDIB had at that version'
            else:
                c = commits.get(label)
                want = sorted((c or {}).get('expect', {}).get(EPISODIC_OF[kind], []), key=_key)
                at = {_skey(kind, st)[0]: st for st in want}
                why = 'the commit of that version changed'
            if got != want:
                diffs = []
                for st in got:
                    if st not in want:
                        diffs.append(f'{_skey(kind, st)[0]}: copy {st}, at MdibVersion {label}: {at.get(_skey(kind, st)[0])}')
                for st in want:
                    if _skey(kind, st)[0] not in {_skey(kind, g)[0] for g in got}:
                        diffs.append(f'{_skey(kind, st)[0]}: missing, at MdibVersion {label}: {st}')
                shows = lst.get('copies_show_versions')
                out.append((f'periodic ({mode}): PeriodicStates for a Periodic{kind.capitalize()} report labelled MdibVersion {label} '
                            f'does not carry what {why}' + (f' (the copies show the MDIB of version {shows[0]}..{shows[1]})' if shows else '')
                            + ': ' + '; '.join(diffs[:3]), {**sig, 'clause': 'label', 'kind': kind},
                            {'label': label, 'handed': got, 'at_label': want, 'copies_show_versions': shows,
                             'version_when_sent': ev['version_at_send'], **where}))
        labels = [lst['label'] for lst in ev['lists']]
        handed = sorted((st for lst in ev['lists'] for st in lst['states']), key=_key)
        mds_of = {_key(st): m for lst in ev['lists'] for st, m in zip(lst['states'], lst['mds'])}
        for netloc, reps in ev['wire'].items():
            bad = [x for x in reps if x['kind'] == 'UNPARSABLE']
            if bad:
                out.append((f'periodic ({mode}): a {ev["report"]} on the wire cannot be parsed / is not schema-valid: {bad[0].get("err")}',
                            {**sig, 'clause': 'unparsable', 'kind': kind}, {'report': bad[0], **where}))
            reps = [x for x in reps if x['kind'] == ev['report']]
            if len(reps) != 1:
                out.append((f'periodic ({mode}): subscriber {netloc} was handed {len(reps)} {ev["report"]} for one hand-over',
                            {**sig, 'clause': 'wire count', 'kind': kind}, {'event': {k: ev[k] for k in ('kind', 'round', 'lists')}, **where}))
                continue
            rep = reps[0]
            wire = sorted((st for p in rep['parts'] for st in p['states']), key=_key)
            if wire != handed:
                out.append((f'periodic ({mode}): the {ev["report"]} on the wire does not carry the states handed over: {wire} vs {handed}',
                            {**sig, 'clause': 'wire content', 'kind': kind}, {'report': rep, 'handed': handed, **where}))
            wrong_mds = [(p['mds'], st) for p in rep['parts'] for st in p['states'] if mds_of.get(_key(st), p['mds']) != p['mds']]
            if wrong_mds:
                out.append((f'periodic ({mode}): {ev["report"]} lists a state under SourceMds {wrong_mds[0][0]}: {wrong_mds[0][1]}',
                            {**sig, 'clause': 'wire mds', 'kind': kind}, {'report': rep, **where}))
            if (rep['seq'], rep['inst']) != (r['seq'], r['inst']) or rep.get('status') != 200:
                out.append((f'periodic ({mode}): {ev["report"]} carries SequenceId / InstanceId {rep["seq"]} / {rep["inst"]}, '
                            f'HTTP status {rep.get("status")}', {**sig, 'clause': 'wire ids', 'kind': kind}, {'report': rep}))
            v = rep['ver']
            if kind == 'context':
                ok = bool(labels) and v == labels[-1]
                rule = f'the label {labels[-1] if labels else None} of the states it carries'
            else:
                ok = v == ev['arg_version'] and (not labels or max(labels) <= v) and v <= ev['version_at_send']
                rule = (f'the version group handed to the service ({ev["arg_version"]}), not older than the labels {labels[-3:]} and not '
                        f'newer than the MDIB ({ev["version_at_send"]})')
            if not ok:
                out.append((f'periodic ({mode}): {ev["report"]} on the wire states MdibVersion {v}; it must be {rule}',
                            {**sig, 'clause': 'wire version', 'kind': kind}, {'report': rep, 'labels': labels, **where}))
    if mode == 'fixed':
        # the periodic store: every commit's changed states appear exactly once, in commit order, with their version
        for kind, ep in EPISODIC_OF.items():
            got = [lst['label'] for ev in r['events'] if ev['kind'] == kind for lst in ev['lists']] + \
                  [lst['label'] for lst in r['leftover'].get(kind, [])]
            want = [v for v in r['commit_order'] if ep in commits.get(v, {}).get('expect', {})]
            if got != want:
                lost = [v for v in want if v not in got]
                out.append((f'periodic (fixed): the store for Periodic{kind.capitalize()} reports handed over the versions {got[:12]}..., '
                            f'committed were {want[:12]}... (lost {lost[:6]}, extra {[v for v in got if v not in want][:6]})',
                            {**sig, 'clause': 'store lost or duplicated', 'kind': kind}, {'handed': got, 'committed': want}))
            for lst in r['leftover'].get(kind, []):
                want_st = sorted(commits.get(lst['label'], {}).get('expect', {}).get(ep, []), key=_key)
                if sorted(lst['states'], key=_key) != want_st:
                    out.append((f'periodic (fixed): the copies retained for MdibVersion {lst["label"]} ({kind}) show {lst["states"]}, '
                                f'the commit of that version changed {want_st}', {**sig, 'clause': 'label', 'kind': kind},
                                {'label': lst['label'], 'retained': lst['states'], 'committed': want_st}))
    return out


def run(ctx):
    inv = mdibcheck.inventory(ctx, FILES[0])
    # the implementation-side runs of the schedule streams are independent processes: start them now, judge them below
    retained_handles = ctx.rng.sample(inv['metric'] + inv['alert'] + inv['comp'], ctx.n(4, 20))
    jobs = {
        'order': ('c04_order_impl', {'inv': inv, 'threads': ctx.n(4, 8), 'tx': ctx.n(14, 56), 'seed': ctx.seed}),
        'periodic-r': ('c04_periodic_impl', {'inv': inv, 'seed': ctx.seed, 'modes': ['retrievability'], 'full_rounds': ctx.n(3, 6),
                                             'rounds': {'retrievability': ctx.n(9, 30)}}),
        'periodic-f': ('c04_periodic_impl', {'inv': inv, 'seed': ctx.seed + 7, 'modes': ['fixed'], 'full_rounds': ctx.n(2, 4),
                                             'rounds': {'fixed': ctx.n(5, 16)}}),
        'slow': ('c04_async_impl', {'handle': inv['metric'][0], 'delay': 4.0 if not ctx.thorough else 9.0}),
        'retained': ('c03_alias_impl', {'handles': retained_handles, 'max_paths': ctx.n(4, 20), 'seed': ctx.seed}),
    }
    pool = ThreadPoolExecutor(max_workers=len(jobs))
    fut = {k: pool.submit(ctx.impl, script, payload, 900) for k, (script, payload) in jobs.items()}
    ctx.regenerate('gen_conc_programs')
    if not ctx.prove():
        ctx.broken('theorem', 'Props/C04.v (C04_commit_program_safe / C04_all_commit_programs_safe: a traced commit no longer puts its '
                              'notifications on the wire inside the locks; C04_periodic_collector_safe: the periodic collector no '
                              'longer reads its label and copies the states inside one critical section)', ctx.proof_error)
    # ---- stream `reports`: wire reports vs the committed changes (single- and two-MDS MDIBs)
    pairs = mdibcheck.run_histories(ctx, 'reports', ctx.n(48, 800), ctx.n(10, 40), consumer=True, mdib_files=FILES,
                                    weights={'state': 5, 'ctx': 3, 'location': 1, 'descr': 4, 'reject': 1, 'abort': 1})
    nfail = mdibcheck.judge(ctx, 'reports', pairs, [mdibgen.oracle_reports], {'C04'})
    mism = mdibcheck.model_correspondence(ctx, 'reports', pairs, FILES)
    mism = mdibcheck.report_correspondence(ctx, 'reports', pairs, FILES) or mism
    nrep = sum(len(s['reports']) for _, r in pairs for s in r['trace'])
    mds = sorted({str(p.get('mds')) for _, r in pairs for s in r['trace'] for rep in s['reports'] for p in rep.get('parts', [])})
    ctx.count('reports', len(pairs), [repr(r['trace']) for _, r in pairs], histogram=mdibcheck.op_histogram(pairs),
              wire_reports_parsed_and_schema_validated=nrep, source_mds_seen=mds)
    if pairs:
        c, r = pairs[0]
        ctx.sample({'stream': 'reports', 'op': c['ops'][0], 'reports': r['trace'][0]['reports'][:2]})
    # ---- stream `order`: writer threads of every transaction kind, deterministic schedules + free-running, two subscribers
    o = fut['order'].result()
    if o.get('_crash'):
        ctx.broken('correspondence', 'order: implementation run crashed', o['stderr'][-800:])
    else:
        harness = [e for e in o['errors'] if e.startswith(('schedule stuck', 'recorder'))]
        if harness:
            ctx.broken('correspondence', 'order: schedule injection / commit recorder failed', harness[:3])
        for e in [e for e in o['errors'] if e not in harness][:1]:
            ctx.fail('order: a writer thread failed: ' + e, {'stream': 'order', 'clause': 'writer error'}, {'stream': 'order', 'errors': o['errors']})
        for what, sig, rep in order_findings(o):
            ctx.fail(what, sig, {'stream': 'order', 'case': rep})
        commits = o['commits']
        hist = {}
        for c in commits.values():
            for k in c['expect']:
                hist[k] = hist.get(k, 0) + 1
        at = {}
        for s_ in o['schedules']:
            at[s_['at']] = at.get(s_['at'], 0) + 1
        total = sum(len(seq) for seq in o['subscribers'].values())
        ctx.count('order', total, [(s_['a'], s_['b'], s_['at']) for s_ in o['schedules']] +
                  [(n, tuple((r['ver'], r['kind']) for r in seq)) for n, seq in o['subscribers'].items()],
                  final_version=o['final_version'], subscribers=len(o['subscribers']), commits=len(commits),
                  deterministic_schedules=len(o['schedules']), second_writer_started_at=at,
                  commits_by_transaction_kind=_hist(c['kind'] for c in commits.values()), reports_due_by_kind=hist,
                  free_running_commits=len(commits) - o['scheduled_commits'])
        if o['schedules']:
            ctx.sample({'stream': 'order', 'schedule': o['schedules'][len(o['schedules']) // 2],
                        'first_deliveries': [[r['ver'], r['kind']] for r in next(iter(o['subscribers'].values()))[:8]]})
    # ---- stream `periodic`: the real PeriodicReportsHandler on the virtual clock, commits injected wherever its thread does
    #      not hold the MDIB lock
    for key in ('periodic-r', 'periodic-f'):
        pr = fut[key].result()
        if pr.get('_crash'):
            ctx.broken('correspondence', f'{key}: implementation run crashed', pr['stderr'][-800:])
            continue
        for r in pr['runs']:
            if r.get('harness_error') or r.get('errors'):
                ctx.broken('correspondence', f'periodic ({r["mode"]}): harness', r.get('harness_error') or r['errors'][:3])
                if r.get('harness_error'):
                    continue
            for what, sig, rep in periodic_findings(r):
                ctx.fail(what, sig, {'stream': 'periodic', 'mode': r['mode'], 'seed': r['seed'], 'case': rep})
            evs = r['events']
            ctx.count('periodic-' + r['mode'], len(evs) + len(r['yields']),
                      [(e['kind'], tuple(l['label'] for l in e['lists']), e['round']) for e in evs] +
                      [(y[0], y[1], tuple(y[2])) for y in r['yields']],
                      hand_overs_by_kind=_hist(e['kind'] for e in evs), injection_points=_hist(y[1] for y in r['yields']),
                      injected_commits=len(r['commits']), injected_commits_by_kind=_hist(c['kind'] for c in r['commits'].values()),
                      periodic_states_judged=sum(len(e['lists']) for e in evs),
                      wire_reports_judged=sum(len(v) for e in evs for v in e['wire'].values()),
                      labels_older_than_mdib_when_sent=sum(1 for e in evs for l in e['lists'] if l['label'] < e['version_at_send']),
                      virtual_seconds=r['virtual_seconds'])
            if evs:
                e = evs[len(evs) // 2]
                ctx.sample({'stream': 'periodic', 'mode': r['mode'], 'kind': e['kind'], 'labels': [l['label'] for l in e['lists']][:6],
                            'version_at_send': e['version_at_send'],
                            'wire_versions': [x['ver'] for v in e['wire'].values() for x in v]})
    # ---- stream `slow-subscriber`: async subscriptions manager, one subscriber's round trip takes seconds (real time)
    sl = fut['slow'].result()
    if sl.get('_crash'):
        ctx.broken('correspondence', 'slow-subscriber: implementation run crashed', sl['stderr'][-800:])
    else:
        for netloc, vs in sl['arrival_order'].items():
            bad = next((i for i in range(1, len(vs)) if vs[i] < vs[i - 1]), None)
            if bad is not None:
                ctx.fail(f'slow-subscriber: {"the slow" if netloc == sl["slow_subscriber"] else "a"} subscriber received MdibVersion '
                         f'{vs[bad]} after {vs[bad - 1]} (arrival order {vs}; the first report was delayed {sl["delay"]} s, the '
                         f'commit returned after {sl["commit_blocked_s"]} s)',
                         {'stream': 'slow-subscriber', 'clause': 'out of order'}, {'stream': 'slow-subscriber', 'case': sl})
            if sorted(vs) != sl['versions']:
                ctx.fail(f'slow-subscriber: subscriber {netloc} received versions {vs}, committed were {sl["versions"]}',
                         {'stream': 'slow-subscriber', 'clause': 'lost or duplicated'}, {'stream': 'slow-subscriber', 'case': sl})
        ctx.count('slow-subscriber', sum(len(v) for v in sl['arrival_order'].values()),
                  [(n, tuple(v)) for n, v in sl['arrival_order'].items()], delay_s=sl['delay'],
                  commit_blocked_s=sl['commit_blocked_s'])
    # ---- stream `retained`: copies published by an earlier commit keep their values (shared with C03's alias stream)
    a = fut['retained'].result()
    pool.shutdown()
    if a.get('_crash'):
        ctx.broken('correspondence', 'retained: implementation run crashed', a['stderr'][-800:])
    else:
        rs = [x for x in a['results'] if x['getter'].startswith('published')]
        for x in rs:
            if x.get('mdib_changed') or 'error' in x:
                ctx.fail(f'retained: the state copy published for {x["handle"]} by an earlier commit changed when a later '
                         f'transaction wrote {".".join(map(str, x["path"]))}', {'stream': 'retained'},
                         {'stream': 'retained', 'case': x})
        ctx.count('retained', len(rs), [(x['handle'], tuple(x['path'])) for x in rs])
    if ctx.thorough:
        hits = ctx.gate_grep(['Mdib', 'Conc', 'Common'])
        if hits:
            ctx.broken('theorem', 'grep gate', hits)
        ctx.coqchk('SDC.Props.C04')
    return ctx.finish(
        rule='reports: crafted + random histories on single- and two-MDS MDIBs (transactions whose states belong to two MDSs '
             'in every order, MDSs created at run time, context descriptors with several states updated); every notification '
             'on the wire is parsed by the real reader (schema validation on) and compared with the committed changes: '
             'version group, exactly the changed states / descriptors, each once, committed values, grouped under their MDS, '
             'every description report part with every changed state of its descriptor; order: writer threads commit '
             'transactions of EVERY kind (metric, alert, component, operational, context, rt_sample, descriptor update / '
             'create / delete); what each commit changed is recorded inside the commit per MdibVersion; deterministic '
             'schedules: for every pair of kinds (A, B) and every point at which A takes a free MDIB lock or has just released '
             'one, B is started exactly there through lock proxies (a B that must wait runs when A releases the lock, A waits '
             'for it), then free-running threads; judged per subscriber in ARRIVAL order: non-decreasing MdibVersion, every '
             'report shows exactly what the commit of the version it states changed, no report for a version in which nothing '
             'of that kind changed, every due report exactly once, SequenceId / InstanceId, HTTP 200; periodic: the real '
             'PeriodicReportsHandler started by SdcProvider.start_all on a virtual clock, (a) descriptors of every kind with '
             'Retrievability=Periodic (two periods) and (b) fixed interval; at every point at which the periodic thread does '
             'not hold the MDIB lock (before taking it, after releasing it, around the lock of the periodic store, at every '
             'hand-over to a send_periodic_* function, at every sleep) a writer thread commits transactions that change the very '
             'states reported; every PeriodicStates handed over must carry exactly the values the MDIB had at the MdibVersion it '
             'is labelled with ((a): all periodic states of that kind and period, (b): the states the commit of that version '
             'changed, every commit once, in order), the report on the wire carries exactly these states under their MDS, '
             'PeriodicContextReport states the label as MdibVersion, the other periodic reports the version group handed to the '
             'service (not older than the labels, not newer than the MDIB); slow-subscriber: '
             'the ASYNC subscriptions manager with a fake aiohttp client whose first round trip to one subscriber takes 4 s '
             '(thorough 9 s) of real time while further transactions commit: arrival order per subscriber; retained: '
             'copies published by a commit keep their values under later nested writes; distinct = distinct traces / '
             'schedules and delivery sequences / hand-overs and injections / (handle, path) pairs',
        assumptions=['the order and label theorems are over the traced lock-step programs (commit of every transaction kind, Get '
                     'handlers, periodic collector per period); the schedule streams enumerate the second writer at every lock '
                     'event of the first for two writers, more writers are sampled by real threads only',
                     'XSD validity is judged by lxml with the bundled schemas (oracle, not a theorem)',
                     'the MdibVersion attribute of PeriodicMetric/Alert/Component/OperationalState reports is the version group '
                     'read when the report is sent (outside the MDIB lock, by design of the library: a periodic report may '
                     'aggregate several versions); the clause "values of the version they are labelled with" is judged on the '
                     'PeriodicStates label, which PeriodicContextReport also puts on the wire'],
        trusted_base=['translator harness/impl/gen_conc_programs.py + tracers c07_impl.py / c04_trace_impl.py (the traced programs '
                      'ARE the model input; the label read of the periodic collector is identified by data flow through a tagged int)',
                      'harness/mdibrun.py report parsing', 'loop-back transport',
                      'harness/impl/c04_common.py lock proxies (schedule injection) and in-commit recorder'],
        not_modelled=['the asynchronous subscription manager (asyncio) is exercised by the slow-subscriber stream only (oracle, no model; a give-up '
                      'timeout longer than the injected delay would not be seen)',
                      'report content theorem is for state transactions; context / descriptor reports by oracle + correspondence',
                      'the fixed-interval periodic loop does not read the MDIB (its labels are written by the commit, inside the locks): '
                      'oracle only', 'removal of a descriptor that has Retrievability=Periodic while the handler runs (the retrievability '
                      'lists are only rebuilt on request)'])


def _hist(it):
    h = {}
    for x in it:
        h[x] = h.get(x, 0) + 1
    return dict(sorted(h.items(), key=lambda kv: str(kv[0])))
