"""C10 - context association invariants hold after any sequence of context changes."""
import random
from concurrent.futures import ThreadPoolExecutor

import mdibcheck
import mdibmodel
from mdibgen import Tables

FILE = '70041_MDIB_Final.xml'
# the second file starts WITH context states (an associated location state without BindingStartTime, a patient)
FILES = {FILE: 'SVO.41.PC.mds0', 'mdib_two_mds.xml': 'opSetPatCtx'}
DH, LH, OP = 'PC.mds0', 'LC.mds0', 'SVO.41.PC.mds0'
ASSOC = {None: 0, 'No': 0, 'Pre': 1, 'Assoc': 2, 'Dis': 3}
HEADER = ('From Coq Require Import List ZArith Bool.\nImport ListNotations.\n'
          'From SDC Require Import Mdib.Model Mdib.Run Mdib.Context Mdib.CtxRun.\nOpen Scope Z_scope.\n')


def gen_case(rng, nops, mdib_file=FILE):
    OP = FILES[mdib_file]
    """proposals are [handle reference | None, association | None, payload number, descriptor handle]; most go to the
    patient context (the operation's target), some to the location context: the handler takes the descriptor from the
    proposal.  A handle reference ['nth', i] is resolved by the executor to the i-th existing state of that descriptor
    (the executor records what it resolved to in the trace), None proposes a new state."""
    ops = []
    n = 0

    def dh_of():
        return LH if rng.random() < 0.15 else DH

    def ref():
        return 'no_such_state' if rng.random() < 0.08 else ['nth', rng.randint(0, 5)]
    for _ in range(nops):
        r = rng.random()
        n += 1
        if r < 0.22:
            ops.append({'k': 'location', 'n': n})
        elif r < 0.52 or not ops:
            assoc = rng.choice(['Assoc', 'Assoc', 'Assoc', 'Dis', 'No', 'Pre', None])
            ops.append({'k': 'setctx', 'dh': DH, 'op_handle': OP, 'proposals': [[None, assoc, n, dh_of()]]})
        elif r < 0.86:
            assoc = rng.choice(['Assoc', 'Assoc', 'Dis', 'Dis', 'No', 'Pre', None])
            ops.append({'k': 'setctx', 'dh': DH, 'op_handle': OP, 'proposals': [[ref(), assoc, n, dh_of()]]})
        else:
            props = []
            both = rng.random() < 0.5          # one proposal per descriptor: both can succeed in one request
            for i in range(2):
                n += 1
                dh = (DH, LH)[i] if both else dh_of()
                if rng.random() < 0.4:
                    props.append([None, rng.choice(['Assoc', 'Dis', None]), n, dh])
                else:
                    props.append([ref(), rng.choice(['Assoc', 'Dis', 'No', None]), n, dh])
            ops.append({'k': 'setctx', 'dh': DH, 'op_handle': OP, 'proposals': props, 'multi': True})
    return {'mdib': mdib_file, 'consumer': True, 'role_hooks': True, 'ops': ops}


def crafted_cases():
    """fixed histories that alternate the two ways a state gets associated (set_location vs a SetContextState proposal)
    on the same descriptor, re-associate old states and mix both descriptors"""
    out = []
    for f, op_handle in FILES.items():
        def sc(props, multi=False):
            o = {'k': 'setctx', 'dh': DH, 'op_handle': op_handle, 'proposals': props}
            if multi:
                o['multi'] = True
            return o
        out.append({'mdib': f, 'consumer': True, 'role_hooks': True, 'crafted': 'location-vs-proposal', 'ops': [
            {'k': 'location', 'n': 1}, sc([[None, 'Assoc', 2, LH]]), {'k': 'location', 'n': 3},
            sc([[['nth', 0], 'Assoc', 4, LH]]), {'k': 'location', 'n': 5}, sc([[None, 'Pre', 6, LH]]),
            sc([[['nth', 2], 'Assoc', 7, LH]]), {'k': 'location', 'n': 8}, sc([[['nth', 1], 'Dis', 9, LH]]),
            {'k': 'location', 'n': 10}]})
        out.append({'mdib': f, 'consumer': True, 'role_hooks': True, 'crafted': 'patient-reassociation', 'ops': [
            sc([[None, 'Assoc', 1, DH]]), sc([[None, 'Pre', 2, DH]]), sc([[['nth', 0], None, 3, DH]]),
            sc([[None, 'Assoc', 4, DH]]), sc([[['nth', 0], 'Assoc', 5, DH]]), sc([[['nth', 1], 'Assoc', 6, DH]]),
            sc([[['nth', 2], 'No', 7, DH]]), sc([[['nth', 2], 'Assoc', 8, DH]]), {'k': 'location', 'n': 9},
            sc([[['nth', 0], 'Assoc', 10, DH], [None, 'Assoc', 11, LH]], multi=True)]})
    return out


def oracle(case, result):
    """C10 evaluated directly on the provider's context table after every operation"""
    tb = Tables(result['init']['prov'])
    for n, (op, st) in enumerate(zip(case['ops'], result['trace'])):
        d = st['prov']
        before = dict(tb.t['cstates'])
        prev_ver = tb.ver
        tb.apply(d)
        if st['res'] != 'ok':
            if d['cstates']['set'] or d['cstates']['del'] or d['ver'] != prev_ver:
                yield n, f'the operation failed ({st["res"].split(":")[0]}) but the context states changed'
            continue
        ver = d['ver']
        # at most one associated state per context descriptor
        per = {}
        for h, x in tb.t['cstates'].items():
            if x[4] == 'Assoc':
                per.setdefault(x[1], []).append(h)
        for dh, hs in per.items():
            if len(hs) > 1:
                yield n, f'descriptor {dh} has {len(hs)} associated context states: {sorted(hs)}'
        for x in d['cstates']['set']:
            h = str(x[0])
            old = before.get(h)
            was = old is not None and old[4] == 'Assoc'
            now = x[4] == 'Assoc'
            if was and not now:
                if x[4] != 'Dis':
                    yield n, f'state {h} stopped being associated but is marked {x[4]!r}, not disassociated'
                elif x[6] != ver:
                    yield n, f'state {h} was disassociated in MdibVersion {ver} but UnbindingMdibVersion is {x[6]}'
                elif len(x) > 9 and not x[9]:
                    yield n, f'state {h} was disassociated in MdibVersion {ver} but has no BindingEndTime'
            if now and not was:
                if x[5] != ver:
                    yield n, f'state {h} became associated in MdibVersion {ver} but BindingMdibVersion is {x[5]}'
                elif len(x) > 8 and not x[8]:
                    yield n, f'state {h} became associated in MdibVersion {ver} but has no BindingStartTime'
            if x[1] not in tb.t['descrs']:
                yield n, f'context state {h} refers to a descriptor that does not exist'
            if h in tb.t['descrs']:
                yield n, f'context state handle {h} is also a descriptor handle'


class CtxTranslator(mdibmodel.Translator):
    def ctx_case(self, case, result):
        name, _u, _h, _e = self.case({'mdib': case['mdib'], 'ops': []}, {'init': result['init'], 'trace': []})
        tb = Tables(result['init']['prov'])
        ops, exp = [], []
        spare = 900000
        for op, st in zip(case['ops'], result['trace']):
            d = st['prov']
            new_gen = [str(x[0]) for x in d['cstates']['set'] if str(x[0]) not in tb.t['cstates']]

            def pay(handle):
                x = next((y for y in d['cstates']['set'] if str(y[0]) == str(handle)), None)
                return self.it.p(x[7]) if x else 0
            if op['k'] == 'location':
                dh = next(h for h, t in self.inv[case['mdib']]['types'].items() if t == 'LocationContextDescriptor')
                g = new_gen[0] if new_gen else None
                ops.append(f'CLoc {self.it.h(dh)} {self.it.h(g) if g else 0} {pay(g)}')
            else:
                # fresh handles in the order in which the handler draws them: one per new-state proposal
                by_dh = {}
                for x in d['cstates']['set']:
                    if str(x[0]) in new_gen:
                        by_dh.setdefault(str(x[1]), []).append(str(x[0]))
                resolved = list(st.get('resolved') or [])
                resolved += ['no_such_state'] * (len(op['proposals']) - len(resolved))   # the client gave up earlier
                fresh, props = [], []
                for (_ref, assoc, _n, *rest), handle in zip(op['proposals'], resolved):
                    pdh = rest[0] if rest else op['dh']
                    ph = handle
                    if handle is None:
                        ph = by_dh.get(pdh, []).pop(0) if by_dh.get(pdh) else None
                        if ph is not None:
                            fresh.append(self.it.h(ph))
                        else:
                            spare += 1
                            fresh.append(spare)
                    hh = 'None' if handle is None else f'(Some {self.it.h(handle)})'
                    acode = ASSOC[assoc]
                    if handle is not None and assoc is None and str(handle) in tb.t['cstates']:
                        # the proposal object is a copy of the consumer's current state: its association is kept
                        acode = ASSOC[tb.t['cstates'][str(handle)][4]]
                    props.append(f'mkProp {self.it.h(pdh)} {hh} {acode} {pay(ph)}')
                while len(fresh) < 3:
                    spare += 1
                    fresh.append(spare)
                ops.append(f'CSet [{"; ".join(map(str, fresh))}] [{"; ".join(props)}]')
            exp.append((0 if st['res'] == 'ok' else 1, d['ver'],
                        [(self.it.h(x[0]), self.enc_c(x)) for x in d['cstates']['set']] +
                        [(self.it.h(h), []) for h in d['cstates']['del']]))
            tb.apply(d)
        universe = sorted(self.it.handles.values())
        ulit = '[' + '; '.join(str(u) for u in universe) + ']'

        def dl(lst):
            lst = sorted(lst, key=lambda e: e[0])
            return '[' + '; '.join(f'({h}, [{"; ".join(str(v) for v in enc)}])' for h, enc in lst) + ']'
        explit = '([' + '; '.join(f'({c}, {v}, {dl(a)})' for c, v, a in exp) + '] : list ctxobs)'
        return name, ulit, '([' + '; '.join(ops) + '] : list cop)', explit


def run(ctx):
    if not ctx.prove():
        ctx.broken('theorem', 'Props/C10.v', ctx.proof_error)
    ncases, nops = ctx.n(48, 700), ctx.n(10, 40)
    cases = [gen_case(random.Random(ctx.rng.getrandbits(48)), random.Random(i).randint(max(3, nops // 2), nops),
                      FILE if i % 3 else 'mdib_two_mds.xml')
             for i in range(ncases)]
    crafted = crafted_cases()
    cases = crafted + cases[:max(0, len(cases) - len(crafted))]
    batches = [cases[i:i + 6] for i in range(0, len(cases), 6)]
    with ThreadPoolExecutor(max_workers=12) as ex:
        outs = list(ex.map(lambda b: ctx.impl('mdib_impl', {'cases': b}, timeout=900), batches))
    pairs = []
    for b, o in zip(batches, outs):
        if o.get('_crash'):
            ctx.broken('correspondence', 'context: implementation run crashed', o['stderr'][-800:])
            continue
        for c, r in zip(b, o['results']):
            if 'crash' in r:
                ctx.broken('correspondence', 'context: implementation run crashed', r['crash'][-800:])
            else:
                pairs.append((c, r))
    hist = {'location': 0, 'new': 0, 'update': 0, 'multi': 0, 'multi_ok': 0, 'proposals_for_location_descriptor': 0, 'failed': 0, 'assoc_transitions': 0}
    for c, r in pairs:
        for op, st in zip(c['ops'], r['trace']):
            if op['k'] == 'location':
                hist['location'] += 1
            elif op.get('multi'):
                hist['multi'] += 1
                hist['multi_ok'] += st['res'] == 'ok'
            elif op['proposals'][0][0] is None:
                hist['new'] += 1
            else:
                hist['update'] += 1
            hist['failed'] += st['res'] != 'ok'
            hist['proposals_for_location_descriptor'] += sum(1 for p in op.get('proposals', []) if len(p) > 3 and p[3] == LH)
            hist['assoc_transitions'] += sum(1 for x in st['prov']['cstates']['set'] if x[4] in ('Assoc', 'Dis'))
        first = None
        for n, why in oracle(c, r):
            if first is None or n == first:
                first = n
                import re
                clause = re.sub(r"'[^']*'|\[[^\]]*\]|[0-9a-fx_.A-Za-z]*[0-9][0-9a-fx_.A-Za-z]*", '#', why)[:60]
                short = dict(c)
                short['ops'] = c['ops'][:n + 1]
                ctx.fail(f'context: step {n} {mdibcheck.json_short(c["ops"][n])} -> {why}',
                         {'clause': clause, 'op': c['ops'][n]['k'] + ('/multi' if c['ops'][n].get('multi') else '')},
                         {'stream': 'context', 'case': short, 'failing_step': n, 'impl_trace_tail': r['trace'][max(0, n - 1):n + 1]})
    tr = CtxTranslator({f: mdibcheck.inventory(ctx, f) for f in FILES})
    lits = []
    for c, r in pairs:
        name, u, h, e = tr.ctx_case(c, r)
        lits.append((f'({name}, {u}, {h})', e))
    header = HEADER + '\n'.join(tr.init_defs.values())
    runf = "fun c => let '(m, u, h) := c in ctxrun u m h"
    mism, err = ctx.coq_mism('context', header, 'ctxtrace_eqb', runf, lits, shard=8, deps=['Mdib/CtxRun.vo'])
    if err:
        ctx.broken('correspondence', 'context (coq evaluation)', err[-1500:])
    if mism:
        i = mism[0]
        import re
        out = ctx.coq_eval(header, f'({runf}) {lits[i][0]}')
        ctx.broken('correspondence', 'context: model vs implementation',
                   {'disagreements': len(mism), 'first_case': pairs[i][0], 'expected(impl)': lits[i][1][:2500],
                    'model': re.sub(r'\s+', ' ', out)[-2500:]})
    ctx.count('context', len(pairs), [repr(r['trace']) for _, r in pairs], histogram=hist)
    if pairs:
        c, r = pairs[0]
        ctx.sample({'stream': 'context', 'ops': c['ops'][:4],
                    'context_table_changes': [s['prov']['cstates']['set'] for s in r['trace'][:4]]})
    if ctx.thorough:
        hits = ctx.gate_grep(['Mdib', 'Common'])
        if hits:
            ctx.broken('theorem', 'grep gate', hits)
        ctx.coqchk('SDC.Props.C10')
    return ctx.finish(
        rule='random sequences of set_location and SetContextState operations for the patient and the location context descriptor (new / updated / associated / disassociated / '
             'pre-associated / unspecified association, unknown handles, two proposals in one request) invoked through the '
             'real consumer context service client and processed by the tutorial GenericContextProvider on the loop-back '
             'world; after every operation the provider context table is judged by the oracle (at most one associated '
             'state per descriptor, binding / unbinding versions equal the commit version, handles unique, failed '
             'operations change nothing) and compared with the Coq model; distinct = distinct implementation traces',
        assumptions=['uuid4 handles are fresh (freshness oracle: the model receives the generated handle)',
                     'BindingStartTime / BindingEndTime: only their presence is observed (clock values are outside the model)'],
        trusted_base=['harness/impl/mdib_impl.py do_setctx / do_location', 'harness/mdibmodel.py + CtxTranslator in harness/props/c10.py'],
        not_modelled=['the SCO worker thread / invocation reports (C09)', 'only the patient context has a SetContextState '
                      'operation in the test MDIB; location changes go through set_location'])
