"""C05 - BICEPS / WS-* data types round-trip losslessly through schema-valid XML (DESIGN.md section 4, C05).

translator  gen_schema : class table (244+ classes, ~1290 property declarations, 48 descriptor classes -> 12 kinds)
                         + element order of the matching XSD types -> coq/XmlStruct/Gen_Schema.v (fail-closed)
stream `classes`: for EVERY class: generated instances from the SCHEMA value space (present / absent optionals, list
                  lengths 0-3, every enum member, xsi:type substitutions, XML-legal strings incl. non-ASCII and
                  characters that need escaping) -> as_etree_node / mk_node -> bytes -> parse -> from_node ->
                  canonical dump equal; second write byte-identical; bytes valid against the bundled XSD (+ one
                  wrapper element per named complex type); absent members = implied / default value and not the
                  class-level default object.  This oracle runs on the implementation alone.
                  Added after two seeded defects were missed: every value is written TWICE (outputs identical; first
                  output, value and - for values that were read - the source document unchanged by the later
                  write; value read from the first written TREE afterwards = value written); every document is also
                  read with optional parts REMOVED from the XML (some / all) and into POPULATED instances
                  (update_from_node on an instance read from another random document / on a generated instance;
                  State.from_node(node, descriptor), Descriptor.from_node(node, parent_handle)) and compared with
                  the fresh read; members whose attribute / element is absent in the document must hold the
                  implied / default value whatever the instance held before.
                  Round 4: a member absent in the XML must hold the value the SCHEMA documents for it (default= or
                  "The implied value SHALL be ..." in the xsd:documentation, 221 members; independent of the class
                  declaration; the translator emits the mismatches, Props/C05.v proves the list empty); the first
                  instances of every class are also written under non-default NAMESPACE configurations
                  (NamespaceHelper(default_ns=PM|MSG|EXT) with xsi:type on the root for containers; a default
                  namespace in the ns map, other prefixes, a namespace subset for data types): xsi:type resolves
                  to the class, value read back equal, second write identical, schema-valid.
                  Round 5 (read direction): every written document is re-serialised independently with the namespace
                  declaration of each xsi:type value MOVED onto the element that carries it (new local prefix) and
                  SHADOWED (a prefix the root binds to another namespace re-bound there), kept schema-valid; the
                  value read from it must equal the value read from the original.
stream `props`  : single descriptors (update_xml_value / get_py_value_from_node) on small trees vs. the kind model
                  XmlStruct.Model.run_prop (vm_compute).
stream `update` : the same cases, descriptor.update_from_node on an instance whose member is pre-set, vs.
                  XmlStruct.Instance.run_update; oracle: result = result on a fresh instance.
stream `get`    : the same cases, descriptor.__get__ on an instance that stores what the reader returned (values
                  include every falsy value of the member type: False, 0, 0.0, Decimal 0, '', first enum member)
                  vs. XmlStruct.Instance.run_get (policy GetIfNone); oracle: a stored value is returned as it is,
                  the implied value only when nothing is stored.  The classes stream compares written and read
                  values ALSO through attribute access (getattr, not the storage slots), checks getattr against the
                  stored value and against the value the reader finds in the document, and runs a falsy pass: every
                  member of every class set to every falsy value of its type, written, parsed, read via getattr.
stream `own`    : the opaque members (ext:Extension, wsa:ReferenceParameters / Metadata, any) under random sequences
                  of assign / parse / read / write, content of every document and of the value after every step vs.
                  XmlStruct.Instance.run_own (element ownership, attach mode Copy); oracle: no step changes an
                  existing document, a write does not change the value, the new document holds the value."""
import json

HEADER = ('From Coq Require Import List ZArith NArith Bool.\nImport ListNotations.\n'
          'From SDC Require Import XmlStruct.Model.\nOpen Scope Z_scope.')
HEADER_I = ('From Coq Require Import List ZArith NArith Bool.\nImport ListNotations.\n'
            'From SDC Require Import XmlStruct.Model XmlStruct.Instance.\nOpen Scope Z_scope.')


def judge_classes(ctx, res, seed, per_class):
    n_inst = n_ok = n_val = 0
    failing_classes = set()
    for key, r in res['results'].items():
        n_inst += r['n']
        n_ok += r['ok']
        n_val += r['validated']
        for f in r['fail']:
            failing_classes.add(key)
            member = f['member']
            if f['clause'] != 'not schema-valid':
                last = member.split('.')[-1].split('[')[0].split(':')[-1]
                member = last if 'schema documents' in f['clause'] else (f.get('descriptor') or last)
            ctx.fail(f'classes: {key}: {f["clause"]} ({f["member"]})',
                     {'stream': 'classes', 'clause': f['clause'], 'member': member},
                     {'stream': 'classes', 'case': {'class': key, 'seed': seed, 'per_class': per_class},
                      'oracle': {'verdict': 'fail', 'clause': f['clause'], 'member': f['member']},
                      'detail': f['detail']})
    return n_inst, n_ok, n_val, failing_classes


def run(ctx):
    gen = ctx.impl('gen_schema', {})
    if gen.get('_crash') or 'text' not in gen:
        ctx.broken('translator', 'gen_schema', gen.get('stderr', gen))
    else:
        if ctx.write_generated('XmlStruct/Gen_Schema.v', gen['text']):
            ctx.log('regenerated XmlStruct/Gen_Schema.v (content changed)')
        ctx.cov.setdefault('generated', []).append('XmlStruct/Gen_Schema.v')
        ctx.cov['schema'] = {k: gen[k] for k in ('n_classes', 'n_props', 'n_descriptor_classes', 'n_mapped_to_schema')}
        ctx.cov['schema']['unconstructible_classes'] = [b[1] for b in gen['broken']]
        ctx.cov['schema']['members_with_documented_implied_value'] = gen.get('n_schema_implied')
        ctx.cov['schema']['implied_value_mismatches'] = gen.get('implied_mismatch')
    if not ctx.prove():
        ctx.broken('theorem', 'Props/C05.v', ctx.proof_error)

    # ---------------------------------------------------------------- stream classes (oracle on the implementation)
    per_class = ctx.n(8, 160)
    seed = ctx.rng.randrange(1 << 30)
    res = ctx.impl('c05_impl', {'stream': 'classes', 'seed': seed, 'per_class': per_class}, timeout=3000)
    if res.get('_crash'):
        ctx.broken('correspondence', 'classes', res['stderr'])
    else:
        n_inst, n_ok, n_val, failing = judge_classes(ctx, res, seed, per_class)
        st = res['stats']
        ctx.count('classes', n_inst, res.get('digests', []),
                  classes=len(res['results']), instances_ok=n_ok, xsd_validated=n_val, classes_with_failures=len(failing),
                  falsy_value_cases=sum(r.get('falsy', 0) for r in res['results'].values()),
                  histogram={k: v for k, v in sorted(st.items())})
        ctx.sample({'stream': 'classes', 'seed': seed, 'per_class': per_class,
                    'one_class': next(iter(res['results'].items()))})

    # ---------------------------------------------------------------- stream props (model vs descriptors)
    count = ctx.n(1500, 30000)
    pseed = ctx.rng.randrange(1 << 30)
    pres = ctx.impl('c05_impl', {'stream': 'props', 'seed': pseed, 'count': count}, timeout=3000)
    if pres.get('_crash'):
        ctx.broken('correspondence', 'props', pres['stderr'])
    else:
        good = [c for c in pres['cases'] if 'crash' not in c]
        for c in pres['cases']:
            if 'crash' in c:
                ctx.broken('correspondence', 'props (case crashed)', c['crash'])
                break
        lits = [(c['input'], f'({c["tree"]}, {c["val"]})') for c in good]
        mism, err = ctx.coq_mism('props', HEADER, 'ores_eqb', 'run_prop', lits, shard=250, deps=['XmlStruct/Model.vo'])
        if err:
            ctx.broken('correspondence', 'props (coq evaluation)', err)
        if mism:
            i = mism[0]
            model = ctx.coq_eval(HEADER, f'run_prop {lits[i][0]}')
            by_desc = {}
            for j in mism:
                by_desc[good[j]['descriptor']] = by_desc.get(good[j]['descriptor'], 0) + 1
            ctx.broken('correspondence', 'props', {'disagreements': len(mism), 'by_descriptor': by_desc,
                                                   'first_case': good[i], 'model': model[-2500:]})
        hist = dict(pres['hist'])
        ctx.count('props', len(good), [c['input'] + c['tree'] for c in good], descriptor_classes=pres['descriptor_classes'],
                  histogram=hist, write_raised=sum(1 for c in good if not c['wrote']),
                  none_values=sum(1 for c in good if c['none_value']))
        if good:
            ctx.sample({'stream': 'props', 'case': {k: good[0][k] for k in ('member', 'descriptor', 'input', 'tree', 'val')}})
        # ------------------------------------------------------------ stream update (populated instance)
        for c in good:
            if c['stale']:
                ctx.fail(f'update: {c["member"]}: update_from_node on a populated instance differs from a fresh instance',
                         {'stream': 'update', 'clause': 'populated instance differs from fresh instance',
                          'descriptor': c['descriptor']},
                         {'stream': 'update', 'case': {'member': c['member'], 'descriptor': c['descriptor'],
                                                       'seed': pseed, 'count': count},
                          'oracle': {'verdict': 'fail', 'clause': 'reading into a populated instance = reading into a fresh instance'},
                          'detail': c['stale']})
        ulits = [(c['uinput'], c['upd']) for c in good]
        mism, err = ctx.coq_mism('update', HEADER_I, 'oval_eqb', 'run_update', ulits, shard=250,
                                 deps=['XmlStruct/Model.vo', 'XmlStruct/Instance.vo'])
        if err:
            ctx.broken('correspondence', 'update (coq evaluation)', err)
        if mism:
            i = mism[0]
            model = ctx.coq_eval(HEADER_I, f'run_update {ulits[i][0]}')
            by_desc = {}
            for j in mism:
                by_desc[good[j]['descriptor']] = by_desc.get(good[j]['descriptor'], 0) + 1
            ctx.broken('correspondence', 'update', {'disagreements': len(mism), 'by_descriptor': by_desc,
                                                    'first_case': {k: good[i][k] for k in ('member', 'descriptor', 'uinput', 'upd', 'stale')},
                                                    'model': model[-1500:]})
        ctx.count('update', len(good), [c['uinput'] for c in good],
                  reader_returned_none=sum(1 for c in good if c['read_none']),
                  differs_from_fresh=sum(1 for c in good if c['stale']))
        # ------------------------------------------------------------ stream get (attribute access)
        gcases = [c for c in good if c.get('get')]
        for c in gcases:
            if c['get']['wrong']:
                ctx.fail(f'get: {c["member"]}: attribute access does not return the value that is stored / implied',
                         {'stream': 'get', 'clause': 'attribute access differs from the stored value', 'descriptor': c['descriptor']},
                         {'stream': 'get', 'case': {'member': c['member'], 'descriptor': c['descriptor'], 'seed': pseed, 'count': count},
                          'oracle': {'verdict': 'fail', 'clause': 'the value read back (through attribute access) equals the value in the document'},
                          'detail': c['get']['wrong']})
        glits = [(c['get']['ginput'], c['get']['gout']) for c in gcases]
        mism, err = ctx.coq_mism('get', HEADER_I, 'val_eqb', 'run_get', glits, shard=400,
                                 deps=['XmlStruct/Model.vo', 'XmlStruct/Instance.vo'])
        if err:
            ctx.broken('correspondence', 'get (coq evaluation)', err)
        if mism:
            i = mism[0]
            by_desc = {}
            for j in mism:
                by_desc[gcases[j]['descriptor']] = by_desc.get(gcases[j]['descriptor'], 0) + 1
            ctx.broken('correspondence', 'get', {'disagreements': len(mism), 'by_descriptor': by_desc,
                                                 'first_case': {'member': gcases[i]['member'], **gcases[i]['get']},
                                                 'model': ctx.coq_eval(HEADER_I, f'run_get {glits[i][0]}')[-800:]})
        ctx.count('get', len(gcases), [c['get']['ginput'] for c in gcases],
                  member_has_implied_value=sum(1 for c in gcases if c['get']['has_implied']),
                  falsy_value_present=sum(1 for c in gcases if c['get']['falsy_present']),
                  falsy_present_and_implied=sum(1 for c in gcases if c['get']['falsy_present'] and c['get']['has_implied']),
                  nothing_stored_and_implied=sum(1 for c in gcases if c['read_none'] and c['get']['has_implied']))
    # ---------------------------------------------------------------- stream own (element ownership)
    ocount = ctx.n(600, 12000)
    oseed = ctx.rng.randrange(1 << 30)
    ores = ctx.impl('c05_impl', {'stream': 'own', 'seed': oseed, 'count': ocount}, timeout=3000)
    if ores.get('_crash'):
        ctx.broken('correspondence', 'own', ores['stderr'])
    else:
        good = [c for c in ores['cases'] if 'crash' not in c]
        for c in ores['cases']:
            if 'crash' in c:
                ctx.broken('correspondence', 'own (case crashed)', c['crash'])
                break
        for c in good:
            for clause, where in c['why']:
                ctx.fail(f'own: {c["member"]}: {clause} ({where})',
                         {'stream': 'own', 'clause': clause, 'descriptor': c['descriptor']},
                         {'stream': 'own', 'case': {'member': c['member'], 'descriptor': c['descriptor'], 'ops': c['input'],
                                                    'seed': oseed, 'count': ocount},
                          'oracle': {'verdict': 'fail', 'clause': clause, 'where': where}, 'trace': c['trace']})
        olits = [(c['input'], c['obs']) for c in good]
        mism, err = ctx.coq_mism('own', HEADER_I, 'obs_eqb', 'run_own', olits, shard=200,
                                 deps=['XmlStruct/Model.vo', 'XmlStruct/Instance.vo'])
        if err:
            ctx.broken('correspondence', 'own (coq evaluation)', err)
        if mism:
            i = mism[0]
            by_desc = {}
            for j in mism:
                by_desc[good[j]['descriptor']] = by_desc.get(good[j]['descriptor'], 0) + 1
            ctx.broken('correspondence', 'own', {'disagreements': len(mism), 'by_descriptor': by_desc,
                                                 'first_case': {k: good[i][k] for k in ('member', 'descriptor', 'input', 'trace')}})
        ops = {}
        for c in good:
            for k, v in c['ops'].items():
                ops[k] = ops.get(k, 0) + v
        ctx.count('own', len(good), [c['input'] + c['obs'] for c in good], histogram=dict(ores['hist']), operations=ops,
                  two_consecutive_writes_of_nonempty_value=sum(1 for c in good if c['two_writes_of_nonempty_value']),
                  write_of_value_read_from_document=sum(1 for c in good if c['write_of_value_read_from_document']))
        if good:
            ctx.sample({'stream': 'own', 'case': {k: good[0][k] for k in ('member', 'descriptor', 'input', 'obs')}})
    if ctx.thorough:
        hits = ctx.gate_grep(['XmlStruct', 'Common'])
        if hits:
            ctx.broken('theorem', 'grep gate', hits)
        ctx.coqchk('SDC.Props.C05')
    return ctx.finish(
        rule='classes: per class N generated instances drawn from the schema value space; each is written, the bytes '
             'parsed, read, compared by a canonical dump (recursive over _props, current-timestamp excluded), written again '
             '(bytes identical), validated against the bundled XSD and checked for implied/default values of absent '
             'members; props: one descriptor per case (all descriptor classes in rotation), update_xml_value + '
             'get_py_value_from_node vs XmlStruct.Model.run_prop; update: the same descriptor cases, update_from_node on an '
             'instance whose member is pre-set vs XmlStruct.Instance.run_update, oracle = equal to the result on a fresh '
             'instance; get: descriptor.__get__ on the value the reader returned vs XmlStruct.Instance.run_get, oracle = a stored '
             'value (also a falsy one) is returned unchanged, the implied value only when nothing is stored; classes also '
             'compares through getattr and sets every member to every falsy value of its type (falsy pass); own: random assign/parse/read/write sequences on the opaque members vs XmlStruct.Instance.run_own, '
             'oracle = no step changes an existing document, a write leaves the value alone and the new document holds '
             'its content; classes additionally: every value written twice (outputs, earlier tree, value, source document '
             'compared), every document read with optional parts removed and into populated instances / through the '
             'from_node variants with a pre-set object, compared with the fresh read and with the implied/default values; '
             'absent members are also compared with the value the XSD documents (default= / implied value sentence); the '
             'first 3 instances per class are written under non-default namespace configurations (default_ns, other '
             'prefixes, subset) with xsi:type and must resolve, read back equal, re-write identically and validate; '
             'distinct = distinct serialised instances that passed (sha1 of the bytes) / distinct descriptor cases / '
             'distinct operation traces',
        assumptions=['scalars are restricted to values whose text form is exact today (timestamps / durations multiples of '
                     '125 ms, decimals without exponent or trailing zeros): converter exactness is C18',
                     'mex_types.Metadata.from_node takes the PARENT of the wsx:Metadata element (harness wraps it); '
                     'eventing UnsubscribeResponse (no body by design), the abstract root ContainerBase and the SOAP '
                     'envelope classes (not in the anchors) are not run stand-alone',
                     'value equality = equality of canonical dumps; a str-valued Enum equals its string; None and an '
                     'empty ExtensionLocalValue / attribute list are the same value',
                     'element.text = QName(ns, ..) with ns = the DEFAULT namespace of the tree crashes this lxml (SIGSEGV, pure lxml '
                     'reproduction): QName-valued text members in the default namespace are skipped (counted) under '
                     'the default_ns configurations',
                     'C05_class_roundtrip is about values in normal form (valid): e.g. an empty struct for an '
                     'only-if-non-empty member is not in normal form'],
        trusted_base=['translator harness/impl/gen_schema.py (introspection of the descriptor instances) and the XSD index '
                      'harness/impl/xs_xsd.py', 'harness/impl/c05_impl.py + xs_gen.py + xs_lib.py (generator, canonical dump)',
                      'model evaluated inside Coq with vm_compute on generated case files'],
        not_modelled=['lxml serialisation and parsing, namespace prefix handling, XSD validation (exercised on the '
                      'implementation by the classes stream, not proved)',
                      'members bound to the node itself (msg_types Mds/Vmd/Channel.container, GetMdibResponse.Mdib): '
                      'outside wf_class, round-trip checked by the classes stream only',
                      'HeaderInformationBlock.reference_parameters and other attributes that are not declared properties',
                      'element ownership is modelled per opaque member (documents = content of the member\'s container '
                      'node); ownership inside nested values is exercised by the classes stream only'])


def replay(ctx, rep):
    case = rep.get('case', {})
    if rep.get('stream') in ('update', 'own', 'get'):
        stream = 'own' if rep['stream'] == 'own' else 'props'
        res = ctx.impl('c05_impl', {'stream': stream, 'seed': case.get('seed', 1), 'count': case.get('count', 600)})
        hits = [c for c in res.get('cases', []) if c.get('member') == case.get('member') and
                (c.get('why') if stream == 'own' else
                 c.get('stale') if rep['stream'] == 'update' else (c.get('get') or {}).get('wrong'))]
        print(json.dumps([{k: c.get(k) for k in ('member', 'descriptor', 'stale', 'get', 'why', 'input', 'trace')} for c in hits[:3]],
                         indent=1)[:6000])
        return 1 if hits else 0
    res = ctx.impl('c05_impl', {'stream': 'classes', 'seed': case.get('seed', 1), 'per_class': case.get('per_class', 8),
                                'only': [case.get('class')]})
    print(json.dumps(res, indent=1)[:6000])
    bad = any(r['fail'] for r in res.get('results', {}).values())
    return 1 if bad else 0
