"""C16 - location scopes round-trip; location filtering tolerates foreign scopes (DESIGN.md section 4, C16)."""
import json
import subprocess
import time
from concurrent.futures import ThreadPoolExecutor
import urllib.parse
from collections import Counter

from lib import Raw, coqlit

HEADER = ('From Coq Require Import List NArith Bool.\nImport ListNotations.\n'
          'From SDC Require Import Location.Quote Location.Loc Location.Prov Location.Gen_Loc.\nOpen Scope N_scope.')
DEPS = ['Location/Gen_Loc.vo', 'Location/Prov.vo']
K = 'loc_consts'

RESERVED = list(" /%&=+;#?:@[]~._-!$'()*,\\\"<>|^`{}")
NONASCII = ['é', 'ü', 'ß', '€', '℀', '�', '\U0001F600', '中', '\u0000', '\t', '\n', '\r',
            '\x7f', '\u0080']
PLAIN = 'abcdefghijklmnopqrstuvwxyzABCDEFGHIJKLMNOPQRSTUVWXYZ0123456789'


# ----------------------------------------------------------------------------- literals
def blit(s):
    """Coq literal (list N) of the UTF-8 encoding of a str."""
    return '[' + '; '.join(str(x) for x in s.encode('utf-8')) + ']'


def oblit(s):
    return 'None' if s is None else f'(Some {blit(s)})'


def bl(bs):
    return '[' + '; '.join(str(x) for x in bs) + ']'


def obl(bs):
    return 'None' if bs is None else f'(Some {bl(bs)})'


def loclit(d, default_root):
    root = d.get('root')
    return f'(mkLoc {blit(default_root if root is None else root)} [{"; ".join(oblit(v) for v in d["vals"])}])'


def parse_lit(p):
    if 'err' in p:
        return '(None, 0)' if p['err'] == 'scheme' else '(None, 1)'
    return f'(Some (mkLoc {bl(p["root"])} [{"; ".join(obl(v) for v in p["vals"])}]), 2)'


def b_(s):
    return None if s is None else list(s.encode('utf-8'))


PROV_T = ('option (list (option bytes) * list ident * option (list bytes * list parse_res * list (option bool)))')
PROV_EQB = ('option_eqb (prod_eqb (prod_eqb (list_eqb opt_bytes_eqb) (list_eqb ident_eqb)) (option_eqb (prod_eqb (prod_eqb '
            '(list_eqb bytes_eqb) (list_eqb parse_res_eqb)) (list_eqb (option_eqb Bool.eqb)))))')


# ----------------------------------------------------------------------------- generators
def gen_text(rng, kinds):
    n = rng.choice([1, 1, 2, 3, 4, 6, 9])
    out = []
    for _ in range(n):
        k = rng.choice(kinds)
        if k == 'plain':
            out.append(''.join(rng.choice(PLAIN) for _ in range(rng.randint(1, 4))))
        elif k == 'reserved':
            out.append(rng.choice(RESERVED))
        elif k == 'nonascii':
            out.append(rng.choice(NONASCII))
        elif k == 'escape':
            out.append(rng.choice(['%41', '%2F', '%2f', '%zz', '%', '%4', '%25', '%C3%A9', '%00', '+', '%2B', '%20']))
    return ''.join(out)


def gen_value(rng, hist=None):
    r = rng.random()
    if r < 0.28:
        kind, v = 'absent', None
    elif r < 0.33:
        kind, v = 'empty', ''
    elif r < 0.55:
        kind, v = 'plain', gen_text(rng, ['plain'])
    elif r < 0.75:
        kind, v = 'reserved', gen_text(rng, ['plain', 'reserved', 'reserved'])
    elif r < 0.88:
        kind, v = 'nonascii', gen_text(rng, ['plain', 'nonascii', 'reserved'])
    else:
        kind, v = 'escape', gen_text(rng, ['plain', 'escape', 'reserved', 'nonascii'])
    if v == '' and kind != 'empty':
        v = 'x'
    if hist is not None:
        hist[kind] += 1
    return v


def gen_root(rng, hist=None):
    r = rng.random()
    if r < 0.6:
        kind, v = 'default', None
    elif r < 0.75:
        kind, v = 'plain', gen_text(rng, ['plain'])
    elif r < 0.9:
        kind, v = 'special', gen_text(rng, ['plain', 'reserved', 'nonascii', 'escape']).replace('/', '_') or 'r'
    elif r < 0.95:
        kind, v = 'slash', rng.choice(['a/b', '/a', 'a/', '/', 'a//b'])
    else:
        kind, v = 'empty', ''
    if hist is not None:
        hist['root-' + kind] += 1
    return v


def gen_loc(rng, n_el, hist=None, with_root=True):
    d = {'vals': [gen_value(rng, hist) for _ in range(n_el)]}
    d['root'] = gen_root(rng, hist) if with_root else None
    return d


def nonempty_fields(d):
    return all(v is None or v != '' for v in d['vals'])


def root_ok(d):
    r = d.get('root')
    return r is None or (r != '' and '/' not in r)


def gen_probe(rng, target, n_el, hist):
    """A probe location related to the target: enclosing (subset of elements), differing in one element, or random."""
    r = rng.random()
    vals = list(target['vals'])
    if r < 0.45:
        kind = 'enclosing'
        vals = [v if rng.random() < 0.5 else None for v in vals]
    elif r < 0.55:
        kind = 'same'
    elif r < 0.85:
        kind = 'differs'
        vals = [v if rng.random() < 0.6 else None for v in vals]
        i = rng.randrange(n_el)
        choice = rng.random()
        if choice < 0.5:
            vals[i] = (target['vals'][i] or '') + rng.choice(['x', ' ', '%', 'é'])
        elif choice < 0.7 and target['vals'][i]:
            vals[i] = target['vals'][i][:-1] or 'q'
        elif choice < 0.8:
            vals[i] = ''
        elif choice < 0.9 and target['vals'][i]:
            vals[i] = target['vals'][i].swapcase() if target['vals'][i].swapcase() != target['vals'][i] else target['vals'][i] + 'y'
        else:
            vals[i] = gen_value(rng) or 'z'
    else:
        kind = 'random'
        vals = [gen_value(rng) for _ in range(n_el)]
    root = None
    if rng.random() < 0.12:
        root = rng.choice(['myroot', '', 'sdc.ctxt.loc.detail ', 'SDC.CTXT.LOC.DETAIL'])
        kind += '+root'
    hist['probe-' + kind] += 1
    return {'root': root, 'vals': vals}


def q(s, safe=''):
    return urllib.parse.quote(s, safe=safe)


def gen_scope(rng, consts, target, hist):
    """A scope string another device might publish, rendered from structured components."""
    elements, scheme, default_root = consts['elements'], consts['scheme'], consts['default_root']
    if rng.random() < 0.25:
        # exactly what a conforming device publishes for the target location (both renderings of the library)
        present = [(e, v) for e, v in zip(elements, target['vals']) if v]
        if rng.random() < 0.5:
            seg = '%2F'.join(q(v or '') for v in target['vals'])
            qs = urllib.parse.urlencode(dict(present))
        else:
            seg = q('/'.join(q(v or '') for v in target['vals']))
            qs = urllib.parse.urlencode(dict(present), quote_via=urllib.parse.quote, safe='')
        hist['conforming'] += 1
        return f'{scheme}:/{default_root}/{seg}' + ('?' + qs if qs else '')
    r = rng.random()
    # --- scheme
    if r < 0.72:
        sch, sk = scheme, 'loc'
    elif r < 0.8:
        sch, sk = rng.choice([scheme.upper(), scheme.title(), scheme[:3].upper() + scheme[3:]]), 'loc-case'
    else:
        sch, sk = rng.choice(['sdc.ctxt.opr', 'sdc.mds.pkp', 'sdc.cdc.type', 'http', 'urn', '', '1abc', 'sdc.ctxt.loc2',
                              'sdc_ctxt_loc', 'sdc.ctxt.loc ', 'é', 'a+b-c.d']), 'other'
    colon = ':' if rng.random() < 0.95 else ''
    # --- authority
    r = rng.random()
    if r < 0.78:
        auth, ak = '', 'none'
    else:
        host = rng.choice(['host', 'h:80', 'u@h', '', '[::1]', '[::1]:80', '[x', 'x]', '][', '[1.2.3.4]', '[v1.x]', '[vz]',
                           '[fe80::1%25eth0]', 'a℀b', 'é', 'a／b', '℀', '[::1', 'a[b]c'])
        auth, ak = '//' + host, ('bracket' if ('[' in host or ']' in host) else 'nonascii' if not host.isascii() else 'plain')
    # --- path
    r = rng.random()
    nseg = 2 if r < 0.7 else rng.choice([0, 1, 1, 3, 3, 4, 6])
    segs = []
    for i in range(nseg):
        r = rng.random()
        if i == 0 and r < 0.6:
            segs.append(default_root)
        elif r < 0.75:
            segs.append(q(gen_text(rng, ['plain', 'reserved', 'nonascii'])))
        elif r < 0.85:
            segs.append('%2F'.join(q(v or '') for v in target['vals']))
        elif r < 0.9:
            segs.append('')
        else:
            segs.append(gen_text(rng, ['plain', 'reserved', 'escape']).replace('/', ''))
    lead = '/' if rng.random() < 0.93 else ''
    path = (lead + '/'.join(segs)) if nseg else rng.choice(['', '/'])
    if rng.random() < 0.04:
        path += '/'
    # --- query
    r = rng.random()
    pairs = []
    if r < 0.75:
        for e, v in zip(elements, target['vals']):
            if v is not None and rng.random() < 0.9:
                pairs.append((e, v))
    if rng.random() < 0.3:
        for _ in range(rng.randint(1, 3)):
            key = rng.choice(list(elements) + ['x', 'FAC', 'f%61c', 'f+ac', '', 'fac ', 'bed;rm'])
            pairs.insert(rng.randint(0, len(pairs)), (key, gen_value(rng)))
    rng.random() < 0.15 and rng.shuffle(pairs)
    fields = []
    for k_, v in pairs:
        enc = rng.choice([urllib.parse.quote_plus, urllib.parse.quote_plus, lambda s: q(s), lambda s: s])
        kk = k_ if '%' in k_ or '+' in k_ else enc(k_)
        if v is None:
            fields.append(kk)
        else:
            fields.append(kk + '=' + enc(v))
    sep = '&' if rng.random() < 0.9 else rng.choice([';', '&&', '&amp;'])
    query = sep.join(fields)
    if rng.random() < 0.05:
        query = rng.choice(['', '&', '=', '==', '&=&', 'fac', 'fac=', '=x', '%', '?fac=x'])
    text = sch + colon + auth + path + ('?' + query if (query or rng.random() < 0.05) else '')
    if rng.random() < 0.06:
        text += '#' + rng.choice(['', 'frag', '?fac=x', 'a/b'])
    # --- noise
    r = rng.random()
    nk = 'none'
    if r < 0.05:
        text, nk = rng.choice([' ', '\t', '\n ', '\x00', '\x1f']) + text, 'lead-ws'
    elif r < 0.08:
        i = rng.randrange(len(text) + 1)
        text, nk = text[:i] + rng.choice(['\t', '\n', '\r']) + text[i:], 'embedded-ws'
    elif r < 0.14 and text:
        i = rng.randrange(len(text) + 1)
        text, nk = text[:i] + rng.choice(list('%/?#&=[]:+ ')) + text[i:], 'insert'
    elif r < 0.18 and text:
        i = rng.randrange(len(text))
        text, nk = text[:i] + text[i + 1:], 'delete'
    elif r < 0.2:
        text, nk = ''.join(rng.choice(list('ab:/?#%[]&= é')) for _ in range(rng.randint(0, 12))), 'random'
    hist['scheme-' + sk] += 1
    hist['auth-' + ak] += 1
    hist[f'segments-{min(nseg, 4)}{"+" if nseg > 4 else ""}'] += 1
    hist['noise-' + nk] += 1
    return text


def gen_foreign(rng, consts, hist):
    n_el = len(consts['elements'])
    target = gen_loc(rng, n_el, with_root=False)
    r = rng.random()
    if r < 0.55:
        me = {'root': None, 'vals': [v if rng.random() < 0.5 else None for v in target['vals']]}
    elif r < 0.8:
        me = gen_probe(rng, target, n_el, Counter())
    else:
        me = gen_loc(rng, n_el)
    services = []
    for _ in range(rng.randint(1, 4)):
        if rng.random() < 0.1:
            services.append(None)
        else:
            services.append([gen_scope(rng, consts, target, hist) for _ in range(rng.choice([0, 1, 1, 2, 3]))])
    return {'self': me, 'services': services}


# ----------------------------------------------------------------------------- several scopes per service / provider path
def gen_distinct_vals(rng, n_el, avoid=()):
    """Element values that are present with p=0.75, non-empty and pairwise DISTINCT (so that swaps show)."""
    while True:
        used, vals = set(avoid), []
        for _ in range(n_el):
            if rng.random() < 0.25:
                vals.append(None)
                continue
            while True:
                v = gen_value(rng)
                if v and v not in used:
                    break
            used.add(v)
            vals.append(v)
        if any(v is not None for v in vals):
            return vals


def encloses(pvals, tvals):
    return all(pv is None or pv == tv for pv, tv in zip(pvals, tvals))


def render_loc_scope(rng, consts, root, vals):
    """The two renderings the library itself produces for a location (scope_string / mk_scopes)."""
    present = [(e, v) for e, v in zip(consts['elements'], vals) if v]
    if rng.random() < 0.5:
        seg = '%2F'.join(q(v or '') for v in vals)
        qs = urllib.parse.urlencode(dict(present))
        rq = q(root, safe='/')
    else:
        seg = q('/'.join(q(v or '') for v in vals))
        qs = urllib.parse.urlencode(dict(present), quote_via=urllib.parse.quote, safe='')
        rq = q(root)
    return f'{consts["scheme"]}:/{rq}/{seg}' + ('?' + qs if qs else '')


OTHER_SCOPES = ['sdc.mds.pkp:1.2.840.10004.20701.1.1', 'sdc.cdc.type:/urn:oid:1.2/12345', 'sdc.ctxt.opr:/r/e', 'http://h/p?fac=x',
                'urn:x', '', 'sdc.ctxt.ens:/biceps.uri.unk/e?fac=a']
BAD_LOC_SCOPES = ['sdc.ctxt.loc:', 'sdc.ctxt.loc:/a', 'sdc.ctxt.loc:/a/b/c', 'sdc.ctxt.loc:a/b', 'sdc.ctxt.loc://[x/a/b',
                  'sdc.ctxt.loc:/a/b/c/d?fac=x', 'SDC.CTXT.LOC:/onlyroot']


def gen_multi(rng, consts, hist):
    """Services that publish SEVERAL location scopes (0..3) mixed with foreign / malformed scopes; the expected
    verdict follows from the statement alone: kept iff some location scope is for a location the own one encloses."""
    n_el = len(consts['elements'])
    default_root = consts['default_root']
    base = gen_distinct_vals(rng, n_el)
    r = rng.random()
    if r < 0.55:
        me_vals = [v if rng.random() < 0.5 else None for v in base]
    elif r < 0.7:
        me_vals = list(base)
    else:
        me_vals = [v if rng.random() < 0.6 else None for v in base]
        i = rng.randrange(n_el)
        me_vals[i] = (base[i] or '') + rng.choice(['x', '?', ' '])
    me_root = None if rng.random() < 0.85 else 'myroot'
    services, expect = [], []
    for _ in range(rng.randint(1, 3)):
        if rng.random() < 0.06:
            services.append(None)
            expect.append(False)
            continue
        entries = []
        n_loc = rng.choice([0, 1, 2, 2, 3, 3])
        for _k in range(n_loc):
            r = rng.random()
            if r < 0.4:
                tv, kind = list(base), 'base'
            elif r < 0.75:
                tv, kind = list(base), 'one-differs'
                i = rng.randrange(n_el)
                tv[i] = (tv[i] + 'y') if tv[i] and rng.random() < 0.7 else (None if tv[i] else 'zz')
                if not any(tv):
                    tv[i] = 'zz'
            elif r < 0.85:
                tv, kind = list(base), 'swapped'
                i, j = rng.sample(range(n_el), 2)
                tv[i], tv[j] = tv[j], tv[i]
            else:
                tv, kind = gen_distinct_vals(rng, n_el), 'random'
            root = default_root if rng.random() < 0.8 else rng.choice(['myroot', 'urn:oid:1.2', 'r t'])
            inside = (root == (default_root if me_root is None else me_root)) and encloses(me_vals, tv)
            entries.append((render_loc_scope(rng, consts, root, tv), inside, kind))
        for _k in range(rng.choice([0, 0, 1, 2])):
            t = rng.choice(OTHER_SCOPES + BAD_LOC_SCOPES)
            if rng.random() < 0.3:      # the matching location, but under another scheme: must not count
                t = render_loc_scope(rng, consts, default_root, base).replace(consts['scheme'] + ':', 'sdc.ctxt.opr:', 1)
            entries.append((t, False, 'noise'))
        rng.shuffle(entries)
        services.append([e[0] for e in entries])
        expect.append(any(e[1] for e in entries))
        pos = [i for i, e in enumerate(entries) if e[1]]
        hist[f'multi:loc-scopes={n_loc}'] += 1
        hist[f'multi:scopes={min(len(entries), 5)}'] += 1
        hist['multi:first-match-at=' + (str(pos[0]) if pos else 'none')] += 1
        hist[f'multi:matching={len(pos)}'] += 1
    return {'self': {'root': me_root, 'vals': me_vals}, 'services': services, 'expect': expect}


EXTRA_ROOTS = ['urn:oid:1.3.6.1.4.1.99', 'myroot', 'a/b', '', None, 'r t', 'é', 'sdc.ctxt.loc.detail2']
EXTRA_EXTS = ['ward-7/bed-3', 'e', 'x y', None, '', '?q=1', 'é']
INITS = ['fresh', 'detail-none', 'updated-before', 'none-then-updated', 'idents-before']


def gen_provider(rng, consts, hist):
    n_el = len(consts['elements'])
    vals = gen_distinct_vals(rng, n_el)
    init = rng.choice(INITS)
    c = {'vals': vals, 'init': init, 'prior': None, 'extra': []}
    if init in ('updated-before', 'none-then-updated'):
        c['prior'] = gen_distinct_vals(rng, n_el, avoid=[v for v in vals if v])
    n_extra = rng.choice([0, 0, 1, 1, 2]) if init != 'idents-before' else rng.choice([1, 2])
    for k in range(n_extra):
        c['extra'].append({'root': rng.choice(EXTRA_ROOTS), 'ext': rng.choice(EXTRA_EXTS), 'at': rng.randint(0, k + 1)})
    present = [i for i, v in enumerate(vals) if v is not None]
    probes = [{'root': None, 'vals': list(vals)}, {'root': None, 'vals': [None] * n_el}]
    for i in present:
        probes.append({'root': None, 'vals': [vals[i] if j == i else None for j in range(n_el)]})      # enclosing
        d = list(vals)
        d[i] = vals[i] + rng.choice(['?', 'x', ' '])
        probes.append({'root': None, 'vals': d})                                                       # differs in i
        j = rng.choice([j for j in range(n_el) if j != i])
        probes.append({'root': None, 'vals': [vals[i] if k == j else None for k in range(n_el)]})      # value in the wrong slot
    probes.append({'root': None, 'vals': [v if rng.random() < 0.5 else None for v in vals]})
    if c['extra'] and rng.random() < 0.7:
        x = rng.choice(c['extra'])
        probes.append({'root': x['root'] if x['root'] is not None else 'biceps.uri.unk', 'vals': [v if rng.random() < 0.5 else None for v in vals]})
    if rng.random() < 0.3:
        probes.append({'root': 'otherroot', 'vals': [None] * n_el})
    c['probes'] = probes
    hist['provider:init=' + init] += 1
    hist[f'provider:extra-idents={n_extra}'] += 1
    hist[f'provider:elements-set={len(present)}'] += 1
    return c


# ----------------------------------------------------------------------------- run
def run(ctx):
    # a translator that fails closed marks the run as broken; the oracles below still run on the implementation
    # (with the constants read directly) so that a concrete failing input is found; the model is not consulted then
    model_ok = ctx.regenerate('gen_location_consts', 'Location/Gen_Loc.v')
    consts = ctx.impl('gen_location_consts', {}) if model_ok else {}
    if 'elements' not in consts:
        model_ok = False
        base = ctx.impl('c16_impl', {})
        if base.get('_crash'):
            ctx.broken('correspondence', 'implementation run', base['stderr'])
            return ctx.finish('implementation cannot be loaded', [], [])
        consts = {'elements': base['elements'], 'scheme': base['scheme'], 'default_root': base['default_root'],
                  'ident_root': base['ident_root'] or base['default_root']}
    n_el = len(consts['elements'])
    default_root = consts['default_root']
    if not ctx.prove():
        ctx.broken('theorem', 'Props/C16.v', ctx.proof_error)

    hist = Counter()
    rt_cases = [gen_loc(ctx.rng, n_el, hist) for _ in range(ctx.n(3000, 60000))]
    # corner cases always present
    rt_cases[:0] = [{'root': None, 'vals': [None] * n_el}, {'root': None, 'vals': [''] * n_el},
                    {'root': None, 'vals': ['a b+c&d=e;f#g?h/i%j', None, None, 'é\U0001F600', None, '%2F'][:n_el]}]
    pub_cases = []
    for _ in range(ctx.n(1200, 20000)):
        target = gen_loc(ctx.rng, n_el, hist, with_root=False)
        c = {'vals': target['vals'], 'ident_root': 'keep', 'ident_ext': 'keep',
             'probes': [gen_probe(ctx.rng, target, n_el, hist) for _ in range(ctx.rng.randint(1, 4))]}
        r = ctx.rng.random()
        if r < 0.12:
            c['ident_root'] = ctx.rng.choice([None, '', ' ', '/', '%', '&', 'some_string', 'a/b', 'é', '[', 'x?y#z'])
        elif r < 0.16:
            c['ident_ext'] = ctx.rng.choice([None, '', 'ext', 'a/b', '?q=1'])
        hist['published-' + ('override' if r < 0.16 else 'as-written')] += 1
        pub_cases.append(c)
    # corner cases always present: nothing / only empty strings set (update_from_sdc_location must refuse), one element
    for vals in ([None] * n_el, [''] * n_el, [None, ''] * (n_el // 2), [None] * (n_el - 1) + ['x'], ['/'] + [None] * (n_el - 1)):
        pub_cases.insert(0, {'vals': vals, 'ident_root': 'keep', 'ident_ext': 'keep',
                             'probes': [{'root': None, 'vals': vals}, {'root': None, 'vals': [None] * n_el}]})
    fhist = Counter()
    fo_cases = [gen_foreign(ctx.rng, consts, fhist) for _ in range(ctx.n(3000, 60000))]
    # the two witnesses of DESIGN section 6 row 16 are always present
    fo_cases[:0] = [{'self': {'root': None, 'vals': [None] * n_el}, 'services': [['sdc.ctxt.loc:/a/b/c']]},
                    {'self': {'root': None, 'vals': [None] * n_el}, 'services': [['sdc.ctxt.loc://[x/a/b']]},
                    {'self': {'root': None, 'vals': [None] * n_el}, 'services': [['sdc.ctxt.loc://a℀b/x/y']]}]

    n_fo_plain = len(fo_cases)
    fo_cases += [gen_multi(ctx.rng, consts, fhist) for _ in range(ctx.n(1500, 30000))]
    phist = Counter()
    pr_cases = [gen_provider(ctx.rng, consts, phist) for _ in range(ctx.n(900, 15000))]

    t0 = time.time()
    impl = ctx.impl('c16_impl', {'roundtrip': rt_cases, 'published': pub_cases, 'foreign': fo_cases, 'provider': pr_cases},
                    timeout=1200)
    ctx.log(f'implementation run: {time.time() - t0:.1f}s for {len(rt_cases)}+{len(pub_cases)}+{len(fo_cases)}+{len(pr_cases)} cases')
    if impl.get('_crash'):
        ctx.broken('correspondence', 'implementation run', impl['stderr'])
        return ctx.finish('implementation run crashed', [], [])

    exe, log = ctx.ocaml_driver('Extract/Extract_Location.v', 'location_model', 'driver_c16') if model_ok else (None, '')
    if exe is None and model_ok:
        ctx.broken('correspondence', 'extraction/driver build', log[-1500:])
    n_coq = ctx.n(60, 400)           # per stream: cases additionally evaluated inside Coq (cross-check of the extraction)

    def compare(stream, items, eqb, runf, describe):
        """items: list of dicts {line, want, lit_in, lit_out, info}.  Full volume through the extracted model,
        the first n_coq through vm_compute inside Coq."""
        if not model_ok:
            return
        if exe:
            out = subprocess.run([exe], input='\n'.join(it['line'] for it in items) + '\n', capture_output=True,
                                 text=True, timeout=1800)
            got = out.stdout.splitlines()
            if out.returncode != 0 or len(got) != len(items):
                ctx.broken('correspondence', f'{stream} (extracted model run)', (out.stderr or out.stdout)[-800:])
            else:
                diffs = [i for i, (it, g) in enumerate(zip(items, got)) if it['want'] != g]
                if diffs:
                    i = diffs[0]
                    ctx.broken('correspondence', stream, {'disagreements': len(diffs), 'of': len(items),
                                                          'first': dict(describe(items[i]), model=got[i][:1500],
                                                                        impl_canonical=items[i]['want'][:1500])})
        sub = items[:n_coq]
        coq_jobs.append((stream, sub, eqb, runf, describe))

    def run_coq_job(job):
        stream, sub, eqb, runf, describe = job
        mism, err = ctx.coq_mism(stream.replace('-', ''), HEADER, eqb, runf, [(it['lit_in'], it['lit_out']) for it in sub],
                                 deps=DEPS, shard=30)
        return stream, sub, runf, describe, mism, err

    coq_jobs = []

    def hx(text):
        return text.encode('utf-8').hex() or '-'

    def hxo(text):
        return '~' if text is None else hx(text)

    def hxb(bs):
        return bytes(bs).hex() or '-'

    def hxbo(bs):
        return '~' if bs is None else hxb(bs)

    def loc_line(d):
        return ' '.join([hx(default_root if d.get('root') is None else d['root'])] + [hxo(v) for v in d['vals']])

    def parse_line(p):
        if 'err' in p:
            return 'S' if p['err'] == 'scheme' else 'V'
        return 'O ' + hxb(p['root']) + ' ' + ' '.join(hxbo(v) for v in p['vals'])

    # ------------------------------------------------------------------ stream 1: round trip
    items, keys = [], []
    n_claim = n_encode_err = 0
    for c, r in zip(rt_cases, impl['roundtrip']):
        if r['scope'] is None:            # quote() cannot encode (not generated: lone surrogates)
            n_encode_err += 1
            continue
        claim = nonempty_fields(c) and root_ok(c)
        if claim:
            n_claim += 1
            p = r['parse']
            want_root = list((default_root if c['root'] is None else c['root']).encode())
            want_vals = [None if v is None else list(v.encode()) for v in c['vals']]
            if 'err' in p or p['root'] != want_root or p['vals'] != want_vals:
                ctx.fail(f'location does not survive scope_string -> from_scope_string: {c} -> {r["text"]!r} -> {p}',
                         {'stream': 'roundtrip', 'clause': 'roundtrip', 'result': p.get('err', 'different-location')},
                         {'stream': 'roundtrip', 'case': c, 'impl_trace': r,
                          'oracle': {'verdict': 'fail', 'clause': 'from_scope_string(l.scope_string) == l'}})
        items.append({'line': 'R ' + loc_line(c), 'want': hxb(r['scope']) + ' ' + parse_line(r['parse']),
                      'lit_in': loclit(c, default_root), 'lit_out': f'({bl(r["scope"])}, {parse_lit(r["parse"])})',
                      'case': c, 'impl': {'text': r['text'], 'parse': r['parse']}})
        keys.append(r['text'])
    compare('roundtrip', items, 'prod_eqb bytes_eqb parse_res_eqb', f'run_roundtrip {K}',
            lambda it: {'case': it['case'], 'impl': it['impl']})
    ctx.count('roundtrip', len(items), keys, claim_applies=n_claim, encode_errors=n_encode_err,
              parse_outcomes=dict(Counter(it['impl']['parse'].get('err', 'ok') for it in items)))
    ctx.sample({'stream': 'roundtrip', 'case': rt_cases[2], 'scope': impl['roundtrip'][2].get('text'),
                'parse': impl['roundtrip'][2].get('parse')})

    # ------------------------------------------------------------------ stream 2: published scope vs. enclosing locations
    items, keys = [], []
    verdicts = Counter()
    n_claim = 0
    for c, r in zip(pub_cases, impl['published']):
        target = {'root': None, 'vals': c['vals']}
        if r['state'].startswith('mk_scopes-raise'):
            ctx.broken('correspondence', 'published', {'case': c, 'impl': r})
            continue
        badl = []
        if r['state'] == 'ok':
            badl = [s_ for s_, v in zip(r['scopes'], r['split']) if v == 'bad']
            plain = c['ident_root'] == 'keep' and c['ident_ext'] == 'keep'
            for p, row in zip(c['probes'], r['inside']):
                for text, got in zip(r['texts'], row):
                    verdicts[str(got)] += 1
                    if isinstance(got, str):
                        ctx.fail(f'_scope_string_matches raised on a scope published by mk_scopes: {text!r}',
                                 {'stream': 'published', 'clause': 'total', 'result': got},
                                 {'stream': 'published', 'case': c, 'probe': p, 'scope': text, 'impl_trace': r,
                                  'oracle': {'verdict': 'fail', 'clause': 'no exception'}})
                        continue
                    if not plain or not nonempty_fields(target):
                        continue
                    n_claim += 1
                    want = (p['root'] in (None, consts['ident_root'])) and \
                        all(pv is None or pv == tv for pv, tv in zip(p['vals'], c['vals']))
                    if got != want:
                        ctx.fail(f'published scope {text!r} of {c["vals"]} must {"" if want else "not "}be inside {p}, '
                                 f'_scope_string_matches says {got}',
                                 {'stream': 'published', 'clause': 'inside' if want else 'not-inside'},
                                 {'stream': 'published', 'case': c, 'probe': p, 'scope': text, 'impl_trace': r,
                                  'oracle': {'verdict': 'fail', 'clause': 'inside iff every specified element equal'}})
            exp = ('(Some ([' + '; '.join(bl(s_) for s_ in r['scopes']) + '], [' +
                   '; '.join('[' + '; '.join('None' if isinstance(g, str) else f'(Some {coqlit(g)})' for g in row) + ']'
                             for row in r['inside']) + ']))')
            want_line = (f'Y {len(r["scopes"])}' + ''.join(' ' + hxb(s_) for s_ in r['scopes']) +
                         ''.join(' |' + ''.join(' E' if isinstance(g, str) else (' T' if g else ' F') for g in row)
                                 for row in r['inside']))
        else:
            exp = '(None : option (list bytes * list (list (option bool))))'
            want_line = 'N'

        def ovr(x):
            return '(@None (option bytes))' if x == 'keep' else f'(Some {oblit(x)})'

        def ovr_tok(x):
            return 'k' if x == 'keep' else hxo(x)
        inp = (f'({loclit(target, default_root)}, {ovr(c["ident_root"])}, {ovr(c["ident_ext"])}, '
               f'[{"; ".join(loclit(p, default_root) for p in c["probes"])}], ([{"; ".join(bl(s_) for s_ in badl)}] : list bytes))')
        line = ' '.join(['P', loc_line(target), ovr_tok(c['ident_root']), ovr_tok(c['ident_ext']), str(len(c['probes']))] +
                        [loc_line(p) for p in c['probes']] + [str(len(badl))] + [hxb(s_) for s_ in badl])
        items.append({'line': line, 'want': want_line, 'lit_in': inp, 'lit_out': exp, 'case': c,
                      'impl': {k_: r.get(k_) for k_ in ('state', 'texts', 'inside')}})
        keys.append(json.dumps(c, sort_keys=True))
    eqb = ('option_eqb (prod_eqb (list_eqb bytes_eqb) (list_eqb (list_eqb (option_eqb Bool.eqb))))')
    runf = (f"fun c => let '(l, orr, oe, probes, badl) := c in run_published {K} true badl l orr oe probes")
    compare('published', items, eqb, runf, lambda it: {'case': it['case'], 'impl': it['impl']})
    ctx.count('published', len(items), keys, verdicts=dict(verdicts), oracle_claims=n_claim,
              state_raises=sum(1 for it in items if it['impl']['state'] == 'raise'))
    ctx.sample({'stream': 'published', 'case': pub_cases[-1], 'impl': {k_: impl['published'][-1].get(k_) for k_ in ('state', 'texts', 'inside')}})

    # ------------------------------------------------------------------ stream 3: foreign scopes into the filter
    items, keys, pitems = [], [], []
    n_oom = n_raise = n_multi_claims = n_multi_fail = 0
    kept_hist = Counter()
    pkinds = Counter()
    seen_scopes = set()
    for c, r in zip(fo_cases, impl['foreign']):
        flat = [t for sc in c['services'] if sc is not None for t in sc]
        if isinstance(r['kept'], str):
            n_raise += 1
            culprit = next((t for t in flat if r['parse'][t].get('err') == 'value'), None)
            kind = 'urlsplit' if culprit is not None and r['split'][culprit] != 'ok' else 'segments'
            ctx.fail(f'filter_services_inside raised {r["kept"]} ({r.get("msg")}) for a service publishing {culprit!r}',
                     {'stream': 'foreign', 'clause': 'total', 'result': r['kept'], 'cause': kind},
                     {'stream': 'foreign', 'case': c, 'impl_trace': {'kept': r['kept'], 'msg': r.get('msg')},
                      'oracle': {'verdict': 'fail', 'clause': 'filter_services_inside never raises'}})
        else:
            kept_hist[len(r['kept'])] += 1
            for i, sc in enumerate(c['services']):
                got = i in r['kept']
                per_scope = [] if sc is None else [r['match'][t] for t in sc]
                # a service with several scopes is inside iff SOME scope is (each judged alone by the implementation)
                if not any(isinstance(m, str) for m in per_scope) and got != any(per_scope):
                    n_multi_fail += 1
                    ctx.fail(f'filter_services_inside {"keeps" if got else "drops"} a service whose scopes {sc} are judged '
                             f'{per_scope} one by one (own location {c["self"]})',
                             {'stream': 'foreign', 'clause': 'some-scope-inside', 'kept': got},
                             {'stream': 'foreign', 'case': c, 'service': i, 'per_scope': per_scope,
                              'impl_trace': {'kept': r['kept'], 'match': r['match']},
                              'oracle': {'verdict': 'fail', 'clause': 'service inside iff some scope inside'}})
                if 'expect' in c:
                    n_multi_claims += 1
                    if got != c['expect'][i]:
                        ctx.fail(f'a service publishing {sc} must {"" if c["expect"][i] else "not "}be inside {c["self"]}: '
                                 f'filter_services_inside {"keeps" if got else "drops"} it',
                                 {'stream': 'multi', 'clause': 'inside' if c['expect'][i] else 'not-inside'},
                                 {'stream': 'foreign', 'case': c, 'service': i, 'impl_trace': {'kept': r['kept'], 'match': r['match']},
                                  'oracle': {'verdict': 'fail', 'clause': 'inside own / enclosing location iff some published '
                                                                          'location scope is; no other scope counts'}})
        clean = all(r['clean'][t] for t in flat)
        for t in flat:
            if t not in seen_scopes:
                seen_scopes.add(t)
                p = r['parse'][t]
                pkinds[p.get('err', 'ok') + ('' if r['split'][t] == 'ok' else '/' + r['split'][t])] += 1
                if r['clean'][t]:
                    bad = r['split'][t] == 'bad'
                    pitems.append({'line': f'X {int(bad)} {hx(t)}', 'want': parse_line(p),
                                   'lit_in': f'(([{blit(t) if bad else ""}] : list bytes), {blit(t)})',
                                   'lit_out': parse_lit(p), 'scope': t, 'impl': p})
        if not clean:
            n_oom += 1
            continue
        badl = [t for t in flat if r['split'][t] == 'bad']
        svl = '[' + '; '.join('None' if sc is None else '(Some [' + '; '.join(blit(t) for t in sc) + '])'
                              for sc in c['services']) + ']'
        inp = f'({loclit(c["self"], default_root)}, ({svl} : list service), ([{"; ".join(blit(t) for t in badl)}] : list bytes))'

        def sv_tok(sc):
            return '~' if sc is None else ','.join([str(len(sc))] + [hx(t) for t in sc])
        if isinstance(r['kept'], str):
            exp = '(None : option (list service))'
            want_line = 'E'
        else:
            exp = '(Some [' + '; '.join('(None : service)' if c['services'][i] is None else
                                         '(Some [' + '; '.join(blit(t) for t in c['services'][i]) + '])'
                                         for i in r['kept']) + '] : option (list service))'
            want_line = 'K' + ''.join(' ' + sv_tok(c['services'][i]) for i in r['kept'])
        line = ' '.join(['F', loc_line(c['self']), str(len(c['services']))] +
                        [('~' if sc is None else ' '.join([str(len(sc))] + [hx(t) for t in sc])) for sc in c['services']] +
                        [str(len(badl))] + [hx(t) for t in badl])
        items.append({'line': line, 'want': want_line, 'lit_in': inp, 'lit_out': exp, 'case': c,
                      'impl': {'kept': r['kept'], 'parse': r['parse']}})
        keys.append(json.dumps(c, sort_keys=True))
    runf = f"fun c => let '(me, svs, badl) := c in run_foreign {K} true badl me svs"
    compare('foreign', items, 'option_eqb (list_eqb service_eqb)', runf, lambda it: {'case': it['case'], 'impl': it['impl']})
    ctx.count('foreign', len(fo_cases), keys, compared_with_model=len(items), out_of_model_invalid_utf8=n_oom,
              impl_raised=n_raise, several_scope_cases=len(fo_cases) - n_fo_plain, several_scope_claims=n_multi_claims,
              kept_histogram={str(k_): v for k_, v in sorted(kept_hist.items())},
              generator_histogram=dict(sorted(fhist.items())))
    runp = f"fun c => run_parse {K} (fst c) (snd c)"
    compare('foreign-parse', pitems, 'parse_res_eqb', runp, lambda it: {'scope': it['scope'], 'impl': it['impl']})
    ctx.count('foreign-parse', len(pitems), [it['scope'] for it in pitems], parse_outcomes=dict(sorted(pkinds.items())),
              distinct_scopes=len(seen_scopes), out_of_model_invalid_utf8=len(seen_scopes) - len(pitems))
    # ------------------------------------------------------------------ stream 5: provider path end to end
    ident_root = consts['ident_root']
    items, keys = [], []
    pverd = Counter()
    n_claims = 0

    def identlit(root, ext):
        return f'(mkIdent {oblit(root)} {oblit(ext)})'

    def plit(p):
        return loclit(p, default_root)
    for c, r in zip(pr_cases, impl['provider']):
        sig = {'stream': 'provider', 'init': c['init']}

        def pfail(msg, clause, **extra):
            ctx.fail(msg, dict(sig, clause=clause), dict({'stream': 'provider', 'case': c, 'impl_trace': r,
                                                          'oracle': {'verdict': 'fail', 'clause': clause}}, **extra))
        want_vals = [b_(v) for v in c['vals']]
        if r['state'] != 'ok':
            pfail(f'location {c["vals"]} ({c["init"]}): {r["state"]} on the way to the published scopes', 'published-defined')
        else:
            d = r['detail']
            got_vals = None if d is None else [d[3], d[4], d[5], d[0], d[1], d[2]]      # Facility, Building, Floor, PoC, Room, Bed
            if got_vals != want_vals:
                pfail(f'update_from_sdc_location ({c["init"]}) of {c["vals"]} leaves LocationDetail '
                      f'(fac, bldng, flr, poc, rm, bed) = {[None if v is None else bytes(v).decode() for v in (got_vals or [])]}',
                      'state-copy')
            ids = [None]                                  # None = the fallback identifier written by the update
            if c['init'] != 'idents-before':
                for x in c['extra']:
                    ids.insert(x['at'], x)
            if len(r['texts']) != len(ids):
                pfail(f'{len(r["texts"])} location scopes published for {len(ids)} identifications', 'one-scope-per-identification')
            else:
                for x, text, p in zip(ids, r['texts'], r['parse']):
                    n_claims += 1
                    if 'err' in p:
                        if x is None:
                            pfail(f'published scope {text!r} of {c["vals"]} is not parsed back: {p}', 'readback')
                        continue
                    want_root = b_(ident_root if x is None else ('biceps.uri.unk' if x['root'] is None else x['root']))
                    if p['vals'] != want_vals or (x is None and p['root'] != want_root):
                        pfail(f'location {c["vals"]} ({c["init"]}) is published as {text!r}, which reads back as '
                              f'{[None if v is None else bytes(v).decode() for v in p["vals"]]} root {bytes(p["root"]).decode()!r}',
                              'readback', scope=text)
            roots = [ident_root] + [('biceps.uri.unk' if x['root'] is None else x['root'])
                                    for x in ids if x is not None and x['ext'] and x['root'] != '']   # '' root: '//ext' is an authority
            for p, got in zip(c['probes'], r['kept']):
                n_claims += 1
                pverd[str(got)] += 1
                if isinstance(got, str):
                    pfail(f'filter_services_inside raised on the scopes published by mk_scopes: {r["texts"]}', 'total', probe=p)
                    continue
                want = (default_root if p['root'] is None else p['root']) in roots and encloses(p['vals'], c['vals'])
                if got != want:
                    pfail(f'provider at {c["vals"]} ({c["init"]}, scopes {r["texts"]}) must {"" if want else "not "}be found '
                          f'inside {p}: filter_services_inside says {got}', 'inside' if want else 'not-inside', probe=p)
        # model side
        if c['init'] == 'idents-before':
            st0 = f'(mkPState [{"; ".join(identlit(x["root"], x["ext"]) for x in c["extra"])}] (Some empty_detail))'
            extras = '[]'
        else:
            st0 = '(mkPState [] None)' if c['init'] in ('detail-none', 'none-then-updated') else '(mkPState [] (Some empty_detail))'
            extras = '[' + '; '.join(f'({x["at"]}%nat, {identlit(x["root"], x["ext"])})' for x in c['extra']) + ']'
        prior = '(@None loc)' if c['prior'] is None else f'(Some {plit({"root": None, "vals": c["prior"]})})'
        others = r.get('others', [])
        badl = [t for t, v in zip(r.get('texts', []), r.get('split', [])) if v == 'bad']
        inp = (f'({st0}, {prior}, {plit({"root": None, "vals": c["vals"]})}, ({extras} : list (nat * ident)), '
               f'([{"; ".join(blit(t) for t in others)}] : list bytes), [{"; ".join(plit(p) for p in c["probes"])}], '
               f'([{"; ".join(blit(t) for t in badl)}] : list bytes))')
        if r['state'] == 'raise':
            exp = 'None'
        else:
            d = r['detail'] or [None] * 6
            dv = '[' + '; '.join(obl(v) for v in [d[3], d[4], d[5], d[0], d[1], d[2]]) + ']' if r['detail'] is not None else '[]'
            idl = '[' + '; '.join(f'(mkIdent {obl(a)} {obl(e)})' for a, e in r['idents']) + ']'
            if r['state'] == 'ok':
                x3 = ('(Some ([' + '; '.join(bl(s_) for s_ in r['scopes']) + '], [' + '; '.join(parse_lit(p) for p in r['parse']) +
                      '], [' + '; '.join('None' if isinstance(g, str) else f'(Some {coqlit(g)})' for g in r['kept']) + ']))')
            else:
                x3 = 'None'
            exp = f'(Some ({dv}, {idl}, {x3}))'
        exp = f'({exp} : {PROV_T})'
        items.append({'lit_in': inp, 'lit_out': exp, 'case': c, 'impl': {k_: r.get(k_) for k_ in ('state', 'texts', 'kept', 'parse')}})
        keys.append(json.dumps(c, sort_keys=True))
    ctx.count('provider', len(items), keys, oracle_claims=n_claims, verdicts=dict(pverd),
              generator_histogram=dict(sorted(phist.items())))
    if model_ok:
        coq_jobs.append(('provider', items[:ctx.n(90, 600)], PROV_EQB,
                         f"fun c => let '(st0, prior, l, extras, others, probes, badl) := c in "
                         f"run_provider {K} badl st0 prior l extras others probes",
                         lambda it: {'case': it['case'], 'impl': it['impl']}))
    ctx.sample({'stream': 'provider', 'case': pr_cases[0], 'impl': {k_: impl['provider'][0].get(k_) for k_ in ('state', 'texts', 'kept')}})

    # the same models evaluated inside Coq on the head of every stream (ties the extracted code to the .v files)
    if model_ok:
        ctx.coq_make(['Common/Corr.vo'] + DEPS)
    with ThreadPoolExecutor(max_workers=4) as ex:
        for stream, sub, runf, describe, mism, err in ex.map(run_coq_job, coq_jobs):
            if err:
                ctx.broken('correspondence', f'{stream} (coq evaluation)', err)
            for i in mism[:1]:
                ctx.broken('correspondence', f'{stream} (inside Coq)',
                           {'disagreements': len(mism), 'of': len(sub),
                            'first': dict(describe(sub[i]), model=ctx.coq_eval(HEADER, f'({runf}) {sub[i]["lit_in"]}')[-1500:])})
            ctx.cov['streams'][stream]['also_evaluated_inside_coq'] = len(sub)
    ctx.log(f'coq cross-check done, t={time.time() - t0:.1f}s')
    ctx.cov['generator_histogram'] = dict(sorted(hist.items()))
    k = next((i for i, r in enumerate(impl['foreign']) if not isinstance(r['kept'], str) and r['kept']), 0)
    ctx.sample({'stream': 'foreign', 'case': fo_cases[k], 'kept': impl['foreign'][k]['kept']})

    if ctx.thorough:
        hits = ctx.gate_grep(['Location', 'Common'])
        if hits:
            ctx.broken('theorem', 'grep gate', hits)
        ctx.coqchk('SDC.Props.C16')
    return ctx.finish(
        rule='roundtrip: generated locations (absent / empty / plain / reserved / non-ASCII / escape-like element values, '
             'default and custom roots) through the real scope_string and from_scope_string; scope text and parse result '
             'compared byte-wise with the model evaluated inside Coq; distinct = distinct scope texts.  published: '
             'update_from_sdc_location + mk_scopes (mock MDIB as in tests/test_scopesfactory.py) then '
             '_scope_string_matches of enclosing / differing / random probe locations; distinct = distinct cases.  '
             'foreign: services with scope lists rendered from structured components (scheme, authority, segment '
             'count, query shape, noise) into filter_services_inside; kept services compared with the model, every '
             'distinct scope additionally through from_scope_string (foreign-parse).',
        assumptions=['a Python str is identified with its UTF-8 encoding (lone surrogates are not generated: quote() '
                     'raises UnicodeEncodeError on them)',
                     'percent-escapes that do not decode to valid UTF-8 are replaced by U+FFFD in Python; the byte model '
                     'keeps the raw bytes, such scopes are counted as out-of-model and only judged by the totality oracle',
                     'urlsplit verdicts of the ipaddress / NFKC netloc checks are taken from Python (abstract bit in the model)'],
        trusted_base=['translator harness/impl/gen_location_consts.py (scheme, url_elements, roots, published key order)',
                      'correspondence harness harness/impl/c16_impl.py (mock MDIB as in tests/test_scopesfactory.py)',
                      'urllib.parse of CPython 3.12 is modelled (Location/Quote.v), validated differentially only'],
        not_modelled=['other context kinds and MDS type scopes of mk_scopes', 'XML transport of scopes (ScopesType list parsing)',
                      'SdcLocation.__eq__/__hash__', 'UTF-8 encode/decode', 'ipaddress / unicodedata checks inside urlsplit'])


def replay(ctx, rep):
    """./check C16 --replay <file>: run the recorded case again on the implementation and print what it does."""
    stream, case = rep.get('stream'), rep.get('case')
    if not case:
        print(json.dumps(rep, indent=1)[:4000])
        return 0
    key = {'roundtrip': 'roundtrip', 'published': 'published', 'foreign': 'foreign', 'provider': 'provider'}.get(stream)
    if key is None:
        print(json.dumps(rep, indent=1)[:4000])
        return 0
    impl = ctx.impl('c16_impl', {key: [case]})
    print(f'stream {stream}; case: {json.dumps(case)[:1500]}')
    print('implementation now:', json.dumps(impl.get(key, impl))[:3000])
    print('recorded          :', json.dumps(rep.get('impl_trace'))[:3000])
    return 0
