"""C06 - the consumer MDIB never regresses under lost, duplicated or reordered reports."""
import mdibcheck
import mdibgen

FILES = ('70041_MDIB_Final.xml',)


def add_faults(rng, case, g):
    ops = case['ops']
    # provider restart with a new SequenceId somewhere in the second half, then (sometimes) a reload
    if rng.random() < 0.5 and len(ops) > 3:
        pos = rng.randint(len(ops) // 2, len(ops) - 1)
        if rng.random() < 0.45:
            # only the InstanceId changes (absent -> number, number -> absent, 0 <-> absent, number -> other number)
            ops.insert(pos, {'k': 'reseq', 'n': rng.randint(1, 9), 'seq': False, 'inst': rng.choice(['none', 'zero', 'next'])})
        else:
            ops.insert(pos, {'k': 'reseq', 'n': rng.randint(1, 9), 'inst': rng.random() < 0.5})
    if rng.random() < 0.6:
        reload = {'k': 'reload', 'inflight': rng.random() < 0.7,
                  # in half of the reloads a report arrives on another thread while the buffered ones are replayed
                  'race': '0x34F00100' if rng.random() < 0.5 else None}
        if rng.random() < 0.7:
            # transactions of every kind that the provider commits AFTER it has built the GetMdibResponse and before
            # the consumer gets it: their reports are buffered and must be replayed (each exactly once, by its own handler)
            reload['during'] = g.every_kind_ops() if rng.random() < 0.6 else g.history(rng.randint(1, 4))
            for o in reload['during']:
                if rng.random() < 0.2:
                    o['dup'] = True        # the notification arrives twice inside the window
        ops.append(reload)
        if rng.random() < 0.5:
            ops.append({'k': 'state', 'tx': 'metric', 'iface': 'classic', 'items': []})   # empty transaction: nothing new
    sched = mdibgen.fault_schedule(rng, len(ops))
    for i, op in enumerate(ops):
        if op.get('deliver'):            # crafted walks bring their own delivery directives
            sched[i] = list(op['deliver'])
        if op['k'] == 'reload':
            sched[i] = ['hold']
            for j in range(i + 1, len(ops)):
                sched[j] = ['all']
    return {'ops': ops, 'delivery': sched}


def run(ctx):
    if not ctx.prove():
        ctx.broken('theorem', 'Props/C06.v', ctx.proof_error)
    pairs = mdibcheck.run_histories(ctx, 'faults', ctx.n(54, 900), ctx.n(10, 40), consumer=True,
                                    weights={'state': 6, 'ctx': 3, 'location': 1, 'descr': 3, 'reject': 0, 'abort': 0},
                                    mdib_files=FILES, extra=add_faults)
    nfail = mdibcheck.judge(ctx, 'faults', pairs, [mdibgen.oracle_faults], {'C06'})
    # consumer model vs implementation on exactly the delivered reports (cases in which a delivery was answered
    # with an HTTP error exercise exception paths that the model does not claim to reproduce; cases with a reload
    # are compared up to the reload)
    usable, delivered = [], []
    n_err = n_reload = 0
    for c, r in pairs:
        cut = next((i for i, op in enumerate(c['ops']) if op['k'] == 'reload'), len(c['ops']))
        n_reload += cut < len(c['ops'])
        steps = r['trace'][:cut]
        if any(d.get('status') != 200 or d.get('kind') == 'UNPARSABLE' for s in steps for d in s['delivered']):
            n_err += 1
            continue
        c2 = dict(c)
        c2['ops'] = c['ops'][:cut]
        r2 = dict(r)
        r2['trace'] = steps
        usable.append((c2, r2))
        delivered.append([[d for d in s['delivered'] if not d.get('other')] for s in steps])
    mism = mdibcheck.consumer_correspondence(ctx, 'faults', usable, FILES, delivered)
    toks = {}
    for c, r in pairs:
        for sch in c['delivery']:
            for t in sch:
                key = t if isinstance(t, str) else t[0]
                toks[key] = toks.get(key, 0) + 1
    ctx.count('faults', len(pairs), [repr(r['trace']) for _, r in pairs], histogram=mdibcheck.op_histogram(pairs),
              delivery_tokens=toks, cases_with_http_error_on_delivery=n_err, cases_with_reload=n_reload,
              cases_compared_with_consumer_model=len(usable),
              deliveries=sum(len(s['delivered']) for _, r in pairs for s in r['trace']))
    if pairs:
        c, r = pairs[0]
        ctx.sample({'stream': 'faults', 'ops': c['ops'][:4], 'delivery': c['delivery'][:4],
                    'steps': [{'sent': [x.get('n') for x in s['reports']], 'delivered': [[x.get('n'), x.get('status')] for x in s['delivered']],
                               'consumer_ver': s['cons']['ver'], 'mode': s.get('cmode')} for s in r['trace'][:4]]})
    if ctx.thorough:
        hits = ctx.gate_grep(['Mdib', 'Common'])
        if hits:
            ctx.broken('theorem', 'grep gate', hits)
        ctx.coqchk('SDC.Props.C06')
    return ctx.finish(
        rule='histories also contain empty transactions of every kind (empty body, get_state + unget_state, every call refused), API calls that are refused and handled inside the body (the refused statement must leave nothing of itself), re-creation of context state handles through add_state, reseq operations that change only the InstanceId, and the same transaction on the same handle set repeated; '
             'provider histories on the loop-back world with a fault-injecting transport: per transaction the pending '
             'notifications are delivered in order / withheld (delay past later reports) / dropped / duplicated / reversed / '
             'newest-first, old notifications are replayed, the provider gets a new SequenceId (+InstanceId) mid-history, '
             'InstanceId absent / 0 / a number, crafted walks in which the removal of a descriptor overtakes a withheld state '
             'report of every kind, reload_all AND the first load with reports of every kind (metric, alert, component, '
             'operational, waveform, context, description) arriving while GetMdib is in flight - committed before and after '
             'the snapshot, some twice; per delivery: a stale report (MdibVersion below the consumer\'s) changes nothing; after '
             'a load: exact mirror, no state without descriptor, no context state in the single-state table; after every step the consumer tables are '
             'judged by the oracle (versions never decrease, every held entry was published by the provider for that '
             'handle, lookups consistent, frozen after a sequence change, exact mirror after reload) and compared with the '
             'consumer model fed with exactly the delivered reports; distinct = distinct implementation traces',
        assumptions=['reports are delivered one at a time (synchronous dispatch); concurrency of deliveries is not explored',
                     'payload tokens as in C01'],
        trusted_base=['harness/world.py transport hook, harness/impl/mdib_impl.py delivery policies',
                      'harness/mdibmodel.py ConsumerTranslator'],
        not_modelled=['the regression theorems are proved for state reports and for the version / sequence logic of all '
                      'report kinds; context and description-modification reports are covered by model correspondence and oracle',
                      'exception paths of the consumer (HTTP 500 on a duplicated CREATE) are judged by the oracle only'])
