"""C18 - scalar XML value conversions are exact over the wire value space (DESIGN.md section 4, C18).

Streams (every case runs on the real converters in harness/impl/c18_impl.py; the oracle is evaluated on the
implementation's answers; the model is evaluated on the same inputs, by the extracted OCaml driver for the
timestamp streams and inside Coq (vm_compute) for the string streams)."""
import re
import time
import subprocess
from concurrent.futures import ThreadPoolExecutor
from decimal import Decimal
from fractions import Fraction

from lib import Raw, coqlit

HEADER = ('From Coq Require Import List ZArith Bool String Ascii.\nImport ListNotations.\n'
          'From SDC Require Import Scalars.Lex Scalars.Timestamp Scalars.Decimal Scalars.Duration Scalars.DateTime.\n'
          'Open Scope Z_scope.')
DEPS = ['Scalars/DateTime.vo', 'Scalars/Timestamp.vo']

TS_LIMIT = (1 << 53) // 1000          # xml -> py -> xml is claimed for 0 <= n, n * 1000 < 2^53
TS_FLOAT_LIMIT = Fraction(1 << 50, 1000)   # py -> xml -> py (< 1 ms) is claimed for 1000 x <= 2^50

XSD_INT = re.compile(r'[ \t\r\n]*[+-]?[0-9]+[ \t\r\n]*\Z')
XSD_DEC = re.compile(r'[ \t\r\n]*[+-]?([0-9]+(\.[0-9]*)?|\.[0-9]+)[ \t\r\n]*\Z')
XSD_DUR = re.compile(r'PT(?=[0-9])([0-9]+H)?([0-9]+M)?([0-9]+(\.[0-9]+)?S)?\n?\Z')
XSD_DT = re.compile(r'-?([1-9][0-9]{3,}|0[0-9]{3})'
                    r'(-(0[1-9]|1[0-2])(-(0[1-9]|[12][0-9]|3[01])'
                    r'(T(([01][0-9]|2[0-3]):[0-5][0-9]:[0-5][0-9](\.[0-9]+)?|24:00:00(\.0+)?))?)?)?'
                    r'(Z|[+-]((0[0-9]|1[0-3]):[0-5][0-9]|14:00))?\n?\Z')
ERRS = ('REJECT', 'OVERFLOW')


def slit(s: str) -> str:
    """Coq string literal; strings with other than printable ASCII are given by their UTF-8 bytes."""
    if all(32 <= ord(c) < 127 for c in s):
        return coqlit(s)
    return '(bs [' + '; '.join(f'{b}%N' for b in s.encode('utf-8')) + '])'


def is_err(x):
    return isinstance(x, str) and (x in ERRS or x.startswith('CRASH') or x.startswith('NONFINITE'))


# --------------------------------------------------------------------------------------------- generators
def rdigits(rng, n, lead_nonzero=False):
    s = ''.join(rng.choice('0123456789') for _ in range(n))
    if lead_nonzero and s and s[0] == '0':
        s = rng.choice('123456789') + s[1:]
    return s


WS = [' ', '\t', '\r', '\n']
JUNK = ['_', 'E5', 'e-3', 'x', '.', '-', '+', ' ', 'NaN', 'Infinity', 'inf', ',', '٣', '１', ' ', '\x0b', '\x1f', ' ',
        'true', '0x', 'T', 'P', 'S', 'H', 'M', 'Z', ':', '\n']


def mutate(rng, s):
    k = rng.choice([1, 1, 1, 2])
    for _ in range(k):
        i = rng.randrange(len(s) + 1)
        op = rng.random()
        if op < 0.55 or not s:
            s = s[:i] + rng.choice(JUNK) + s[i:]
        elif op < 0.8 and i < len(s):
            s = s[:i] + s[i + 1:]
        elif i < len(s):
            s = s[:i] + rng.choice(JUNK + list('0123456789')) + s[i + 1:]
    return s


def ws(rng):
    return ''.join(rng.choice(WS) for _ in range(rng.choice([0, 0, 0, 0, 1, 2])))


def gen_int_lex(rng):
    s = ws(rng) + rng.choice(['', '', '', '-', '+']) + rng.choice(['', '0', '00']) + rdigits(rng, rng.choice([1, 1, 2, 3, 5, 9, 13, 19, 25])) + ws(rng)
    return mutate(rng, s) if rng.random() < 0.3 else s


def gen_dec_lex(rng):
    ip = rng.choice(['', '0', '00', '']) + rdigits(rng, rng.choice([0, 1, 1, 2, 4, 9, 17, 18, 20]))
    s = ws(rng) + rng.choice(['', '', '', '-', '+']) + ip
    r = rng.random()
    if r < 0.7:
        s += '.' + rdigits(rng, rng.choice([0, 1, 2, 3, 6, 12, 18, 19])) + rng.choice(['', '', '0', '000'])
    s += ws(rng)
    return mutate(rng, s) if rng.random() < 0.3 else s


def gen_dec_padded(rng):
    """a value with at most 18 significant digits written with redundant zeros (leading zeros, trailing fraction zeros,
    integer parts that end in zeros): the lexical form is longer than the value's canonical form"""
    n = rng.choice([1, 2, 5, 9, 12, 16, 17, 18, 18, 18])
    sig = rdigits(rng, n, lead_nonzero=True)
    if rng.random() < 0.6:
        k = rng.randint(1, min(6, n))
        sig = (sig[:n - k].rstrip('0') or '1') + '0' * k if n - k > 0 else sig
    sig = sig[:18]
    point = rng.choice([len(sig), len(sig), len(sig), len(sig) - 1, rng.randint(0, len(sig)), 0])
    ip, fp = sig[:point], sig[point:]
    if not ip and rng.random() < 0.5:
        fp = '0' * rng.randint(0, 18 - len(fp.rstrip('0') or '0')) + fp
    fp = fp.rstrip('0')
    if len(fp) > 18:
        fp = fp[:18].rstrip('0')
    s = rng.choice(['', '', '-', '+']) + rng.choice(['', '', '0', '000']) + ip
    s += '.' + fp + rng.choice(['0', '00', '000000', '0' * 19, '']) if (fp or rng.random() < 0.8) else ''
    if s.lstrip('+-') in ('', '.'):
        s += '0'
    return s


def gen_dec_val(rng):
    neg = rng.random() < 0.4
    n = rng.choice([1, 1, 2, 3, 5, 8, 12, 16, 17, 18, 18, 18, 19, 20, 24, 30])
    digs = rdigits(rng, n).lstrip('0') or '0'
    r = rng.random()
    if r < 0.1:
        digs = '0'
    elif r < 0.3:
        digs = (digs.rstrip('0') or '1') + '0' * rng.randint(1, 6)
    e = rng.choice([0, 0, -1, -2, -3, -6, -17, -18, 18, 17, 1, 2, 5, -19, 19, -25, 25, rng.randint(-18, 18), rng.randint(-18, 18),
                    -len(digs), 1 - len(digs), -len(digs) - 1, -len(digs) - 5])
    return [neg, digs, e]


def gen_dur_lex(rng):
    s = 'PT'
    if rng.random() < 0.5:
        s += rng.choice(['', '0']) + rdigits(rng, rng.choice([1, 1, 2, 4, 9])) + 'H'
    if rng.random() < 0.5:
        s += rdigits(rng, rng.choice([1, 2, 2, 5])) + 'M'
    if rng.random() < 0.75:
        s += rng.choice(['', '', '0', '00']) + rdigits(rng, rng.choice([1, 1, 2, 2, 3, 5, 6, 8, 16, 17]))
        if rng.random() < 0.6:
            s += '.' + rdigits(rng, rng.choice([1, 2, 3, 6, 6, 7, 9, 20]))
        s += 'S'
    r = rng.random()
    if r < 0.08:
        s += '\n'
    elif r < 0.1:
        s = rng.choice(['PT' + '9' * rng.randint(10, 22) + 'H', 'PT' + '9' * rng.randint(12, 25) + 'M', 'PT' + '9' * rng.randint(14, 15) + 'S',
                        'P1Y', 'P1D', 'PT', 'P', '-PT1S', 'P1DT1S'])
    return mutate(rng, s) if rng.random() < 0.3 else s


def gen_dur_val(rng):
    r = rng.random()
    if r < 0.45:
        us = rng.choice([rng.randrange(0, 10 ** rng.randint(1, 18)), rng.randrange(0, 100) * 10 ** rng.randint(0, 12),
                         rng.randrange(60) * 1000000 * 60 ** rng.randint(0, 2) + rng.randrange(10 ** 6),
                         rng.randrange(1, 1000) * 3600000000, rng.randrange(1, 60) * 60000000])
        return ['float', repr(us / 1e6)]
    if r < 0.6:
        return ['float', repr(rng.random() * 10 ** rng.randint(-8, 12))]
    if r < 0.7:
        return ['int', str(rng.choice([0, 1, 59, 60, 61, 3599, 3600, 3601, 86400, rng.randrange(10 ** rng.randint(1, 13))]))]
    if r < 0.9:
        return ['dec', str(Decimal(rng.randrange(10 ** rng.randint(1, 15))).scaleb(-rng.randint(0, 9)))]
    if r < 0.95:
        return ['float', repr(-rng.random() * 10 ** rng.randint(-3, 6))]
    return ['float', repr(rng.choice([0.0, 5e-7, 1.5e-6, 2.5e-6, 1e-7, 59.9999995, 0.9999995, 86399999999999.0, 8.64e13 - 1]))]


def gen_dt_val(rng):
    y = rng.choice([rng.randint(-3000, 3000), rng.randint(0, 9999), rng.randint(-10 ** 6, 10 ** 6), 0, 1, -1, 999, 1000, 9999, 10000])
    mo = d = t = None
    eod = False
    if rng.random() < 0.85:
        mo = rng.randint(1, 12)
        if rng.random() < 0.85:
            d = rng.randint(1, 31)
            r = rng.random()
            if r < 0.15:
                eod = True
            elif r < 0.85:
                t = [rng.randint(0, 23), rng.randint(0, 59),
                     rng.choice([rng.randrange(60) * 10 ** 6, rng.randrange(60 * 10 ** 6), rng.randrange(60000) * 1000, rng.randrange(10),
                                 59999999, 0, 9999999, 10000000])]
    tz = None
    if rng.random() < 0.6:
        tz = rng.choice([0, rng.randint(-840, 840), 840, -840, rng.randint(-14, 14) * 60, -1, 1, 59, -60])
    return [y, mo, d, t, eod, tz]


def dt_string(v):
    """canonical string of a generated value (harness-side, only used to derive lexical test strings)"""
    y, mo, d, t, eod, tz = v
    s = ('-' if y < 0 else '') + f'{abs(y):04d}'
    if mo is not None:
        s += f'-{mo:02d}'
    if d is not None:
        s += f'-{d:02d}'
    if eod:
        s += 'T24:00:00'
    elif t:
        s += f'T{t[0]:02d}:{t[1]:02d}:{t[2] // 10 ** 6:02d}'
        if t[2] % 10 ** 6:
            s += '.' + f'{t[2] % 10 ** 6:06d}'.rstrip('0')
    if tz is not None:
        s += 'Z' if tz == 0 else ('+' if tz > 0 else '-') + f'{abs(tz) // 60:02d}:{abs(tz) % 60:02d}'
    return s


def gen_dt_lex(rng):
    s = dt_string(gen_dt_val(rng))
    r = rng.random()
    if r < 0.12:
        s += rng.choice(['.0', '.000', '.1234567', '.50', '\n', 'Z', '+14:00', '+14:01', '-00:00', '+00:00', '-14:00', '+13:59', '.', '+15:00'])
    elif r < 0.2:
        s = rng.choice(['0', '00', '000']) + s
    elif r < 0.25:
        s = s.replace('T', rng.choice(['T24:00:00', 'T24:00:00.0', 'T24:00:01', 't', ' ']), 1)
    return mutate(rng, s) if rng.random() < 0.35 else s


def float_me(x: float):
    num, den = x.as_integer_ratio()
    return [num, -(den.bit_length() - 1)]


def gen_ts_floats(rng, n):
    import math
    out = []
    for _ in range(n):
        r = rng.random()
        if r < 0.35:      # next to a rounding tie (k + 1/2) ms
            k = rng.randrange(0, 1 << rng.choice([4, 10, 20, 30, 40, 41, 43, 49]))
            x = (k + 0.5) / 1000
            for _ in range(rng.randint(0, 3)):
                x = math.nextafter(x, rng.choice([0.0, math.inf]))
        elif r < 0.6:     # next to an exact millisecond
            k = rng.randrange(0, 1 << rng.choice([4, 10, 20, 30, 40, 41, 43, 49]))
            x = k / 1000
            for _ in range(rng.randint(0, 2)):
                x = math.nextafter(x, rng.choice([0.0, math.inf]))
        elif r < 0.85:    # any float in a wide range
            x = math.ldexp(rng.randrange(1 << 52, 1 << 53), rng.randint(-80, -3))
        elif r < 0.93:
            x = float(rng.randrange(0, 1 << rng.randint(1, 45)))
        else:             # beyond the claimed range: model comparison only
            x = math.ldexp(rng.randrange(1 << 52, 1 << 53), rng.randint(-12, 8))
        out.append(float_me(abs(x)))
    out += [[0, 0], float_me(0.0005), float_me(0.0015), float_me(0.0025), float_me(1.001), float_me(10.001)]
    return out


# --------------------------------------------------------------------------------------------- model driver (OCaml)
def run_driver(exe, lines, procs=12):
    if not lines:
        return []
    size = (len(lines) + procs - 1) // procs
    chunks = [lines[i:i + size] for i in range(0, len(lines), size)]

    def one(ch):
        p = subprocess.run([exe], input='\n'.join(ch) + '\n', capture_output=True, text=True, timeout=1500)
        return p.stdout.splitlines()
    with ThreadPoolExecutor(max_workers=procs) as ex:
        res = list(ex.map(one, chunks))
    return [ln for r in res for ln in r]


def same_value(a: int, s: int, m: int, e: int) -> bool:
    """a / 2^s == m * 2^e"""
    k = e + s
    return a == (m << k) if k >= 0 else (a << -k) == m


# --------------------------------------------------------------------------------------------- main
def run(ctx):
    rng = ctx.rng
    if not ctx.prove():
        ctx.broken('theorem', 'Props/C18.v', ctx.proof_error)
    exe, log = ctx.ocaml_driver('Extract/Extract_Scalars.v', 'scalars_model', 'driver_c18')
    if exe is None:
        ctx.broken('correspondence', 'extraction/driver build', log[-1500:])

    # ------------------------------------------------------------------ inputs
    win = [0, ctx.n(200000, 2000000)]
    ts_ns = [rng.randrange(1 << rng.randint(1, 53)) % TS_LIMIT for _ in range(ctx.n(4000, 60000))]
    ts_ns += [TS_LIMIT - 1, TS_LIMIT - 2, TS_LIMIT // 2, 1 << 43, (1 << 43) - 1, 1 << 42]
    ts_ns += [TS_LIMIT + rng.randrange(1 << rng.randint(1, 63)) for _ in range(ctx.n(500, 5000))]   # beyond: model only
    ts_floats = gen_ts_floats(rng, ctx.n(6000, 100000))
    ts_exact = []
    for _ in range(ctx.n(600, 6000)):
        if rng.random() < 0.4:
            ts_exact.append(['int', str(rng.randrange(10 ** rng.randint(1, 12)))])
        else:
            ts_exact.append(['dec', str(Decimal(rng.randrange(10 ** rng.randint(1, 16))).scaleb(-rng.choice([0, 1, 3, 4, 4, 5, 7])))])
    ts_exact += [['dec', '10.0015'], ['dec', '10.0025'], ['dec', '0.0005'], ['int', '10'], ['dec', '1E+3']]
    ts_lex = [gen_int_lex(rng) for _ in range(ctx.n(600, 8000))]
    dec_vals = [gen_dec_val(rng) for _ in range(ctx.n(3000, 36000))]
    dec_vals += [[False, '1', -7], [False, '1', -18], [False, '123456789012345678', -18], [False, '123456789012345678', 3],
                 [True, '0', -1], [False, '0', -15], [False, '123', -3], [False, '0', 3], [True, '1', -7], [False, '1', 18]]
    dec_lex = [gen_dec_lex(rng) for _ in range(ctx.n(2500, 24000))] + [gen_dec_padded(rng) for _ in range(ctx.n(1200, 12000))] + [
        '987654321012345670.0', '100000000000000000.000', '-120000000000000000.0', '0010.0', '10.', '1230.00', '0.000000000000000001000'] + ['NaN', 'Infinity', '-Infinity', 'sNaN', '1E5', '1e-3', '1_0', '٣', '.', '', '5.', '.5', '-0', '+.0']
    int_vals = [rng.choice([1, -1]) * rng.randrange(1 << rng.randint(1, 80)) for _ in range(ctx.n(600, 8000))] + [0, 1 << 32, 1 << 64, -(1 << 63)]
    int_lex = [gen_int_lex(rng) for _ in range(ctx.n(1500, 12000))] + ['1_000', '٣', ' 1 ', '\x0b1', '1\x1f', ' 1', '+5', '-0', '', '+', '0x10', '1e3', '1.0']
    bool_lex = ['true', 'false', '1', '0', 'foo', '', 'True', 'FALSE', ' true', 'true ', '2', '00', '01', 'yes', 'tru', 'truee', '\n1']
    bool_lex += [mutate(rng, rng.choice(['true', 'false', '1', '0'])) for _ in range(ctx.n(150, 1500))]
    dur_vals = [gen_dur_val(rng) for _ in range(ctx.n(2500, 24000))]
    dur_lex = [gen_dur_lex(rng) for _ in range(ctx.n(2500, 24000))] + ['PT١S', 'PT1S\n', 'PT', 'PT0.0000005S', 'PT0.0000015S', 'PT1.0000005S']
    dt_vals = [gen_dt_val(rng) for _ in range(ctx.n(1500, 15000))]
    dt_lex = [gen_dt_lex(rng) for _ in range(ctx.n(2500, 24000))] + ['２０２０', '2020-02-31', '2021-02-29', '2020-05:00', '0000', '-0000', '2020-05-06T24:00:00.000Z']
    payload = {'ts_window': win, 'ts_ns': ts_ns, 'ts_floats': ts_floats, 'ts_exact': ts_exact, 'ts_lex': ts_lex, 'dec_vals': dec_vals,
               'dec_lex': dec_lex, 'int_vals': [str(n) for n in int_vals], 'int_lex': int_lex, 'bool_lex': bool_lex, 'enum': ctx.seed,
               'dur_vals': dur_vals, 'dur_lex': dur_lex, 'dt_vals': dt_vals, 'dt_lex': dt_lex, 'wiring': 1}
    impl = ctx.impl('c18_impl', payload, timeout=1500)
    if impl.get('_crash'):
        ctx.broken('correspondence', 'implementation run', impl['stderr'])
        return ctx.finish('implementation run crashed', [], [])

    jobs = []

    def corr(stream, eqb, runf, cases, first):
        """cases: list of (input_literal, expected_literal); first(i) describes case i for the report.
        The evaluation inside Coq is deferred: all streams are evaluated concurrently by run_jobs()."""
        jobs.append((stream, eqb, runf, cases, first))

    def run_jobs():
        ok, log, _ = ctx.coq_make(['Common/Corr.vo'] + DEPS)
        if not ok:
            ctx.broken('correspondence', 'model build', ctx._first_error(log))
            return
        with ThreadPoolExecutor(max_workers=6) as ex:
            def one(j):
                t0 = time.time()
                r = ctx.coq_mism(j[0], HEADER, j[1], j[2], j[3], shard=1300, deps=())
                timing[j[0]] = (len(j[3]), round(time.time() - t0, 1))
                return r
            timing = {}
            results = list(ex.map(one, jobs))
            ctx.cov['coq_eval_timing (cases, s)'] = timing
        for (stream, eqb, runf, cases, first), (mism, err) in zip(jobs, results):
            if err:
                ctx.broken('correspondence', f'{stream} (coq evaluation)', err)
            elif mism:
                i = mism[0]
                d = first(i)
                d['model'] = ctx.coq_eval(HEADER, f'({runf}) {cases[i][0]}')[-600:]
                ctx.broken('correspondence', stream, {'disagreements': len(mism), 'first': d})

    # ------------------------------------------------------------------ timestamps: dense window + sampled counts
    w = impl['ts_window']
    changed = [n for n, b in zip(range(win[0], win[1]), w['back']) if b != n]
    if changed:
        n = changed[0]
        ctx.fail(f'timestamp {n} ms does not survive XML -> Python -> XML: to_xml(to_py({n!r})) = {w["back"][n - win[0]]} '
                 f'({len(changed)} of the {win[1] - win[0]} values of the dense window change)',
                 {'stream': 'ts', 'clause': 'xml_py_xml'},
                 {'stream': 'ts-window', 'case': {'xml': str(n)}, 'impl_trace': {'to_py(m,e)': [w['m'][n - win[0]], w['e'][n - win[0]]], 'to_xml': w['back'][n - win[0]]},
                  'oracle': {'verdict': 'fail', 'clause': 'to_xml(to_py(n)) == n'}})
    bad_s = [(n, r) for n, r in zip(ts_ns, impl['ts_ns']) if n < TS_LIMIT and r[2] != n]
    if bad_s:
        n, r = bad_s[0]
        ctx.fail(f'timestamp {n} ms does not survive XML -> Python -> XML: got {r[2]} ({len(bad_s)} sampled values change)',
                 {'stream': 'ts', 'clause': 'xml_py_xml'},
                 {'stream': 'ts-sampled', 'case': {'xml': str(n)}, 'impl_trace': r, 'oracle': {'verdict': 'fail', 'clause': 'to_xml(to_py(n)) == n'}})
    if exe:
        procs = 12
        step = (win[1] - win[0] + procs - 1) // procs
        lines = [f'W {lo} {min(step, win[1] - lo)}' for lo in range(win[0], win[1], step)]
        model = run_driver(exe, lines, procs)
        bad = []
        if len(model) != win[1] - win[0]:
            bad.append(('length', len(model)))
        else:
            for i, ln in enumerate(model):
                a, s, back = ln.split()
                if not same_value(int(a, 2), int(s), w['m'][i], w['e'][i]) or int(back, 2) != w['back'][i]:
                    bad.append((win[0] + i, ln, w['m'][i], w['e'][i], w['back'][i]))
        if bad:
            ctx.broken('correspondence', 'ts-window', {'disagreements': len(bad), 'first (n, model a S back, impl m e back)': bad[0]})
        ctx.count('ts-window', win[1] - win[0], range(win[0], win[1]), exhaustive_window=win,
                  changed_by_roundtrip=len(changed))
        model = run_driver(exe, [f'N {n:b}' for n in ts_ns], procs)
        bad = []
        for n, r, ln in zip(ts_ns, impl['ts_ns'], model):
            a, s, back = ln.split()
            if not same_value(int(a, 2), int(s), r[0], r[1]) or int(back, 2) != r[2]:
                bad.append((n, ln, r))
        if bad or len(model) != len(ts_ns):
            ctx.broken('correspondence', 'ts-sampled', {'disagreements': len(bad), 'first (n, model, impl)': bad[:1], 'lines': len(model)})
        ctx.count('ts-sampled', len(ts_ns), ts_ns, in_claimed_range=sum(1 for n in ts_ns if n < TS_LIMIT),
                  bits_histogram={str(b): sum(1 for n in ts_ns if n.bit_length() // 8 == b // 8) for b in range(0, 64, 8)})
        ctx.sample({'stream': 'ts-sampled', 'xml': str(ts_ns[0]), 'impl [mantissa, exponent, to_xml]': impl['ts_ns'][0]})

        # -------------------------------------------------------------- timestamps: float -> xml -> float
        model = run_driver(exe, [f'F {m:b} {e}' for m, e in ts_floats], procs)
        bad, nfail, in_range, ties = [], 0, 0, 0
        for (m, e), r, ln in zip(ts_floats, impl['ts_floats'], model):
            x = Fraction(m) * Fraction(2) ** e
            if len(r) != 3:
                bad.append(((m, e), ln, r))
                continue
            n2, m2, e2 = r
            mn, ma, ms = ln.split()
            if int(mn, 2) != n2 or not same_value(int(ma, 2), int(ms), m2, e2):
                bad.append(((m, e), ln, r))
            if x <= TS_FLOAT_LIMIT:
                in_range += 1
                if (float(x) * 1000) % 1 == 0.5:      # the binary64 product is a half-integer: round() has to break a tie
                    ties += 1
                back = Fraction(m2) * Fraction(2) ** e2
                if not abs(back - x) < Fraction(1, 1000):
                    nfail += 1
                    ctx.fail(f'timestamp {float(x)!r} s changes by {float(abs(back - x) * 1000)} ms in Python -> XML -> Python',
                             {'stream': 'ts', 'clause': 'py_xml_py'},
                             {'stream': 'ts-float', 'case': {'float (mantissa, exponent)': [m, e]}, 'impl_trace': r,
                              'oracle': {'verdict': 'fail', 'clause': '|to_py(to_xml(x)) - x| < 1 ms'}})
        if bad or len(model) != len(ts_floats):
            ctx.broken('correspondence', 'ts-float', {'disagreements': len(bad), 'first (x, model N a S, impl N m e)': bad[:1]})
        ctx.count('ts-float', len(ts_floats), [tuple(x) for x in ts_floats], in_claimed_range=in_range, product_is_half_integer_tie=ties)

        model = run_driver(exe, ['X {:b} {:b}'.format(*Fraction(Decimal(t) if k == 'dec' else int(t)).as_integer_ratio()) for k, t in ts_exact], procs)
        bad = []
        for (k, t), r, ln in zip(ts_exact, impl['ts_exact'], model):
            if not isinstance(r, int) or int(ln, 2) != r:
                bad.append(((k, t), ln, r))
            elif abs(Fraction(Decimal(t)) * 1000 - r) > Fraction(1, 2):
                ctx.fail(f'TimestampConverter.to_xml({k} {t}) = {r} is not the nearest millisecond count',
                         {'stream': 'ts', 'clause': 'exact_argument'}, {'stream': 'ts-exact', 'case': {'kind': k, 'value': t}, 'impl_trace': r})
        if bad:
            ctx.broken('correspondence', 'ts-exact', {'disagreements': len(bad), 'first': bad[0]})
        ctx.count('ts-exact', len(ts_exact), [tuple(x) for x in ts_exact])

    # ------------------------------------------------------------------ lexical space of the numeric converters
    def lex_oracle(kind, s, res, pattern, value_of, want=lambda s: Fraction(s.strip(' \t\r\n'))):
        """accepted iff in the lexical space; accepted => the exact value"""
        ok = pattern.match(s) is not None
        if is_err(res):
            if ok:
                ctx.fail(f'{kind}: valid lexical form {s!r} is rejected ({res})', {'stream': 'lexical', 'type': kind, 'clause': 'valid-rejected'},
                         {'stream': f'{kind}-lex', 'case': {'xml': s}, 'impl_trace': res})
            return
        if not ok:
            ctx.fail(f'{kind}: {s!r} is outside the lexical space of the schema type but is accepted as {res!r}',
                     {'stream': 'lexical', 'type': kind}, {'stream': f'{kind}-lex', 'case': {'xml': s}, 'impl_trace': res,
                                                           'oracle': {'verdict': 'fail', 'clause': 'non-lexical forms are rejected'}})
            return
        if value_of(res) != want(s):
            ctx.fail(f'{kind}: {s!r} is converted to a different value {res!r}', {'stream': 'lexical', 'type': kind, 'clause': 'value'},
                     {'stream': f'{kind}-lex', 'case': {'xml': s}, 'impl_trace': res})

    def fr_lit(r):
        m, e = r
        return f'(Some ({coqlit(m << max(e, 0))}, {coqlit(1 << max(-e, 0))}))'

    cases = []
    for s, r in zip(ts_lex, impl['ts_lex']):
        # the float nearest to n / 1000 (int / int true division is correctly rounded)
        lex_oracle('timestamp', s, r, XSD_INT, lambda r: Fraction(r[0]) * Fraction(2) ** r[1], lambda s: Fraction(int(s) / 1000))
        cases.append((slit(s), 'None' if is_err(r) else fr_lit(r)))
    corr('ts-lex', 'option_eqb fr_eqb', 'ts_to_py_str', cases, lambda i: {'xml': ts_lex[i], 'impl': impl['ts_lex'][i]})
    ctx.count('ts-lex', len(ts_lex), ts_lex, rejected=sum(1 for r in impl['ts_lex'] if is_err(r)))

    cases = []
    for s, r in zip(int_lex, impl['int_lex']):
        lex_oracle('integer', s, r, XSD_INT, lambda r: Fraction(int(r)))
        cases.append((slit(s), 'None' if is_err(r) else f'(Some {coqlit(int(r))})'))
    corr('int-lex', 'option_eqb Z.eqb', 'int_to_py', cases, lambda i: {'xml': int_lex[i], 'impl': impl['int_lex'][i]})
    ctx.count('int-lex', len(int_lex), int_lex, rejected=sum(1 for r in impl['int_lex'] if is_err(r)))
    if not impl.get('int_shared_to_py'):
        ctx.broken('correspondence', 'int-lex', 'UnsignedInt/UnsignedLongConverter no longer share IntegerConverter.to_py')

    cases = []
    for n, (s, back) in zip(int_vals, impl['int_vals']):
        if back != str(n) or s != str(n):
            ctx.fail(f'integer {n} does not survive Python -> XML -> Python: xml {s!r}, back {back!r}', {'stream': 'int', 'clause': 'py_xml_py'},
                     {'stream': 'int-vals', 'case': {'value': n}, 'impl_trace': [s, back]})
        cases.append((coqlit(n), coqlit(s)))
    corr('int-vals', 'String.eqb', 'int_to_xml', cases, lambda i: {'value': int_vals[i], 'impl': impl['int_vals'][i]})
    ctx.count('int-vals', len(int_vals), int_vals)

    # ------------------------------------------------------------------ decimals
    def dec_fr(t):
        return Fraction((-1 if t[0] else 1) * int(t[1])) * Fraction(10) ** t[2]

    cases, n18 = [], 0
    for v, (s, back) in zip(dec_vals, impl['dec_vals']):
        neg, digs, e = v
        if len(digs) <= 18:
            n18 += 1
            why = None
            if is_err(s) or not isinstance(s, str):
                why = f'to_xml fails: {s}'
            elif 'e' in s.lower():
                why = f'exponent notation written: {s!r}'
            elif not XSD_DEC.match(s):
                why = f'{s!r} is not an xsd:decimal'
            elif not isinstance(back, list) or dec_fr(back) != dec_fr(v):
                why = f'written as {s!r}, read back as {back!r}: the numeric value changed'
            if why:
                ctx.fail(f'Decimal(sign={int(neg)}, digits={digs}, exp={e}): {why}',
                         {'stream': 'decimal', 'clause': 'py_xml_py'},
                         {'stream': 'dec-vals', 'case': {'decimal (neg, digits, exp)': v}, 'impl_trace': [s, back],
                          'oracle': {'verdict': 'fail', 'clause': 'value(to_py(to_xml(d))) == value(d), no exponent'}})
        cases.append((f'(mkdec {coqlit(neg)} {coqlit(digs)} {coqlit(e)})', coqlit(s if isinstance(s, str) and not is_err(s) else '?')))
    corr('dec-vals', 'String.eqb', 'dec_to_xml', cases, lambda i: {'decimal': dec_vals[i], 'impl': impl['dec_vals'][i]})
    ctx.count('dec-vals', len(dec_vals), [tuple(v) for v in dec_vals], up_to_18_digits=n18,
              digits_histogram={str(k): sum(1 for v in dec_vals if len(v[1]) == k) for k in sorted({len(v[1]) for v in dec_vals})},
              exponent_in_pm18=sum(1 for v in dec_vals if -18 <= v[2] <= 18))
    ctx.sample({'stream': 'dec-vals', 'decimal (neg, digits, exp)': dec_vals[0], 'impl [to_xml, to_py(to_xml)]': impl['dec_vals'][0]})

    cases, ncanon, nvalue = [], 0, 0
    for s, (r, back) in zip(dec_lex, impl['dec_lex']):
        lex_oracle('decimal', s, r, XSD_DEC, dec_fr)
        if not is_err(r):
            core = s.strip(' \t\r\n')
            if XSD_DEC.match(s):
                # XML -> Python -> XML keeps the numeric value of every decimal whose VALUE has at most 18 digits
                # (leading zeros and trailing fraction zeros of the lexical form do not count)
                ip_, _, fp_ = core.lstrip('+-').partition('.')
                ip_, fp_ = ip_.lstrip('0'), fp_.rstrip('0')
                sig = len(ip_) + len(fp_) if ip_ else len(fp_.lstrip('0'))
                if sig <= 18 and len(fp_) <= 18:
                    nvalue += 1
                    why = None
                    if not isinstance(back, str) or is_err(back):
                        why = f'to_xml fails: {back}'
                    elif 'e' in back.lower() or not XSD_DEC.match(back):
                        why = f'written back as {back!r}, which is not a plain xsd:decimal'
                    elif Fraction(back) != Fraction(core):
                        why = f'written back as {back!r}: the numeric value changed'
                    if why:
                        ctx.fail(f'xsd:decimal {core!r} ({sig} significant digits): {why}', {'stream': 'decimal', 'clause': 'xml_py_xml_value'},
                                 {'stream': 'dec-lex', 'case': {'xml': s}, 'impl_trace': [r, back],
                                  'oracle': {'verdict': 'fail', 'clause': 'value(to_xml(to_py(s))) == value(s) for values of up to 18 digits'}})
            canon = re.fullmatch(r'-?(0|[1-9][0-9]*)(\.[0-9]*[1-9])?', core) and len(re.sub(r'[-.]', '', core).lstrip('0')) <= 18 \
                and len(core.replace('-', '').replace('.', '')) <= 18
            if canon and XSD_DEC.match(s):
                ncanon += 1
                if back != core:
                    ctx.fail(f'canonical decimal {core!r} is written back as {back!r}', {'stream': 'decimal', 'clause': 'xml_py_xml'},
                             {'stream': 'dec-lex', 'case': {'xml': s}, 'impl_trace': [r, back]})
        cases.append((slit(s), 'None' if is_err(r) else f'(Some {coqlit((r[0], r[1], r[2]))})'))
    corr('dec-lex', 'option_eqb dec_out_eqb', 'fun s => option_map dec_out (dec_to_py s)', cases,
         lambda i: {'xml': dec_lex[i], 'impl': impl['dec_lex'][i]})
    ctx.count('dec-lex', len(dec_lex), dec_lex, rejected=sum(1 for r, _ in impl['dec_lex'] if is_err(r)), canonical_roundtrips=ncanon,
              value_roundtrips_up_to_18_digits=nvalue)

    # ------------------------------------------------------------------ booleans (known finding: never rejects)
    cases = []
    for s, r in zip(bool_lex, impl['bool_lex']):
        if s in ('true', 'false', '1', '0'):
            if r is not (s in ('true', '1')):
                ctx.fail(f'boolean {s!r} is converted to {r!r}', {'stream': 'bool', 'clause': 'value'},
                         {'stream': 'bool-lex', 'case': {'xml': s}, 'impl_trace': r})
        elif not is_err(r):
            ctx.fail(f'boolean: {s!r} is outside the lexical space of xsd:boolean but is coerced to {r!r}',
                     {'stream': 'lexical', 'type': 'boolean'}, {'stream': 'bool-lex', 'case': {'xml': s}, 'impl_trace': r,
                                                                'oracle': {'verdict': 'fail', 'clause': 'non-lexical forms are rejected'}})
        cases.append((slit(s), coqlit(bool(r)) if isinstance(r, bool) else 'true'))
        if not isinstance(r, bool):
            cases[-1] = (slit(s), Raw('(negb (bool_to_py ' + slit(s) + '))'))   # model never rejects: force a mismatch
    corr('bool-lex', 'Bool.eqb', 'bool_to_py', cases, lambda i: {'xml': bool_lex[i], 'impl': impl['bool_lex'][i]})
    if impl.get('bool_to_xml') != ['true', 'false']:
        ctx.broken('correspondence', 'bool-lex', f'to_xml gives {impl.get("bool_to_xml")}')
    ctx.count('bool-lex', len(bool_lex), bool_lex, lexical=sum(1 for s in bool_lex if s in ('true', 'false', '1', '0')))

    # ------------------------------------------------------------------ enumerations
    cases, keys, desc = [], [], []
    for k in impl['enum']:
        lits = k['lits']
        for s, r, val in k['cases']:
            acc = not is_err(r)
            if acc != (s in lits) or (acc and (r != s or val != s)):
                ctx.fail(f'enum {k["class"]}: literal {s!r} -> {r!r}', {'stream': 'lexical', 'type': 'enum'},
                         {'stream': 'enum', 'case': {'class': k['class'], 'xml': s}, 'impl_trace': [r, val]})
            cases.append((f'([{"; ".join(slit(x) for x in lits)}], {slit(s)})', f'(Some {slit(r)})' if acc else 'None'))
            keys.append((k['class'], s))
            desc.append({'class': k['class'], 'xml': s, 'impl': r})
    corr('enum', 'option_eqb String.eqb', 'fun c => enum_to_py (fst c) (snd c)', cases, lambda i, d=desc: d[i])
    ctx.count('enum', len(cases), keys, classes=len(impl['enum']), rejected=sum(1 for c in cases if c[1] == 'None'))

    # ------------------------------------------------------------------ durations
    cases, nneg, nover = [], 0, 0
    for (kind, txt), (s, tus, back_us, same) in zip(dur_vals, impl['dur_vals']):
        val = Fraction(Decimal(txt)) if kind != 'float' else Fraction(float(txt))
        if val >= 86400 * 10 ** 9:      # beyond timedelta.max: outside the quantifier, must not be written
            nover += 1
            if s != 'OVERFLOW':
                ctx.fail(f'duration {txt} s exceeds timedelta.max but is written as {s!r}', {'stream': 'duration', 'clause': 'overflow'},
                         {'stream': 'dur-vals', 'case': {'kind': kind, 'value': txt}, 'impl_trace': s})
            continue
        if val < 0:
            nneg += 1
            if s != 'REJECT':
                ctx.fail(f'negative duration {txt} is written as {s!r}', {'stream': 'duration', 'clause': 'negative'},
                         {'stream': 'dur-vals', 'case': {'kind': kind, 'value': txt}, 'impl_trace': s})
            continue
        if is_err(s) or (back_us != tus and tus < (1 << 52)) or same is not True:
            ctx.fail(f'duration {txt} s ({tus} us) is written as {s!r} and read back as {back_us} us',
                     {'stream': 'duration', 'clause': 'py_xml_py'},
                     {'stream': 'dur-vals', 'case': {'kind': kind, 'value': txt}, 'impl_trace': [s, tus, back_us, same],
                      'oracle': {'verdict': 'fail', 'clause': 'parse_duration(duration_string(x)) == timedelta(seconds=x).total_seconds()'}})
        if not is_err(s):
            if not XSD_DUR.match(s):
                ctx.fail(f'duration {txt} s is written as {s!r}, not an SDPi duration', {'stream': 'duration', 'clause': 'lexical'},
                         {'stream': 'dur-vals', 'case': {'kind': kind, 'value': txt}, 'impl_trace': s})
            cases.append((coqlit(tus), coqlit(s), (kind, txt)))
    corr('dur-vals', 'String.eqb', 'duration_to_xml', [c[:2] for c in cases], lambda i, cs=cases: {'value': cs[i][2], 'impl': cs[i][:2]})
    ctx.count('dur-vals', len(dur_vals), [tuple(v) for v in dur_vals], negative=nneg, beyond_timedelta_max=nover,
              with_fraction=sum(1 for c in cases if '.' in c[1]), hours=sum(1 for c in cases if 'H' in c[1]))
    ctx.sample({'stream': 'dur-vals', 'value': dur_vals[0], 'impl [xml, us, us read back, equal]': impl['dur_vals'][0]})

    cases, nskip, desc = [], 0, []
    for s, (r, back) in zip(dur_lex, impl['dur_lex']):
        ok = XSD_DUR.match(s) is not None
        if ok and r == 'REJECT':
            ctx.fail(f'duration: valid lexical form {s!r} is rejected', {'stream': 'lexical', 'type': 'duration', 'clause': 'valid-rejected'},
                     {'stream': 'dur-lex', 'case': {'xml': s}, 'impl_trace': r})
        if not ok and r != 'REJECT':
            ctx.fail(f'duration: {s!r} is outside the lexical space but is accepted as {r!r}', {'stream': 'lexical', 'type': 'duration'},
                     {'stream': 'dur-lex', 'case': {'xml': s}, 'impl_trace': r, 'oracle': {'verdict': 'fail', 'clause': 'non-lexical forms are rejected'}})
        m = re.search(r'\.([0-9]+)S', s)
        if m and len(m.group(1)) > 6 and m.group(1)[6:10].ljust(4, '0') in ('4999', '5000'):
            nskip += 1     # next to a rounding tie of the 7th digit: the binary64 value decides, outside the model
            continue
        if r in ('REJECT', 'OVERFLOW'):
            exp = f'({coqlit(-1 if r == "REJECT" else -2)}, 1)'
        elif isinstance(r, list):
            exp = f'({coqlit(r[0] << max(r[1], 0))}, {coqlit(1 << max(-r[1], 0))})'
        else:
            exp = '((-9), 1)'
        cases.append((slit(s), exp))
        desc.append({'xml': s, 'impl': r})
    # parse_duration returns timedelta.total_seconds() = microseconds / 10**6 (int / int, correctly rounded)
    corr('dur-lex', 'fun a b => (fst a =? D_UNMODELLED) || fr_eqb a b',
         'fun s => let u := duration_to_py s in if u <? 0 then (u, 1) else rnd53 u 1000000', cases, lambda i, d=desc: d[i])
    ctx.count('dur-lex', len(dur_lex), dur_lex, rejected=sum(1 for r, _ in impl['dur_lex'] if r == 'REJECT'),
              overflow=sum(1 for r, _ in impl['dur_lex'] if r == 'OVERFLOW'), tie_skipped=nskip)

    # ------------------------------------------------------------------ date / time
    def oz(x):
        return 'None' if x is None else f'(Some {coqlit(x)})'

    def dtlit(v):
        y, mo, d, t, e, tz = v
        ts = 'None' if t is None else f'(Some ({coqlit(t[0])}, {coqlit(t[1])}, {coqlit(t[2])}))'
        return f'(mkdt {coqlit(y)} {oz(mo)} {oz(d)} {ts} {coqlit(bool(e))} {oz(tz)})'

    cases = []
    for v, (s, back, same) in zip(dt_vals, impl['dt_vals']):
        if is_err(s) or same is not True:
            ctx.fail(f'date/time {v} is written as {s!r} and read back as {back!r}', {'stream': 'datetime', 'clause': 'py_xml_py'},
                     {'stream': 'dt-vals', 'case': {'value': v}, 'impl_trace': [s, back, same]})
        if not is_err(s):
            if not XSD_DT.match(s):
                ctx.fail(f'date/time {v} is written as {s!r}, outside the lexical space', {'stream': 'datetime', 'clause': 'lexical'},
                         {'stream': 'dt-vals', 'case': {'value': v}, 'impl_trace': s})
            cases.append((dtlit(v), coqlit(s), {'value': v, 'impl': [s, back, same]}))
    corr('dt-vals', 'String.eqb', 'dt_to_xml', [c[:2] for c in cases], lambda i, cs=cases: cs[i][2])
    ctx.count('dt-vals', len(dt_vals), [repr(v) for v in dt_vals], with_time=sum(1 for v in dt_vals if v[3]), end_of_day=sum(1 for v in dt_vals if v[4]),
              with_tz=sum(1 for v in dt_vals if v[5] is not None))

    cases, desc, ndom = [], [], 0
    for s, (r, back) in zip(dt_lex, impl['dt_lex']):
        ok = XSD_DT.match(s) is not None
        if ok and is_err(r):
            ctx.fail(f'date/time: valid lexical form {s!r} is rejected', {'stream': 'lexical', 'type': 'datetime', 'clause': 'valid-rejected'},
                     {'stream': 'dt-lex', 'case': {'xml': s}, 'impl_trace': r})
        if not ok and not is_err(r):
            ctx.fail(f'date/time: {s!r} is outside the lexical space but is accepted as {r!r}', {'stream': 'lexical', 'type': 'datetime'},
                     {'stream': 'dt-lex', 'case': {'xml': s}, 'impl_trace': r, 'oracle': {'verdict': 'fail', 'clause': 'non-lexical forms are rejected'}})
        if not is_err(r) and r[2] is not None:
            y, mo, d = r[0], r[1], r[2]
            dim = [31, 29 if (y % 4 == 0 and (y % 100 != 0 or y % 400 == 0)) else 28, 31, 30, 31, 30, 31, 31, 30, 31, 30, 31][mo - 1]
            if d > dim:
                ndom += 1     # e.g. 2020-02-31: accepted, kept as it is and written back unchanged (no coercion): recorded only
                if back != s.rstrip('\n') and XSD_DT.match(s) and '.' not in s and '+00:00' not in s and '-00:00' not in s and '24:00:00' not in s:
                    ctx.fail(f'date/time: {s!r} (day {d} of month {mo} does not exist) is accepted and changed to {back!r}',
                             {'stream': 'lexical', 'type': 'date-day-of-month'},
                             {'stream': 'dt-lex', 'case': {'xml': s}, 'impl_trace': [r, back]})
        if is_err(r):
            exp = 'DtReject'
        else:
            t = r[3]
            if t is not None and not t[3]:
                continue     # more than 6 fraction digits: outside the microsecond model
            exp = f'(DtOk {dtlit([r[0], r[1], r[2], t and t[:3], r[4], r[5]])})'
        cases.append((slit(s), exp))
        desc.append({'xml': s, 'impl': r})
    corr('dt-lex', 'dtres_eqb', 'dt_to_py', cases, lambda i, d=desc: d[i])
    ctx.count('dt-lex', len(dt_lex), dt_lex, rejected=sum(1 for r, _ in impl['dt_lex'] if is_err(r)), nonexistent_day_accepted=ndom)

    # ------------------------------------------------------------------ the property classes use these converters
    want = {'TimestampAttributeProperty': 'TimestampConverter', 'CurrentTimestampAttributeProperty': 'TimestampConverter',
            'DecimalAttributeProperty': 'DecimalConverter', 'DurationAttributeProperty': 'DurationConverter',
            'IntegerAttributeProperty': 'IntegerConverter', 'BooleanAttributeProperty': 'BooleanConverter',
            'NodeIntProperty': 'IntegerConverter', 'NodeDecimalProperty': 'DecimalConverter', 'NodeDurationProperty': 'DurationConverter'}
    if impl.get('wiring') != want:
        ctx.broken('correspondence', 'wiring', {'xml_structure property classes -> converter': impl.get('wiring'), 'expected': want})
    ctx.cov['wiring'] = impl.get('wiring')

    t_corr = time.time()
    run_jobs()
    ctx.log(f'model evaluation inside Coq: {sum(len(j[3]) for j in jobs)} cases of {len(jobs)} streams in {time.time() - t_corr:.0f}s')

    if ctx.thorough:
        hits = ctx.gate_grep(['Scalars', 'Common'])
        if hits:
            ctx.broken('theorem', 'grep gate', hits)
        ctx.coqchk('SDC.Props.C18')
    return ctx.finish(
        rule='every case is run on the real converter classes / isoduration functions; the oracle (round trips exact, < 1 ms, no exponent, '
             'accepted iff in the lexical space of the schema type, independent regular expressions) is evaluated on the implementation\'s '
             'answers; the model is evaluated on the same inputs and must give the same strings / values (floats compared as exact '
             'mantissa-exponent pairs). ts-window is exhaustive over the dense window; distinct = distinct inputs per stream.',
        assumptions=['binary64 arithmetic of the host is IEEE-754 round-to-nearest-even (int/int true division, float*int, round())',
                     'decimal.Decimal.__format__(\'f\'), Decimal(str), int(str), float(str) of short decimal strings, repr(float) and '
                     'datetime.timedelta microsecond rounding behave as modelled (validated differentially only)',
                     'timestamps: values in the normal range of binary64; py -> xml -> py claimed for 1000 x <= 2^50',
                     'durations / date-time seconds: microsecond resolution; fractions with more than 6 digits next to a rounding tie and '
                     'seconds fields above 10^5 with a fraction are outside the model'],
        trusted_base=['extraction: ExtrOcamlBasic only; ocaml/driver_c18.ml + zutil.inc (timestamp streams)',
                      'correspondence harness harness/impl/c18_impl.py and the independent regular expressions of harness/props/c18.py',
                      'the proposed repairs fixes/C18_*.diff are part of the checked tree (the model is the repaired code)'],
        not_modelled=['DecimalConverter with float arguments (_float_to_xml, USE_DECIMAL_TYPE=False)', 'non-finite Decimals (NaN, Infinity) in to_xml',
                      'value-range facets (unsignedInt / unsignedLong bounds, negative timestamps) - enforced by schema validation, not by the converters',
                      'binary64 second field of XsdDateInformation beyond microsecond resolution', 'subnormal / overflowing floats'])


def replay(ctx, rep):
    import json
    case = rep.get('case', {})
    stream = rep.get('stream', '')
    key = {'ts-window': 'ts_ns', 'ts-sampled': 'ts_ns', 'timestamp-lex': 'ts_lex', 'integer-lex': 'int_lex', 'decimal-lex': 'dec_lex',
           'bool-lex': 'bool_lex', 'dur-lex': 'dur_lex', 'dt-lex': 'dt_lex'}.get(stream)
    payload = {}
    if key and 'xml' in case:
        payload[key] = [int(case['xml'])] if key == 'ts_ns' else [case['xml']]
    elif stream == 'dec-vals':
        payload['dec_vals'] = [case['decimal (neg, digits, exp)']]
    elif stream == 'dur-vals':
        payload['dur_vals'] = [[case['kind'], case['value']]]
    elif stream == 'dt-vals':
        payload['dt_vals'] = [case['value']]
    elif stream == 'ts-float':
        payload['ts_floats'] = [case['float (mantissa, exponent)']]
    print(json.dumps({'recorded': {k: rep.get(k) for k in ('what', 'case', 'impl_trace', 'oracle')},
                      'implementation now': ctx.impl('c18_impl', payload) if payload else 'stream not replayable'}, indent=1, default=str))
    return 0
