"""C18 - scalar XML value conversions are exact over the wire value space (DESIGN.md section 4, C18).

Streams (every case runs on the real converters in harness/impl/c18_impl.py; the oracle is evaluated on the
implementation's answers; the model is evaluated on the same inputs, by the extracted OCaml driver for the
timestamp streams and inside Coq (vm_compute) for the string streams)."""
import re
import time
import subprocess
from concurrent.futures import ThreadPoolExecutor
from decimal import Decimal
from fractions import Fraction

from lib import Raw, coqlit

HEADER = ('From Coq Require Import List ZArith Bool String Ascii.\nImport ListNotations.\n'
          'From SDC Require Import Scalars.Lex Scalars.Timestamp Scalars.Decimal Scalars.DecimalFloat Scalars.Duration Scalars.DateTime.\n'
          'Open Scope Z_scope.')
DEPS = ['Scalars/DateTime.vo', 'Scalars/Timestamp.vo', 'Scalars/DecimalFloat.vo']

TS_LIMIT = (1 << 53) // 1000          # xml -> py -> xml is claimed for 0 <= n, n * 1000 < 2^53
TS_FLOAT_LIMIT = Fraction(1 << 50, 1000)   # py -> xml -> py (< 1 ms) is claimed for 1000 x <= 2^50

XML_WS = ' \t\r\n'
XSD_INT = re.compile(r'[ \t\r\n]*[+-]?[0-9]+[ \t\r\n]*\Z')
XSD_DEC = re.compile(r'[ \t\r\n]*[+-]?([0-9]+(\.[0-9]*)?|\.[0-9]+)[ \t\r\n]*\Z')
XSD_DUR = re.compile(r'PT(?=[0-9])([0-9]+H)?([0-9]+M)?([0-9]+(\.[0-9]+)?S)?\n?\Z')
XSD_DT = re.compile(r'-?([1-9][0-9]{3,}|0[0-9]{3})'
                    r'(-(0[1-9]|1[0-2])(-(0[1-9]|[12][0-9]|3[01])'
                    r'(T(([01][0-9]|2[0-3]):[0-5][0-9]:[0-5][0-9](\.[0-9]+)?|24:00:00(\.0+)?))?)?)?'
                    r'(Z|[+-]((0[0-9]|1[0-3]):[0-5][0-9]|14:00))?\n?\Z')
ERR_PREFIX = ('REJECT', 'OVERFLOW', 'CRASH', 'BADTYPE', 'NONFINITE', 'TIMEOUT', 'SKIPPED')
US = Fraction(1, 10 ** 6)
DUR_MAX = Fraction(86400 * 10 ** 9)            # timedelta.max + 1 us, in seconds
DUR_1US_RANGE = Fraction(1 << 31)              # |parsed - exact| < 1 us is claimed (and proved) for values up to 2^31 s


def slit(s: str) -> str:
    """Coq string literal; strings with other than printable ASCII are given by their UTF-8 bytes."""
    if all(32 <= ord(c) < 127 for c in s):
        return coqlit(s)
    return '(bs [' + '; '.join(f'{b}%N' for b in s.encode('utf-8')) + '])'


def is_err(x):
    return isinstance(x, str) and x.startswith(ERR_PREFIX)


def is_reject(x):
    """the converter refused the value by raising ValueError / ArithmeticError / OverflowError"""
    return isinstance(x, str) and (x == 'REJECT' or x == 'OVERFLOW')


# --------------------------------------------------------------------------------------------- reference semantics
# Independent of the library AND of python's int() / float() / Decimal() / datetime parsers: explicit ASCII character
# classes, exact integer / Fraction arithmetic.  None = outside the lexical space.
def dval(ds: str) -> int:
    v = 0
    for c in ds:
        k = ord(c) - 48
        if not 0 <= k <= 9:
            raise AssertionError(ds)
        v = v * 10 + k
    return v


REF_INT = re.compile(r'([+-]?)([0-9]+)')
REF_DEC = re.compile(r'([+-]?)(?:([0-9]+)(?:\.([0-9]*))?|\.([0-9]+))')
REF_DUR = re.compile(r'PT(?:([0-9]+)H)?(?:([0-9]+)M)?(?:([0-9]+)(?:\.([0-9]+))?S)?\n?')
REF_DT = re.compile(r'(?P<y>-?(?:[1-9][0-9]{3,}|0[0-9]{3}))'
                    r'(?:-(?P<mo>0[1-9]|1[0-2])(?:-(?P<d>0[1-9]|[12][0-9]|3[01])'
                    r'(?:T(?:(?P<h>[01][0-9]|2[0-3]):(?P<mi>[0-5][0-9]):(?P<s>[0-5][0-9])(?:\.(?P<f>[0-9]+))?|(?P<eod>24:00:00(?:\.0+)?)))?)?)?'
                    r'(?:(?P<z>Z)|(?P<sg>[+-])(?P<th>0[0-9]|1[0-4]):(?P<tm>[0-5][0-9]))?\n?')


def ref_int(s):
    m = REF_INT.fullmatch(s.strip(XML_WS))
    return None if m is None else (-1 if m.group(1) == '-' else 1) * dval(m.group(2))


def ref_dec(s):
    m = REF_DEC.fullmatch(s.strip(XML_WS))
    if m is None:
        return None
    ip, fp = (m.group(2), m.group(3) or '') if m.group(2) is not None else ('', m.group(4))
    return (-1 if m.group(1) == '-' else 1) * Fraction(dval(ip + fp), 10 ** len(fp))


def ref_dur(s):
    """exact value in seconds"""
    m = REF_DUR.fullmatch(s)
    if m is None or (m.group(1) is None and m.group(2) is None and m.group(3) is None):
        return None
    h, mi, sec, fr = m.groups()
    return dval(h or '') * 3600 + dval(mi or '') * 60 + dval(sec or '') + Fraction(dval(fr or ''), 10 ** len(fr or ''))


def ref_dt(s):
    """(year, month, day, (hour, minute, exact second) | None, end_of_day, tz minutes | None)"""
    m = REF_DT.fullmatch(s)
    if m is None:
        return None
    g = m.groupdict()
    y = g['y']
    year = -dval(y[1:]) if y[0] == '-' else dval(y)
    t = None
    if g['h'] is not None:
        t = (dval(g['h']), dval(g['mi']), dval(g['s']) + Fraction(dval(g['f'] or ''), 10 ** len(g['f'] or '')))
    tz = None
    if g['z']:
        tz = 0
    elif g['sg']:
        tz = dval(g['th']) * 60 + dval(g['tm'])
        if tz > 840:
            return None
        tz = -tz if g['sg'] == '-' else tz
    return (year, g['mo'] and dval(g['mo']), g['d'] and dval(g['d']), t, g['eod'] is not None, tz)


def lenient(kind, s):
    """would a lenient parser built from python's own constructors take this string?  (only for the histogram: how many of
    the invalid forms are of the dangerous sort)"""
    try:
        if kind in ('integer', 'timestamp'):
            int(s)
        elif kind == 'decimal':
            Decimal(s)
        elif kind == 'duration':
            m = re.fullmatch(r'\s*[Pp][Tt]\s*(?:(\S+?)[Hh])?(?:(\S+?)[Mm])?(?:(\S+?)[Ss])?\s*', s)
            if m is None or not any(m.groups()):
                return False
            for g in m.groups():
                if g is not None:
                    float(g.replace(',', '.'))
        elif kind == 'datetime':
            import datetime
            t = s.strip()
            try:
                datetime.datetime.fromisoformat(t.upper())
            except ValueError:
                datetime.datetime.strptime(t, '%Y-%m')
        else:
            return False
        return True
    except Exception:  # noqa: BLE001
        return False


def mag10(x):
    """floor(log10 |x|) of a non-zero Fraction, exactly"""
    x, k = abs(x), 0
    if x >= 1:
        return len(str(x.numerator // x.denominator)) - 1
    while x < 1:
        x *= 10
        k -= 1
    return k


def bin_len(n):
    return '0' if n == 0 else '1-6' if n <= 6 else '7-9' if n <= 9 else '10-18' if n <= 18 else '19-40' if n <= 40 else '41+'


def hist(xs):
    h = {}
    for x in xs:
        h[x] = h.get(x, 0) + 1
    return dict(sorted(h.items()))


# --------------------------------------------------------------------------------------------- generators
def rdigits(rng, n, lead_nonzero=False):
    s = ''.join(rng.choice('0123456789') for _ in range(n))
    if lead_nonzero and s and s[0] == '0':
        s = rng.choice('123456789') + s[1:]
    return s


WS = [' ', '\t', '\r', '\n']
JUNK = ['_', 'E5', 'e-3', 'x', '.', '-', '+', ' ', 'NaN', 'Infinity', 'inf', ',', '٣', '１', '\xa0', '\x0b', '\x1f', ' ',
        'true', '0x', 'T', 'P', 'S', 'H', 'M', 'Z', ':', '\n']
# what python's int() / float() / Decimal() strip or read as digits, and XML does not
PY_WS = ['\x0b', '\x0c', '\x1c', '\x1d', '\x1e', '\x1f', '\x85', '\xa0', ' ', ' ', ' ', '　']
NONASCII_DIGITS = ['٠١٢٣٤٥٦٧٨٩', '０１２３４５６７８９',
                   '०१२३४५६७८९', '۰۱۲۳۴۵۶۷۸۹']
EXPONENTS = ['E5', 'e5', 'E+2', 'e-3', 'E0', 'e+0', 'E-1', 'e1', 'E18', 'e-18']
GARBAGE_TAIL = ['abc', 'x', ',0', ';', '\x00', '%', 'L', 'f', 'd', 'j', 'n', '/2', ' 1', '#', '..', 'e', 'E', '_', '²', '﻿', "'"]
GARBAGE_HEAD = ['x', '$', '#', '0x', "'", '=', '\x00', 'a', '﻿', '_', ',', '(', 'u']
COMMON_NM = ['underscore', 'exponent', 'nonascii-digit-first', 'nonascii-digit-inner', 'nonascii-digit-last', 'nonascii-digit-appended',
             'py-ws-lead', 'py-ws-trail', 'inner-ws', 'trailing-garbage', 'leading-garbage', 'sign-misplaced', 'unicode-sign']
NM = {
    'integer': COMMON_NM + ['special-word', 'radix-prefix', 'double-sign', 'sign-space', 'decimal-point', 'empty'],
    'timestamp': COMMON_NM + ['special-word', 'radix-prefix', 'double-sign', 'sign-space', 'decimal-point', 'empty'],
    'decimal': COMMON_NM + ['special-word', 'radix-prefix', 'double-sign', 'sign-space', 'comma', 'two-dots', 'no-digits'],
    'duration': COMMON_NM + ['xml-ws-lead', 'xml-ws-trail', 'lowercase', 'comma', 'missing-T', 'date-field', 'field-order', 'field-repeat',
                             'fraction-on-HM', 'empty-fraction', 'empty-seconds', 'no-designator', 'negative', 'double-newline',
                             'special-word'],
    'datetime': COMMON_NM + ['xml-ws-lead', 'xml-ws-trail', 'space-separator', 'lowercase', 'basic-format', 'short-time', 'comma',
                             'tz-no-colon', 'tz-hour-only', 'out-of-range', 'short-field', 'eod-not-zero', 'plus-year',
                             'year-leading-zero', 'double-newline', 'time-without-day'],
}


def mutate(rng, s):
    k = rng.choice([1, 1, 1, 2])
    for _ in range(k):
        i = rng.randrange(len(s) + 1)
        op = rng.random()
        if op < 0.55 or not s:
            s = s[:i] + rng.choice(JUNK) + s[i:]
        elif op < 0.8 and i < len(s):
            s = s[:i] + s[i + 1:]
        elif i < len(s):
            s = s[:i] + rng.choice(JUNK + list('0123456789')) + s[i + 1:]
    return s


def near_miss(rng, kind, s, label):
    """s: a valid lexical form (numbers: without surrounding white space).  Returns a form that a lenient parser built on
    python's int() / float() / Decimal() / datetime would typically still take, or that starts / ends like a valid one."""
    runs = [(m.start(), m.end()) for m in re.finditer(r'[0-9]+', s)]
    a, b = rng.choice(runs)
    alt = rng.choice(NONASCII_DIGITS)
    numeric = kind in ('integer', 'timestamp', 'decimal')
    if label == 'underscore':
        if b - a >= 2:
            i = rng.randrange(a + 1, b)
            return s[:i] + '_' + s[i:]
        return s[:b] + '_' + s[a:b] + s[b:]
    if label == 'exponent':
        if kind == 'datetime':
            a, b = runs[-1] if 'T' in s else (a, b)
        return s[:b] + rng.choice(EXPONENTS) + s[b:]
    if label == 'nonascii-digit-first':
        return s[:a] + alt[int(s[a])] + s[a + 1:]
    if label == 'nonascii-digit-inner':
        i = rng.randrange(a + 1, b) if b - a >= 2 else a
        if b - a < 2:      # make room: a two digit run whose second digit is replaced
            return s[:b] + alt[rng.randrange(10)] + s[b:]
        return s[:i] + alt[int(s[i])] + s[i + 1:]
    if label == 'nonascii-digit-last':
        return s[:b - 1] + alt[int(s[b - 1])] + s[b:]
    if label == 'nonascii-digit-appended':
        return s[:b] + alt[rng.randrange(10)] + s[b:]
    if label == 'py-ws-lead':
        return rng.choice(PY_WS) + s
    if label == 'py-ws-trail':
        return s + rng.choice(PY_WS)
    if label == 'inner-ws':
        i = rng.randrange(1, len(s)) if len(s) > 1 else 1
        if len(s) == 1:
            return s + ' ' + s
        return s[:i] + rng.choice(WS + [' ', ' ', '\xa0']) + s[i:]
    if label == 'trailing-garbage':
        return s + rng.choice(GARBAGE_TAIL)
    if label == 'leading-garbage':
        return rng.choice(GARBAGE_HEAD) + s
    if label == 'sign-misplaced':
        if numeric:
            return s + rng.choice('+-') if rng.random() < 0.5 else s[:b] + rng.choice('+-') + s[b:] + '1'
        return s[:a] + rng.choice('+-') + s[a:]
    if label == 'unicode-sign':
        sg = rng.choice(['−', '＋', '－', '–', '±'])
        return (sg + s.lstrip('+-')) if numeric else s[:a] + sg + s[a:]
    if label == 'special-word':
        w = rng.choice(['NaN', 'nan', 'Infinity', 'infinity', 'inf', '-inf', '+Inf', 'sNaN', 'nan123', 'INF', '-Infinity', 'None', 'null', 'true'])
        if kind == 'duration':
            return 'PT' + w + 'S'
        return w
    if label == 'radix-prefix':
        return rng.choice(['0x', '0X', '0o', '0b', '0B', '#x', '&#x']) + rng.choice(['1F', '17', '11', '0', s.lstrip('+-')])
    if label == 'double-sign':
        return rng.choice(['++', '--', '+-', '-+']) + s.lstrip('+-')
    if label == 'sign-space':
        return rng.choice('+-') + rng.choice([' ', '\t', '\n']) + s.lstrip('+-')
    if label == 'decimal-point':
        return s + rng.choice(['.0', '.', '.5', '.00', '.0e0'])
    if label == 'empty':
        return rng.choice(['', ' ', '\n', '+', '-', '\t \t'])
    if label == 'comma':
        if kind == 'decimal':
            return s.replace('.', ',') if '.' in s else s + ',5'
        return s.replace('.', ',', 1) if '.' in s else s[:b] + ',5' + s[b:]
    if label == 'two-dots':
        return (s + '.5') if '.' in s else s + '.1.2'
    if label == 'no-digits':
        return rng.choice(['.', '+.', '-.', '-', '+', '', ' . ', '..', '.e1', 'e5', '.E5'])
    if label == 'xml-ws-lead':
        return rng.choice([' ', '\t', '\r', '\n', '  ']) + s
    if label == 'xml-ws-trail':
        return s + rng.choice([' ', '\t', '\r', '\r\n', ' \n', '\n '])
    if label == 'double-newline':
        return s.rstrip('\n') + '\n\n'
    if label == 'lowercase':
        t = s.lower()
        return t if t != s else s.replace('-', 't', 1)
    # ---- durations
    if label == 'missing-T':
        return s.replace('PT', 'P', 1)
    if label == 'date-field':
        return s.replace('PT', rng.choice(['P1DT', 'P1Y', 'P1M', 'P0DT', 'P1W', 'P1Y2M3DT']), 1)
    if label == 'field-order':
        return 'PT' + rdigits(rng, 1) + rng.choice(['S', 'M']) + rdigits(rng, 2) + rng.choice(['H', 'M'])
    if label == 'field-repeat':
        x = rng.choice('HMS')
        return 'PT' + rdigits(rng, 2) + x + rdigits(rng, 1) + x
    if label == 'fraction-on-HM':
        return 'PT' + rdigits(rng, 1) + '.' + rdigits(rng, 1) + rng.choice(['H', 'M', 'H1S', 'M1S'])
    if label == 'empty-fraction':
        return 'PT' + rdigits(rng, 2) + '.S'
    if label == 'empty-seconds':
        return rng.choice(['PT.' + rdigits(rng, 2) + 'S', 'PTS', 'PTH', 'PT1H.5S', 'PTM'])
    if label == 'no-designator':
        return rng.choice(['PT' + rdigits(rng, 2), 'PT1H' + rdigits(rng, 2), 'PT' + rdigits(rng, 1) + '.' + rdigits(rng, 3), rdigits(rng, 2) + 'S', 'T1S', 'P', 'PT'])
    if label == 'negative':
        return rng.choice(['-' + s, s.replace('PT', 'PT-', 1), s.replace('PT', 'P-T', 1)])
    # ---- date / time
    if label == 'space-separator':
        return s.replace('T', ' ', 1) if 'T' in s else s.replace('-', ' ', 1) if '-' in s[1:] else s + ' '
    if label == 'basic-format':
        return rng.choice(['20200506', '20200506T101112', '2020-05-06T101112', '202005', '2020-0506', '2020-W01-1', '2020-127'])
    if label == 'short-time':
        return rng.choice(['2020-05-06T10:11', '2020-05-06T10', '2020-05-06T10:11Z', '2020-05-06T', '2020-05-06T10:11:', '2020-05-06T1:02:03'])
    if label == 'tz-no-colon':
        return rng.choice(['2020-05-06T10:11:12+0100', '2020-05-06+0100', '2020+0100', '2020-05-0600', '2020-05-06T10:11:12-0530'])
    if label == 'tz-hour-only':
        return rng.choice(['2020-05-06T10:11:12+01', '2020-05-06-05', '2020-05-06T10:11:12+1', '2020-05+1:00', '2020-05-06T10:11:12UTC',
                           '2020-05-06T10:11:12 Z', '2020-05-06T10:11:12GMT', '2020-05-06T10:11:12+01:0', '2020-05-06T10:11:12+001:00'])
    if label == 'out-of-range':
        return rng.choice(['2020-13-01', '2020-00-10', '2020-01-00', '2020-01-32', '2020-05-06T24:00:01', '2020-05-06T25:00:00', '2020-05-06T10:60:00',
                           '2020-05-06T10:11:60', '2020-05-06T10:11:61.5', '2020-05-06+14:01', '2020-05-06-15:00', '2020-05-06+13:60', '2020-05-06T24:01:00'])
    if label == 'short-field':
        return rng.choice(['2020-5-06', '2020-05-6', '202-05-06', '20-05-06', '2020-05-06T1:02:03', '2020-05-06T10:1:03', '2020-05-06T10:11:3',
                           '2020-005-06', '2020-05-006', '2020-05-06T010:11:12', '2020-05-06T10:11:012'])
    if label == 'eod-not-zero':
        return rng.choice(['2020-05-06T24:00:00.1', '2020-05-06T24:00:00.', '2020-05-06T24:00:00.01', '2020-05-06T24:00', '2020-05T24:00:00', '2020-05-06T24:00:00.0001Z'])
    if label == 'plus-year':
        return '+' + s.lstrip('-')
    if label == 'year-leading-zero':
        return ('-' if s.startswith('-') else '') + '0' + s.lstrip('-') if len(re.match(r'-?([0-9]+)', s).group(1)) >= 4 else s
    if label == 'time-without-day':
        return rng.choice(['2020-05T10:11:12', '2020T10:11:12', 'T10:11:12', '10:11:12', '2020--06', '--05-06', '2020-05-'])
    raise AssertionError(label)


def ws(rng):
    return ''.join(rng.choice(WS) for _ in range(rng.choice([0, 0, 0, 0, 1, 2])))


INT_LENS = [1, 1, 2, 3, 5, 6, 7, 9, 10, 13, 18, 19, 20, 25, 40]
FRAC_LENS = [1, 2, 3, 6, 6, 7, 7, 8, 9, 10, 12, 18, 19, 20, 30]


def gen_int_core(rng, lens=INT_LENS):
    return rng.choice(['', '', '', '-', '+']) + rng.choice(['', '', '0', '00']) + rdigits(rng, rng.choice(lens))


def gen_int_lex(rng):
    s = ws(rng) + gen_int_core(rng) + ws(rng)
    return mutate(rng, s) if rng.random() < 0.2 else s


def gen_dec_core(rng):
    ip = rng.choice(['', '0', '00', '']) + rdigits(rng, rng.choice([0, 1, 1, 2, 4, 7, 9, 10, 17, 18, 20, 40]))
    s = rng.choice(['', '', '', '-', '+']) + ip
    if rng.random() < 0.7:
        s += '.' + rdigits(rng, rng.choice([0, 1, 2, 3, 6, 7, 9, 10, 12, 18, 19, 25, 40])) + rng.choice(['', '', '0', '000'])
    if not re.search('[0-9]', s):
        s += rng.choice(['0', '5', '00'])
    return s


def gen_dec_lex(rng):
    s = ws(rng) + gen_dec_core(rng) + ws(rng)
    return mutate(rng, s) if rng.random() < 0.2 else s


def gen_dec_padded(rng):
    """a value with at most 18 significant digits written with redundant zeros (leading zeros, trailing fraction zeros,
    integer parts that end in zeros): the lexical form is longer than the value's canonical form"""
    n = rng.choice([1, 2, 5, 9, 12, 16, 17, 18, 18, 18])
    sig = rdigits(rng, n, lead_nonzero=True)
    if rng.random() < 0.6:
        k = rng.randint(1, min(6, n))
        sig = (sig[:n - k].rstrip('0') or '1') + '0' * k if n - k > 0 else sig
    sig = sig[:18]
    point = rng.choice([len(sig), len(sig), len(sig), len(sig) - 1, rng.randint(0, len(sig)), 0])
    ip, fp = sig[:point], sig[point:]
    if not ip and rng.random() < 0.5:
        fp = '0' * rng.randint(0, 18 - len(fp.rstrip('0') or '0')) + fp
    fp = fp.rstrip('0')
    if len(fp) > 18:
        fp = fp[:18].rstrip('0')
    s = rng.choice(['', '', '-', '+']) + rng.choice(['', '', '0', '000']) + ip
    s += '.' + fp + rng.choice(['0', '00', '000000', '0' * 19, '']) if (fp or rng.random() < 0.8) else ''
    if s.lstrip('+-') in ('', '.'):
        s += '0'
    return s


def gen_dec_val(rng):
    neg = rng.random() < 0.4
    n = rng.choice([1, 1, 2, 3, 5, 8, 12, 16, 17, 18, 18, 18, 19, 20, 24, 30])
    digs = rdigits(rng, n).lstrip('0') or '0'
    r = rng.random()
    if r < 0.1:
        digs = '0'
    elif r < 0.3:
        digs = (digs.rstrip('0') or '1') + '0' * rng.randint(1, 6)
    e = rng.choice([0, 0, -1, -2, -3, -6, -17, -18, 18, 17, 1, 2, 5, -19, 19, -25, 25, rng.randint(-18, 18), rng.randint(-18, 18),
                    -len(digs), 1 - len(digs), -len(digs) - 1, -len(digs) - 5])
    return [neg, digs, e]


def gen_decf_val(rng):
    """an argument of DecimalConverter.to_xml that is not a Decimal: ['float', negative?, mantissa, exponent] (value =
    mantissa * 2**exponent, the sign apart so that -0.0 exists) or ['int', digits].  Magnitudes 1e-7 .. 1e22 with the
    places where something changes: the rounding brackets 10 and 100, ties of the 1st / 2nd / 3rd fraction digit, 1e15 ..
    1e17 (str(float) and repr switch to exponent notation at 1e16), 2^49 .. 2^53 (binary64 runs out of fraction bits),
    integers stored as floats."""
    import math
    r = rng.random()
    if r < 0.12:
        return ['int', str(rng.choice([1, -1]) * rng.choice([0, 1, 9, 10, 99, 100, rng.randrange(10 ** rng.randint(1, 22)), 10 ** rng.randint(1, 22)]))]
    if r < 0.32:      # log-uniform over the whole range
        x = rng.uniform(1, 10) * 10.0 ** rng.randint(-7, 21)
    elif r < 0.44:    # next to the bracket bounds and powers of ten
        x = rng.choice([10.0, 100.0, 1.0, 1000.0, 9.9995, 99.995, 9.9994999, 99.99499, 0.0005, 0.0015, 1e15, 1e16, 1e17, 1e18, 1e21, 1e22, 9.999e15,
                        9007199254740992.0, 4503599627370496.0, 123456789012345678.0, 1.2345678901234568e17, 2.5e16, 1e-7, 1e-4, 5e-4, 4.9e-4])
        for _ in range(rng.randint(0, 2)):
            x = math.nextafter(x, rng.choice([0.0, math.inf]))
    elif r < 0.62:    # next to a tie of the digit that is rounded
        n, scale = rng.choice([(3, 10), (2, 100), (1, 10 ** rng.randint(3, 14))])
        k = rng.randrange(scale // 10 * 10 ** n, scale * 10 ** n) if n < 3 else rng.randrange(0, 10 ** 4)
        x = (k + 0.5) / 10 ** n
        for _ in range(rng.randint(0, 2)):
            x = math.nextafter(x, rng.choice([0.0, math.inf]))
    elif r < 0.76:    # few fraction bits left
        x = math.ldexp(rng.randrange(1 << 52, 1 << 53), rng.randint(-8, 1))
    elif r < 0.88:    # integers as floats, 1 .. 22 digits
        x = float(rng.randrange(10 ** rng.randint(0, 22)))
    else:             # short decimals, as an application would pass them
        x = float(Decimal(rng.randrange(10 ** rng.randint(1, 8))).scaleb(-rng.randint(0, 7)))
    neg = rng.random() < 0.3
    m, e = float_me(abs(x))
    return ['float', neg, m, e]


def gen_dur_fraction(rng):
    """fraction digits of a seconds field: every length, values whose digits beyond the sixth are zeros (10 ms written with
    seven digits), next to the rounding tie of the seventh digit, sub-microsecond values"""
    r = rng.random()
    if r < 0.45:
        return rdigits(rng, rng.choice(FRAC_LENS))
    if r < 0.6:
        return (rdigits(rng, rng.randint(1, 6)).ljust(6, '0') + '0' * rng.choice([1, 1, 2, 3, 6, 12]))
    if r < 0.8:
        return rdigits(rng, 6) + rng.choice(['5', '50', '500000', '4999999999999999', '5000000000000001', '49', '51', '4', '6', '05', '95'])
    if r < 0.9:
        return '000000' + rng.choice(['1', '4', '5', '6', '9', '04', '49', '51', '99', '500', '0001'])
    return rdigits(rng, rng.choice([7, 8, 9])).rstrip('0') or '1'


def gen_dur_core(rng):
    s = 'PT'
    if rng.random() < 0.5:
        s += rng.choice(['', '0']) + rdigits(rng, rng.choice([1, 1, 2, 4, 7, 9])) + 'H'
    if rng.random() < 0.5:
        s += rdigits(rng, rng.choice([1, 2, 2, 5, 8])) + 'M'
    if rng.random() < 0.8 or s == 'PT':
        s += rng.choice(['', '', '0', '00']) + rdigits(rng, rng.choice([1, 1, 2, 2, 3, 5, 6, 8, 9, 10, 10, 12, 13, 14, 17]))
        if rng.random() < 0.7:
            s += '.' + gen_dur_fraction(rng)
        s += 'S'
    return s


def gen_dur_lex(rng):
    s = gen_dur_core(rng)
    r = rng.random()
    if r < 0.08:
        s += '\n'
    elif r < 0.1:
        s = rng.choice(['PT' + '9' * rng.randint(10, 22) + 'H', 'PT' + '9' * rng.randint(12, 25) + 'M', 'PT' + '9' * rng.randint(14, 15) + 'S',
                        'P1Y', 'P1D', 'PT', 'P', '-PT1S', 'P1DT1S', 'PT86399999999999.999999S', 'PT86399999999999.9999996S',
                        'PT86400000000000S', 'PT23999999999H59M59.9999994S'])
    return mutate(rng, s) if rng.random() < 0.15 else s


def gen_dur_val(rng):
    r = rng.random()
    if r < 0.45:
        us = rng.choice([rng.randrange(0, 10 ** rng.randint(1, 18)), rng.randrange(0, 100) * 10 ** rng.randint(0, 12),
                         rng.randrange(60) * 1000000 * 60 ** rng.randint(0, 2) + rng.randrange(10 ** 6),
                         rng.randrange(1, 1000) * 3600000000, rng.randrange(1, 60) * 60000000])
        return ['float', repr(us / 1e6)]
    if r < 0.6:
        return ['float', repr(rng.random() * 10 ** rng.randint(-8, 12))]
    if r < 0.7:
        return ['int', str(rng.choice([0, 1, 59, 60, 61, 3599, 3600, 3601, 86400, rng.randrange(10 ** rng.randint(1, 13))]))]
    if r < 0.9:
        return ['dec', str(Decimal(rng.randrange(10 ** rng.randint(1, 15))).scaleb(-rng.randint(0, 9)))]
    if r < 0.95:
        return ['float', repr(-rng.random() * 10 ** rng.randint(-3, 6))]
    return ['float', repr(rng.choice([0.0, 5e-7, 1.5e-6, 2.5e-6, 1e-7, 59.9999995, 0.9999995, 86399999999999.0, 8.64e13 - 1]))]


def gen_dt_val(rng):
    y = rng.choice([rng.randint(-3000, 3000), rng.randint(0, 9999), rng.randint(-10 ** 6, 10 ** 6), 0, 1, -1, 999, 1000, 9999, 10000])
    mo = d = t = None
    eod = False
    if rng.random() < 0.85:
        mo = rng.randint(1, 12)
        if rng.random() < 0.85:
            d = rng.randint(1, 31)
            r = rng.random()
            if r < 0.15:
                eod = True
            elif r < 0.85:
                t = [rng.randint(0, 23), rng.randint(0, 59),
                     rng.choice([rng.randrange(60) * 10 ** 6, rng.randrange(60 * 10 ** 6), rng.randrange(60000) * 1000, rng.randrange(10),
                                 59999999, 0, 9999999, 10000000])]
    tz = None
    if rng.random() < 0.6:
        tz = rng.choice([0, rng.randint(-840, 840), 840, -840, rng.randint(-14, 14) * 60, -1, 1, 59, -60])
    return [y, mo, d, t, eod, tz]


def dt_string(v, frac=None):
    """canonical string of a generated value (harness-side, only used to derive lexical test strings); frac: fraction
    digits of the second field to use instead of the canonical ones"""
    y, mo, d, t, eod, tz = v
    s = ('-' if y < 0 else '') + f'{abs(y):04d}'
    if mo is not None:
        s += f'-{mo:02d}'
    if d is not None:
        s += f'-{d:02d}'
    if eod:
        s += 'T24:00:00'
    elif t:
        s += f'T{t[0]:02d}:{t[1]:02d}:{t[2] // 10 ** 6:02d}'
        if frac is not None:
            s += '.' + frac
        elif t[2] % 10 ** 6:
            s += '.' + f'{t[2] % 10 ** 6:06d}'.rstrip('0')
    if tz is not None:
        s += 'Z' if tz == 0 else ('+' if tz > 0 else '-') + f'{abs(tz) // 60:02d}:{abs(tz) % 60:02d}'
    return s


def gen_dt_core(rng):
    v = gen_dt_val(rng)
    frac = gen_dur_fraction(rng) if v[3] and rng.random() < 0.45 else None
    return dt_string(v, frac)


def gen_dt_lex(rng):
    s = gen_dt_core(rng)
    r = rng.random()
    if r < 0.12:
        s += rng.choice(['.0', '.000', '.1234567', '.50', '\n', 'Z', '+14:00', '+14:01', '-00:00', '+00:00', '-14:00', '+13:59', '.', '+15:00'])
    elif r < 0.2:
        s = rng.choice(['0', '00', '000']) + s
    elif r < 0.25:
        s = s.replace('T', rng.choice(['T24:00:00', 'T24:00:00.0', 'T24:00:01', 't', ' ']), 1)
    return mutate(rng, s) if rng.random() < 0.2 else s


def with_near_misses(rng, kind, plain, core_gen, per_label, wrap_ws=False):
    """[(label, string)]: the plain stream (label 'gen': valid forms and random mutations), then per_label near misses of
    every class of NM[kind], each derived from a fresh valid form"""
    out = [('gen', s) for s in plain]
    for label in NM[kind]:
        for _ in range(per_label):
            core = core_gen(rng)
            s = near_miss(rng, kind, core, label)
            if wrap_ws and rng.random() < 0.3:     # XML white space around a numeric near miss must not rescue it
                s = rng.choice(WS) + s + rng.choice(WS)
            out.append((label, s))
    return out


def float_me(x: float):
    num, den = x.as_integer_ratio()
    return [num, -(den.bit_length() - 1)]


def gen_ts_floats(rng, n):
    import math
    out = []
    for _ in range(n):
        r = rng.random()
        if r < 0.35:      # next to a rounding tie (k + 1/2) ms
            k = rng.randrange(0, 1 << rng.choice([4, 10, 20, 30, 40, 41, 43, 49]))
            x = (k + 0.5) / 1000
            for _ in range(rng.randint(0, 3)):
                x = math.nextafter(x, rng.choice([0.0, math.inf]))
        elif r < 0.6:     # next to an exact millisecond
            k = rng.randrange(0, 1 << rng.choice([4, 10, 20, 30, 40, 41, 43, 49]))
            x = k / 1000
            for _ in range(rng.randint(0, 2)):
                x = math.nextafter(x, rng.choice([0.0, math.inf]))
        elif r < 0.85:    # any float in a wide range
            x = math.ldexp(rng.randrange(1 << 52, 1 << 53), rng.randint(-80, -3))
        elif r < 0.93:
            x = float(rng.randrange(0, 1 << rng.randint(1, 45)))
        else:             # beyond the claimed range: model comparison only
            x = math.ldexp(rng.randrange(1 << 52, 1 << 53), rng.randint(-12, 8))
        out.append(float_me(abs(x)))
    out += [[0, 0], float_me(0.0005), float_me(0.0015), float_me(0.0025), float_me(1.001), float_me(10.001)]
    return out


# --------------------------------------------------------------------------------------------- model driver (OCaml)
def run_driver(exe, lines, procs=12):
    if not lines:
        return []
    size = (len(lines) + procs - 1) // procs
    chunks = [lines[i:i + size] for i in range(0, len(lines), size)]

    def one(ch):
        p = subprocess.run([exe], input='\n'.join(ch) + '\n', capture_output=True, text=True, timeout=1500)
        return p.stdout.splitlines()
    with ThreadPoolExecutor(max_workers=procs) as ex:
        res = list(ex.map(one, chunks))
    return [ln for r in res for ln in r]


def same_value(a: int, s: int, m: int, e: int) -> bool:
    """a / 2^s == m * 2^e"""
    k = e + s
    return a == (m << k) if k >= 0 else (a << -k) == m


# --------------------------------------------------------------------------------------------- implementation run
SKIP = 'SKIPPED:stream-crashed'
PLACEHOLDER = {'decf_vals': [SKIP, None, None], 'decf_lex': SKIP, 'ts_ns': [0, 0, -1, SKIP], 'ts_floats': [SKIP], 'ts_exact': SKIP, 'ts_lex': SKIP, 'dec_vals': [SKIP, None], 'dec_lex': [SKIP, None],
               'int_vals': [SKIP, None], 'int_lex': SKIP, 'bool_lex': SKIP, 'dur_vals': [SKIP, None, None, None], 'dur_lex': [SKIP, None],
               'dt_vals': [SKIP, None, None], 'dt_lex': [SKIP, None]}


def is_skip(x):
    return isinstance(x, str) and x.startswith('SKIPPED')


def run_impl(ctx, payload):
    """The implementation script guards every call into the library, so normally this is one subprocess.  Should the
    process die all the same (interpreter killed, C level hang), every stream is run on its own, the crashing stream is
    bisected down to one input (reported as a failing input) and replaced by placeholders that the oracles skip."""
    impl = ctx.impl('c18_impl', payload, timeout=1500)
    if impl.get('_crash'):
        ctx.log('implementation run died, running the streams one by one: ' + str(impl.get('stderr', ''))[-300:])
        impl = {}
        for key, val in payload.items():
            one = ctx.impl('c18_impl', {key: val}, timeout=600)
            if not one.get('_crash'):
                impl.update(one)
                continue
            culprit = None
            if isinstance(val, list) and key != 'ts_window':
                lo, hi = 0, len(val)
                for _ in range(24):
                    if hi - lo <= 1:
                        break
                    mid = (lo + hi) // 2
                    if ctx.impl('c18_impl', {key: val[lo:mid]}, timeout=120).get('_crash'):
                        hi = mid
                    elif ctx.impl('c18_impl', {key: val[mid:hi]}, timeout=120).get('_crash'):
                        lo = mid
                    else:
                        break
                if hi - lo == 1:
                    culprit = val[lo]
            ctx.broken('correspondence', f'implementation stream {key}', {'died': one.get('stderr', '')[-600:], 'input': culprit})
            if culprit is not None:
                ctx.fail(f'{key}: the conversion of {culprit!r} neither returns nor raises: the interpreter dies / hangs',
                         {'stream': key, 'clause': 'crash'}, {'stream': key, 'case': {'input': culprit}, 'impl_trace': one.get('stderr', '')[-600:]})
    for key, tb in (impl.get('_stream_errors') or {}).items():
        ctx.broken('correspondence', f'implementation stream {key} (driver code failed)', tb)
    for key, val in payload.items():
        if key in impl or key in ('enum', 'wiring'):
            continue
        if key == 'ts_window':
            n = val[1] - val[0]
            impl[key] = {'m': [0] * n, 'e': [0] * n, 'back': list(range(val[0], val[1])), 'odd': {}, 'skipped': True}
        else:
            impl[key] = [PLACEHOLDER[key]] * len(val)
    impl.setdefault('enum', [])
    return impl


# --------------------------------------------------------------------------------------------- main
def run(ctx):
    rng = ctx.rng
    if not ctx.prove():
        ctx.broken('theorem', 'Props/C18.v', ctx.proof_error)
    exe, log = ctx.ocaml_driver('Extract/Extract_Scalars.v', 'scalars_model', 'driver_c18')
    if exe is None:
        ctx.broken('correspondence', 'extraction/driver build', log[-1500:])

    # ------------------------------------------------------------------ inputs
    win = [0, ctx.n(200000, 2000000)]
    ts_ns = [rng.randrange(1 << rng.randint(1, 53)) % TS_LIMIT for _ in range(ctx.n(4000, 60000))]
    ts_ns += [TS_LIMIT - 1, TS_LIMIT - 2, TS_LIMIT // 2, 1 << 43, (1 << 43) - 1, 1 << 42]
    ts_ns += [TS_LIMIT + rng.randrange(1 << rng.randint(1, 63)) for _ in range(ctx.n(500, 5000))]   # beyond: model only
    ts_floats = gen_ts_floats(rng, ctx.n(6000, 100000))
    ts_exact = []
    for _ in range(ctx.n(600, 6000)):
        if rng.random() < 0.4:
            ts_exact.append(['int', str(rng.randrange(10 ** rng.randint(1, 12)))])
        else:
            ts_exact.append(['dec', str(Decimal(rng.randrange(10 ** rng.randint(1, 16))).scaleb(-rng.choice([0, 1, 3, 4, 4, 5, 7])))])
    ts_exact += [['dec', '10.0015'], ['dec', '10.0025'], ['dec', '0.0005'], ['int', '10'], ['dec', '1E+3']]
    k = ctx.n(8, 60)          # near misses per class and type
    ts_core = lambda r: gen_int_core(r, [1, 2, 3, 5, 6, 7, 9, 10, 13, 16, 18, 19, 25, 40])
    ts_lab = with_near_misses(rng, 'timestamp', [gen_int_lex(rng) for _ in range(ctx.n(600, 8000))] + ['1' + '0' * 40, '9' * 300, '0' * 50 + '7'],
                              ts_core, k, wrap_ws=True)
    ts_lex = [s for _, s in ts_lab]
    dec_vals = [gen_dec_val(rng) for _ in range(ctx.n(2600, 36000))]
    dec_vals += [[False, '1', -7], [False, '1', -18], [False, '123456789012345678', -18], [False, '123456789012345678', 3],
                 [True, '0', -1], [False, '0', -15], [False, '123', -3], [False, '0', 3], [True, '1', -7], [False, '1', 18]]
    dec_plain = [gen_dec_lex(rng) for _ in range(ctx.n(1800, 24000))] + [gen_dec_padded(rng) for _ in range(ctx.n(1000, 12000))] + [
        '987654321012345670.0', '100000000000000000.000', '-120000000000000000.0', '0010.0', '10.', '1230.00', '0.000000000000000001000',
        '0.' + '0' * 100 + '1', '1' * 100 + '.' + '2' * 100, '-.' + '9' * 400] + [
        'NaN', 'Infinity', '-Infinity', 'sNaN', '1E5', '1e-3', '1_0', '٣', '.', '', '5.', '.5', '-0', '+.0', '1.5e-3', '2_0.5', '1٥.5', '0E-15']
    dec_lab = with_near_misses(rng, 'decimal', dec_plain, gen_dec_core, k, wrap_ws=True)
    dec_lex = [s for _, s in dec_lab]
    decf_vals = [gen_decf_val(rng) for _ in range(ctx.n(1600, 30000))] + [
        ['float', False] + float_me(1e17), ['float', True] + float_me(2.5e16), ['float', False] + float_me(1.2345678901234568e17),
        ['float', False] + float_me(1e16), ['float', False] + float_me(9999999999999998.0), ['float', False] + float_me(1e22), ['float', True, 0, 0],
        ['float', False, 0, 0], ['float', True] + float_me(0.0004), ['float', False] + float_me(42.1), ['float', False] + float_me(1125899906842624.125),
        ['int', '0'], ['int', '-0'], ['int', str(10 ** 30)]]
    int_vals = [rng.choice([1, -1]) * rng.randrange(1 << rng.randint(1, 80)) for _ in range(ctx.n(600, 8000))] + [0, 1 << 32, 1 << 64, -(1 << 63)]
    int_plain = [gen_int_lex(rng) for _ in range(ctx.n(1300, 12000))] + [
        '1_000', '4_2', '12٣', '1２', '٣', ' 1 ', '\x0b1', '1\x1f', '\xa01', '+5', '-0', '', '+', '0x10', '1e3', '1.0', '1' * 100, '-' + '9' * 400, '0' * 200]
    int_lab = with_near_misses(rng, 'integer', int_plain, gen_int_core, k, wrap_ws=True)
    int_lex = [s for _, s in int_lab]
    bool_lex = ['true', 'false', '1', '0', 'foo', '', 'True', 'FALSE', ' true', 'true ', '2', '00', '01', 'yes', 'tru', 'truee', '\n1',
                'TRUE', 'False', 'true\n', '\ttrue', 'true\x0b', '\xa01', '1 ', ' 1', '1\n', 'on', 'off', 'no', 'y', 't', 'T', 'f', '+1', '-1', '1.0',
                '0.0', '1e0', '1_', '١', '１', '０', 'truex', 'xtrue', 'true1', '1true', 'true true', 'true,false', 'None', 'null',
                'TrUe', 'tRUE', '10', '11', '-0', '0x1', '\x001', 'true\x00']
    bool_lex += [mutate(rng, rng.choice(['true', 'false', '1', '0'])) for _ in range(ctx.n(150, 1500))]
    dur_vals = [gen_dur_val(rng) for _ in range(ctx.n(2100, 24000))]
    dur_plain = [gen_dur_lex(rng) for _ in range(ctx.n(2300, 24000))] + [
        'PT١S', 'PT1S\n', 'PT', 'PT0.0000005S', 'PT0.0000015S', 'PT1.0000005S', 'PT0.0100000S', 'PT1.1234567S', 'PT0.50000000S',
        'PT0.0000004S', 'PT0.0000001S', 'PT0.' + '0' * 400 + '1S', 'PT0.' + '9' * 400 + 'S', 'PT1.' + '5' * 100 + 'S', 'PT' + '9' * 400 + '.5S',
        'PT2147483648S', 'PT2147483647.9999999S', 'PT596523H14M7.9999996S']
    dur_lab = with_near_misses(rng, 'duration', dur_plain, gen_dur_core, k)
    dur_lex = [s for _, s in dur_lab]
    dt_vals = [gen_dt_val(rng) for _ in range(ctx.n(1300, 15000))]
    dt_plain = [gen_dt_lex(rng) for _ in range(ctx.n(2300, 24000))] + [
        '２０２０', '2020-02-31', '2021-02-29', '2020-05:00', '0000', '-0000', '2020-05-06T24:00:00.000Z', '2020-05-06T10:11:12.0100000',
        '2020-05-06T10:11:12.1234567', '2020-05-06T10:11:59.9999999', '2020-05-06T10:11:59.' + '9' * 400, '2020-05-06T10:11:00.' + '0' * 300 + '1Z', '2020-05-06T10:11:59.999999999999999', '2020-05-06T23:59:59.99999999999999999Z',
        '2020-05-06T10:11:12.5000000+01:00']
    dt_lab = with_near_misses(rng, 'datetime', dt_plain, gen_dt_core, k)
    dt_lex = [s for _, s in dt_lab]
    payload = {'ts_window': win, 'ts_ns': ts_ns, 'ts_floats': ts_floats, 'ts_exact': ts_exact, 'ts_lex': ts_lex, 'dec_vals': dec_vals,
               'dec_lex': dec_lex, 'decf_vals': decf_vals, 'decf_lex': dec_lex, 'int_vals': [str(n) for n in int_vals], 'int_lex': int_lex, 'bool_lex': bool_lex, 'enum': ctx.seed,
               'dur_vals': dur_vals, 'dur_lex': dur_lex, 'dt_vals': dt_vals, 'dt_lex': dt_lex, 'wiring': 1}
    impl = run_impl(ctx, payload)

    jobs = []

    def corr(stream, eqb, runf, cases, first):
        """cases: list of (input_literal, expected_literal); first(i) describes case i for the report.
        The evaluation inside Coq is deferred: all streams are evaluated concurrently by run_jobs()."""
        jobs.append((stream, eqb, runf, cases, first))

    def run_jobs():
        ok, log, _ = ctx.coq_make(['Common/Corr.vo'] + DEPS)
        if not ok:
            ctx.broken('correspondence', 'model build', ctx._first_error(log))
            return
        with ThreadPoolExecutor(max_workers=6) as ex:
            def one(j):
                t0 = time.time()
                r = ctx.coq_mism(j[0], HEADER, j[1], j[2], j[3], shard=1300, deps=())
                timing[j[0]] = (len(j[3]), round(time.time() - t0, 1))
                return r
            timing = {}
            results = list(ex.map(one, jobs))
            ctx.cov['coq_eval_timing (cases, s)'] = timing
        for (stream, eqb, runf, cases, first), (mism, err) in zip(jobs, results):
            if err:
                ctx.broken('correspondence', f'{stream} (coq evaluation)', err)
            elif mism:
                i = mism[0]
                d = first(i)
                d['model'] = ctx.coq_eval(HEADER, f'({runf}) {cases[i][0]}')[-600:]
                ctx.broken('correspondence', stream, {'disagreements': len(mism), 'first': d})

    # ------------------------------------------------------------------ timestamps: dense window + sampled counts
    w = impl['ts_window']
    changed = [n for n, b in zip(range(win[0], win[1]), w['back']) if b != n]
    if changed:
        n = changed[0]
        ctx.fail(f'timestamp {n} ms does not survive XML -> Python -> XML: to_xml(to_py({n!r})) = {w["back"][n - win[0]]} '
                 f'({len(changed)} of the {win[1] - win[0]} values of the dense window change)',
                 {'stream': 'ts', 'clause': 'xml_py_xml'},
                 {'stream': 'ts-window', 'case': {'xml': str(n)}, 'impl_trace': {'to_py(m,e)': [w['m'][n - win[0]], w['e'][n - win[0]]], 'to_xml': w['back'][n - win[0]]},
                  'oracle': {'verdict': 'fail', 'clause': 'to_xml(to_py(n)) == n'}})
    bad_s = [(n, r) for n, r in zip(ts_ns, impl['ts_ns']) if n < TS_LIMIT and r[2] != n and not (len(r) > 3 and is_skip(r[3]))]
    if bad_s:
        n, r = bad_s[0]
        ctx.fail(f'timestamp {n} ms does not survive XML -> Python -> XML: got {r[2]} ({len(bad_s)} sampled values change)',
                 {'stream': 'ts', 'clause': 'xml_py_xml'},
                 {'stream': 'ts-sampled', 'case': {'xml': str(n)}, 'impl_trace': r, 'oracle': {'verdict': 'fail', 'clause': 'to_xml(to_py(n)) == n'}})
    if exe:
        procs = 12
        step = (win[1] - win[0] + procs - 1) // procs
        lines = [f'W {lo} {min(step, win[1] - lo)}' for lo in range(win[0], win[1], step)]
        model = run_driver(exe, lines, procs)
        bad = []
        if w.get('skipped'):
            pass
        elif len(model) != win[1] - win[0]:
            bad.append(('length', len(model)))
        else:
            for i, ln in enumerate(model):
                a, s, back = ln.split()
                if not same_value(int(a, 2), int(s), w['m'][i], w['e'][i]) or int(back, 2) != w['back'][i]:
                    bad.append((win[0] + i, ln, w['m'][i], w['e'][i], w['back'][i]))
        if bad:
            ctx.broken('correspondence', 'ts-window', {'disagreements': len(bad), 'first (n, model a S back, impl m e back)': bad[0]})
        ctx.count('ts-window', win[1] - win[0], range(win[0], win[1]), exhaustive_window=win,
                  changed_by_roundtrip=len(changed))
        model = run_driver(exe, [f'N {n:b}' for n in ts_ns], procs)
        bad = []
        for n, r, ln in zip(ts_ns, impl['ts_ns'], model):
            if len(r) > 3 and is_skip(r[3]):
                continue
            a, s, back = ln.split()
            if not same_value(int(a, 2), int(s), r[0], r[1]) or int(back, 2) != r[2]:
                bad.append((n, ln, r))
        if bad or len(model) != len(ts_ns):
            ctx.broken('correspondence', 'ts-sampled', {'disagreements': len(bad), 'first (n, model, impl)': bad[:1], 'lines': len(model)})
        ctx.count('ts-sampled', len(ts_ns), ts_ns, in_claimed_range=sum(1 for n in ts_ns if n < TS_LIMIT),
                  bits_histogram={str(b): sum(1 for n in ts_ns if n.bit_length() // 8 == b // 8) for b in range(0, 64, 8)})
        ctx.sample({'stream': 'ts-sampled', 'xml': str(ts_ns[0]), 'impl [mantissa, exponent, to_xml]': impl['ts_ns'][0]})

        # -------------------------------------------------------------- timestamps: float -> xml -> float
        model = run_driver(exe, [f'F {m:b} {e}' for m, e in ts_floats], procs)
        bad, nfail, in_range, ties = [], 0, 0, 0
        for (m, e), r, ln in zip(ts_floats, impl['ts_floats'], model):
            x = Fraction(m) * Fraction(2) ** e
            if len(r) != 3:
                if not is_skip(r[0]):
                    bad.append(((m, e), ln, r))
                    if x <= TS_FLOAT_LIMIT:
                        ctx.fail(f'timestamp {float(x)!r} s cannot be written / read back: {r[0]}', {'stream': 'ts', 'clause': 'py_xml_py'},
                                 {'stream': 'ts-float', 'case': {'float (mantissa, exponent)': [m, e]}, 'impl_trace': r,
                                  'oracle': {'verdict': 'fail', 'clause': 'to_py(to_xml(x)) is a float'}})
                continue
            n2, m2, e2 = r
            mn, ma, ms = ln.split()
            if int(mn, 2) != n2 or not same_value(int(ma, 2), int(ms), m2, e2):
                bad.append(((m, e), ln, r))
            if x <= TS_FLOAT_LIMIT:
                in_range += 1
                if (float(x) * 1000) % 1 == 0.5:      # the binary64 product is a half-integer: round() has to break a tie
                    ties += 1
                back = Fraction(m2) * Fraction(2) ** e2
                if not abs(back - x) < Fraction(1, 1000):
                    nfail += 1
                    ctx.fail(f'timestamp {float(x)!r} s changes by {float(abs(back - x) * 1000)} ms in Python -> XML -> Python',
                             {'stream': 'ts', 'clause': 'py_xml_py'},
                             {'stream': 'ts-float', 'case': {'float (mantissa, exponent)': [m, e]}, 'impl_trace': r,
                              'oracle': {'verdict': 'fail', 'clause': '|to_py(to_xml(x)) - x| < 1 ms'}})
        if bad or len(model) != len(ts_floats):
            ctx.broken('correspondence', 'ts-float', {'disagreements': len(bad), 'first (x, model N a S, impl N m e)': bad[:1]})
        ctx.count('ts-float', len(ts_floats), [tuple(x) for x in ts_floats], in_claimed_range=in_range, product_is_half_integer_tie=ties)

        model = run_driver(exe, ['X {:b} {:b}'.format(*Fraction(Decimal(t) if k == 'dec' else int(t)).as_integer_ratio()) for k, t in ts_exact], procs)
        bad = []
        for (k, t), r, ln in zip(ts_exact, impl['ts_exact'], model):
            if is_skip(r):
                continue
            if not isinstance(r, int) or int(ln, 2) != r:
                bad.append(((k, t), ln, r))
                if not isinstance(r, int):
                    ctx.fail(f'TimestampConverter.to_xml({k} {t}) fails: {r}', {'stream': 'ts', 'clause': 'exact_argument'},
                             {'stream': 'ts-exact', 'case': {'kind': k, 'value': t}, 'impl_trace': r})
            elif abs(Fraction(Decimal(t)) * 1000 - r) > Fraction(1, 2):
                ctx.fail(f'TimestampConverter.to_xml({k} {t}) = {r} is not the nearest millisecond count',
                         {'stream': 'ts', 'clause': 'exact_argument'}, {'stream': 'ts-exact', 'case': {'kind': k, 'value': t}, 'impl_trace': r})
        if bad:
            ctx.broken('correspondence', 'ts-exact', {'disagreements': len(bad), 'first': bad[0]})
        ctx.count('ts-exact', len(ts_exact), [tuple(x) for x in ts_exact])

    # ------------------------------------------------------------------ lexical space of the numeric converters
    lexstat = {}

    def stat(stream):
        return lexstat.setdefault(stream, {'valid': 0, 'invalid': 0, 'invalid_accepted_by_lenient_python_parser': 0, 'near_miss_classes': {},
                                           'valid_from_near_miss_generator': 0, 'skipped': 0})

    def judge(kind, stream, label, s, res, want, value_of, shown=None):
        """EVERY case of a lexical stream is judged here, on the implementation's answer alone:
             want is None  (outside the lexical space) -> the converter must refuse (ValueError / ArithmeticError / OverflowError)
             otherwise                                 -> accepted, and value_of(res) is None (right value) or says what is wrong.
           Returns 'skip' | 'fail' | 'rejected' | 'accepted'."""
        st = stat(stream)
        if is_skip(res):
            st['skipped'] += 1
            return 'skip'
        rep = {'stream': stream, 'case': {'xml': s, 'generator_class': label}, 'impl_trace': res if shown is None else shown}
        if want is None:
            st['invalid'] += 1
            st['invalid_accepted_by_lenient_python_parser'] += lenient(kind, s)
            if label != 'gen':
                st['near_miss_classes'][label] = st['near_miss_classes'].get(label, 0) + 1
            if is_reject(res):
                return 'rejected'
            if is_err(res):
                ctx.fail(f'{kind}: {s!r} is outside the lexical space and is not refused with a ValueError but ends in {res}',
                         {'stream': 'lexical', 'type': kind, 'clause': 'unexpected-exception'},
                         dict(rep, oracle={'verdict': 'fail', 'clause': 'non-lexical forms are rejected with ValueError'}))
                return 'fail'
            ctx.fail(f'{kind}: {s!r} is outside the lexical space of the schema type but is accepted as {res!r}',
                     {'stream': 'lexical', 'type': kind}, dict(rep, oracle={'verdict': 'fail', 'clause': 'non-lexical forms are rejected'}))
            return 'fail'
        st['valid'] += 1
        if label != 'gen':
            st['valid_from_near_miss_generator'] += 1
        if is_err(res):
            ctx.fail(f'{kind}: valid lexical form {s!r} is rejected ({res})', {'stream': 'lexical', 'type': kind, 'clause': 'valid-rejected'},
                     dict(rep, oracle={'verdict': 'fail', 'clause': 'valid lexical forms are accepted'}))
            return 'fail'
        why = value_of(res)
        if why:
            ctx.fail(f'{kind}: {s!r} is converted to a different value: {why}', {'stream': 'lexical', 'type': kind, 'clause': 'value'},
                     dict(rep, oracle={'verdict': 'fail', 'clause': 'the value equals the exact value of the lexical form', 'exact': str(want)}))
            return 'fail'
        return 'accepted'

    def fr_of(me_):
        return Fraction(me_[0]) * Fraction(2) ** me_[1]

    def is_me(x):
        return isinstance(x, list) and len(x) == 2 and all(isinstance(v, int) and not isinstance(v, bool) for v in x)

    def fr_lit(r):
        m, e = r
        return f'(Some ({coqlit(m << max(e, 0))}, {coqlit(1 << max(-e, 0))}))'

    def lex_counts(stream, lab, results, digit_len):
        """histograms of a lexical stream: near-miss classes, digit-run lengths of the valid forms"""
        st = lexstat.get(stream, {})
        ctx.count(stream, len(lab), [s for _, s in lab], rejected=sum(1 for r in results if is_err(r)), **st,
                  valid_digit_length_histogram=hist(digit_len))

    cases, dl = [], []
    for (label, s), r in zip(ts_lab, impl['ts_lex']):
        want = ref_int(s)

        def ts_value(r, want=want):
            if not is_me(r):
                return f'not a float: {r!r}'
            x, q = fr_of(r), Fraction(want, 1000)
            # int / 1000 in binary64: correctly rounded, so within 2^-53 relative and equal to python's own true division
            if abs(x - q) > abs(q) / (1 << 53) or (abs(want) < 10 ** 300 and x != Fraction(want / 1000)):
                return f'{float(x)!r} s for {want} ms'
        v = judge('timestamp', 'ts-lex', label, s, r, want, ts_value)
        if want is not None:
            dl.append(bin_len(len(s.strip(XML_WS).lstrip('+-'))))
        if v != 'skip':
            cases.append((slit(s), fr_lit(r) if is_me(r) else '(@None (Z * Z))', {'xml': s, 'impl': r}))
    corr('ts-lex', 'option_eqb fr_eqb', 'ts_to_py_str', [c[:2] for c in cases], lambda i, cs=cases: cs[i][2])
    lex_counts('ts-lex', ts_lab, impl['ts_lex'], dl)

    cases, dl = [], []
    for (label, s), r in zip(int_lab, impl['int_lex']):
        want = ref_int(s)

        def int_value(r, want=want):
            if not (isinstance(r, str) and re.fullmatch(r'-?[0-9]+', r)):
                return f'not an int: {r!r}'
            if ref_int(r) != want:
                return f'{r} instead of {want}'
        v = judge('integer', 'int-lex', label, s, r, want, int_value)
        if want is not None:
            dl.append(bin_len(len(s.strip(XML_WS).lstrip('+-'))))
        if v != 'skip':
            okr = isinstance(r, str) and re.fullmatch(r'-?[0-9]+', r)
            cases.append((slit(s), f'(Some {coqlit(int(r))})' if okr else '(@None Z)', {'xml': s, 'impl': r}))
    corr('int-lex', 'option_eqb Z.eqb', 'int_to_py', [c[:2] for c in cases], lambda i, cs=cases: cs[i][2])
    lex_counts('int-lex', int_lab, impl['int_lex'], dl)
    if 'int_lex' in impl and not impl.get('int_shared_to_py') and not any(is_skip(r) for r in impl['int_lex']):
        ctx.broken('correspondence', 'int-lex', 'UnsignedInt/UnsignedLongConverter no longer share IntegerConverter.to_py')

    cases = []
    for n, (s, back) in zip(int_vals, impl['int_vals']):
        if is_skip(s):
            continue
        if back != str(n) or s != str(n):
            ctx.fail(f'integer {n} does not survive Python -> XML -> Python: xml {s!r}, back {back!r}', {'stream': 'int', 'clause': 'py_xml_py'},
                     {'stream': 'int-vals', 'case': {'value': n}, 'impl_trace': [s, back]})
        cases.append((coqlit(n), coqlit(s)))
    corr('int-vals', 'String.eqb', 'int_to_xml', cases, lambda i: {'value': int_vals[i], 'impl': impl['int_vals'][i]})
    ctx.count('int-vals', len(int_vals), int_vals)

    # ------------------------------------------------------------------ decimals
    def dec_fr(t):
        return Fraction((-1 if t[0] else 1) * int(t[1])) * Fraction(10) ** t[2]

    cases, n18 = [], 0
    for v, (s, back) in zip(dec_vals, impl['dec_vals']):
        neg, digs, e = v
        if is_skip(s):
            continue
        if len(digs) <= 18:
            n18 += 1
            why = None
            if is_err(s) or not isinstance(s, str):
                why = f'to_xml fails: {s}'
            elif 'e' in s.lower():
                why = f'exponent notation written: {s!r}'
            elif not XSD_DEC.match(s):
                why = f'{s!r} is not an xsd:decimal'
            elif not isinstance(back, list) or dec_fr(back) != dec_fr(v):
                why = f'written as {s!r}, read back as {back!r}: the numeric value changed'
            if why:
                ctx.fail(f'Decimal(sign={int(neg)}, digits={digs}, exp={e}): {why}',
                         {'stream': 'decimal', 'clause': 'py_xml_py'},
                         {'stream': 'dec-vals', 'case': {'decimal (neg, digits, exp)': v}, 'impl_trace': [s, back],
                          'oracle': {'verdict': 'fail', 'clause': 'value(to_py(to_xml(d))) == value(d), no exponent'}})
        cases.append((f'(mkdec {coqlit(neg)} {coqlit(digs)} {coqlit(e)})', coqlit(s if isinstance(s, str) and not is_err(s) else '?')))
    corr('dec-vals', 'String.eqb', 'dec_to_xml', cases, lambda i: {'decimal': dec_vals[i], 'impl': impl['dec_vals'][i]})
    ctx.count('dec-vals', len(dec_vals), [tuple(v) for v in dec_vals], up_to_18_digits=n18,
              digits_histogram={str(k): sum(1 for v in dec_vals if len(v[1]) == k) for k in sorted({len(v[1]) for v in dec_vals})},
              exponent_in_pm18=sum(1 for v in dec_vals if -18 <= v[2] <= 18))
    ctx.sample({'stream': 'dec-vals', 'decimal (neg, digits, exp)': dec_vals[0], 'impl [to_xml, to_py(to_xml)]': impl['dec_vals'][0]})

    cases, ncanon, nvalue, dl, fl = [], 0, 0, [], []
    for (label, s), (r, back) in zip(dec_lab, impl['dec_lex']):
        want = ref_dec(s)

        def dec_value(r, want=want):
            if not (isinstance(r, list) and len(r) == 3 and isinstance(r[1], str) and re.fullmatch('[0-9]+', r[1]) and isinstance(r[2], int)):
                return f'not a finite Decimal: {r!r}'
            if Fraction((-1 if r[0] else 1) * dval(r[1])) * Fraction(10) ** r[2] != want:
                return f'Decimal{tuple(r)!r} instead of {want}'
        v = judge('decimal', 'dec-lex', label, s, r, want, dec_value)
        if v == 'skip':
            continue
        core = s.strip(XML_WS)
        if want is not None:
            ip_, _, fp_ = core.lstrip('+-').partition('.')
            dl.append(bin_len(len(ip_)))
            fl.append(bin_len(len(fp_)))
        if v == 'accepted':
            # XML -> Python -> XML keeps the numeric value of every decimal whose VALUE has at most 18 digits
            # (leading zeros and trailing fraction zeros of the lexical form do not count)
            ip_, fp_ = ip_.lstrip('0'), fp_.rstrip('0')
            sig = len(ip_) + len(fp_) if ip_ else len(fp_.lstrip('0'))
            if sig <= 18 and len(fp_) <= 18:
                nvalue += 1
                why = None
                if not isinstance(back, str) or is_err(back):
                    why = f'to_xml fails: {back}'
                elif 'e' in back.lower() or not XSD_DEC.match(back):
                    why = f'written back as {back!r}, which is not a plain xsd:decimal'
                elif ref_dec(back) != want:
                    why = f'written back as {back!r}: the numeric value changed'
                if why:
                    ctx.fail(f'xsd:decimal {core!r} ({sig} significant digits): {why}', {'stream': 'decimal', 'clause': 'xml_py_xml_value'},
                             {'stream': 'dec-lex', 'case': {'xml': s}, 'impl_trace': [r, back],
                              'oracle': {'verdict': 'fail', 'clause': 'value(to_xml(to_py(s))) == value(s) for values of up to 18 digits'}})
            canon = re.fullmatch(r'-?(0|[1-9][0-9]*)(\.[0-9]*[1-9])?', core) and len(re.sub(r'[-.]', '', core).lstrip('0')) <= 18 \
                and len(core.replace('-', '').replace('.', '')) <= 18
            if canon:
                ncanon += 1
                if back != core:
                    ctx.fail(f'canonical decimal {core!r} is written back as {back!r}', {'stream': 'decimal', 'clause': 'xml_py_xml'},
                             {'stream': 'dec-lex', 'case': {'xml': s}, 'impl_trace': [r, back]})
        okr = isinstance(r, list) and len(r) == 3
        cases.append((slit(s), f'(Some {coqlit((r[0], r[1], r[2]))})' if okr else '(@None (bool * string * Z))', {'xml': s, 'impl': [r, back]}))
    corr('dec-lex', 'option_eqb dec_out_eqb', 'fun s => option_map dec_out (dec_to_py s)', [c[:2] for c in cases],
         lambda i, cs=cases: cs[i][2])
    st = lexstat.get('dec-lex', {})
    ctx.count('dec-lex', len(dec_lex), dec_lex, rejected=sum(1 for r, _ in impl['dec_lex'] if is_err(r)), canonical_roundtrips=ncanon,
              value_roundtrips_up_to_18_digits=nvalue, **st, valid_integer_digits_histogram=hist(dl), valid_fraction_digits_histogram=hist(fl))

    # ------------------------------------------------------------------ decimals given as float / int (DecimalConverter._float_to_xml)
    # Documented rounding of the float path ("round value to handle float inaccuracies"): 1 fraction digit for |x| >= 100,
    # 2 for |x| >= 10, 3 below; round(x, n) and the 'f' format both round the binary64 half-even.  Oracle, on the
    # implementation's answer alone:
    #   - the text is a plain xsd:decimal: digits, at most one '.', optional '-', NO exponent, no inf / nan
    #   - |value(text) - x| <= 0.5 * 10^-n + |x| * 2^-52   (the second term: round(x, n) is itself a binary64; it matters
    #     only above 2^49 where binary64 has fewer than n decimal fraction digits)
    #   - USE_DECIMAL_TYPE = False: to_py(text) is an int (no '.') or the float nearest to value(text), and writing it
    #     again gives the same value (read back equals)
    #   - int arguments: exactly str(int)
    cases, brackets, mags, nexp_zone, nround = [], [], [], 0, 0
    for c, (s_, back, again) in zip(decf_vals, impl['decf_vals']):
        if is_skip(s_):
            continue
        if c[0] == 'int':
            x = Fraction(int(c[1]))
            shown = c[1]
            tol = Fraction(0)
            brackets.append('int')
        else:
            x = (-1 if c[1] else 1) * Fraction(c[2]) * Fraction(2) ** c[3]
            shown = repr(float(x)) if x or not c[1] else '-0.0'
            n = 1 if abs(x) >= 100 else 2 if abs(x) >= 10 else 3
            tol = Fraction(1, 2 * 10 ** n) + abs(x) / (1 << 52)
            brackets.append(f'float, {n} fraction digit(s)')
            nexp_zone += abs(x) >= 10 ** 16
        mags.append('0' if x == 0 else f'1e{mag10(x):+03d}')
        rep_ = {'stream': 'decf-vals', 'case': {'argument': c, 'value': shown}, 'impl_trace': [s_, back, again]}
        why = clause = None
        val = ref_dec(s_) if isinstance(s_, str) and not is_err(s_) else None
        if is_err(s_) or not isinstance(s_, str):
            why, clause = f'to_xml fails: {s_}', 'to_xml'
        elif val is None or s_ != s_.strip(XML_WS) or s_.startswith('+'):
            why, clause = f'written as {s_!r}, which is not a plain xsd:decimal' + (' (exponent notation)' if 'e' in s_.lower() else ''), 'no_exponent'
        elif abs(val - x) > tol:
            why, clause = (f'written as {s_!r}: off by {float(abs(val - x))!r}, the documented rounding allows {float(tol)!r}'), 'rounding'
        elif c[0] == 'int' and s_ != str(int(c[1])):
            why, clause = f'int written as {s_!r}', 'rounding'
        else:
            nround += val != x
            want_kind = 'float' if '.' in s_ else 'int'
            if not (isinstance(back, list) and back[0] == want_kind):
                why, clause = f'{s_!r} is read back (USE_DECIMAL_TYPE = False) as {back!r}, expected a {want_kind}', 'read_back'
            elif want_kind == 'int' and ref_int(back[1]) != val:
                why, clause = f'{s_!r} is read back as int {back[1]}', 'read_back'
            elif want_kind == 'float' and fr_of(back[1]) != Fraction(float(val)):
                why, clause = f'{s_!r} is read back as {float(fr_of(back[1]))!r}', 'read_back'
            elif not isinstance(again, str) or ref_dec(again) != val:
                why, clause = f'{s_!r} is read back and written again as {again!r}: the value changed', 'read_back'
        if why:
            ctx.fail(f'DecimalConverter.to_xml({c[0]} {shown}): {why}', {'stream': 'decimal-float', 'clause': clause},
                     dict(rep_, oracle={'verdict': 'fail', 'clause': {
                         'no_exponent': 'the text is a plain xsd:decimal, exponent notation is never written',
                         'rounding': '|value(text) - x| <= 0.5 * 10^-n + |x| * 2^-52, n = 1 / 2 / 3 fraction digits for |x| >= 100 / >= 10 / below',
                         'read_back': 'USE_DECIMAL_TYPE = False: to_py(to_xml(x)) has the value of the text and is written back unchanged',
                         'to_xml': 'to_xml returns a string'}[clause]}))
        if c[0] == 'float':
            a_, b_ = (c[2] << c[3], 1) if c[3] >= 0 else (c[2], 1 << -c[3])
            cases.append((f'({coqlit(bool(c[1]))}, {coqlit(a_)}, {coqlit(b_)})', coqlit(s_ if isinstance(s_, str) and not is_err(s_) and all(32 <= ord(ch) < 127 for ch in s_) else '?'),
                          {'argument': c, 'value': shown, 'impl': [s_, back, again]}))
    corr('decf-vals', 'String.eqb', 'fun c => decf_to_xml (fst (fst c)) (snd (fst c)) (snd c)', [c[:2] for c in cases], lambda i, cs=cases: cs[i][2])
    ctx.count('decf-vals', len(decf_vals), [tuple(c) for c in decf_vals], argument_kinds=hist(brackets), magnitude_histogram=hist(mags),
              floats_at_or_above_1e16=nexp_zone, rounded_by_the_documented_rounding=nround,
              documented_rounding='_float_to_xml: round(x, 1) for |x| >= 100, round(x, 2) for |x| >= 10, else round(x, 3); then the 18-digit cap and '
                                  'removal of trailing zeros of to_xml')
    ctx.sample({'stream': 'decf-vals', 'argument': decf_vals[0], 'impl [to_xml, to_py (float mode), to_xml again]': impl['decf_vals'][0]})

    # to_py with USE_DECIMAL_TYPE = False on the decimal lexical stream: same lexical space, float (with '.') or int
    nfl = {'float': 0, 'int': 0, 'rejected': 0}
    for (label, s_), r in zip(dec_lab, impl['decf_lex']):
        want = ref_dec(s_)

        def decf_value(r, want=want, s_=s_):
            kind = 'float' if '.' in s_ else 'int'
            if not (isinstance(r, list) and r[0] == kind):
                return f'{r!r}, expected a {kind}'
            if kind == 'int':
                return None if ref_int(r[1]) == want else f'int {r[1]}'
            if abs(want) < 10 ** 300 and fr_of(r[1]) != Fraction(float(want)):
                return f'float {float(fr_of(r[1]))!r} is not the binary64 nearest to {s_.strip()}'
        big = want is not None and '.' in s_ and abs(want) >= 10 ** 300      # float() overflows to inf: outside the model
        v = 'skip' if big else judge('decimal (USE_DECIMAL_TYPE=False)', 'decf-lex', label, s_, r, want, decf_value)
        if v == 'accepted':
            nfl[r[0]] += 1
        elif v == 'rejected':
            nfl['rejected'] += 1
    if impl.get('decf_flag_restored') is False:
        ctx.broken('correspondence', 'decf-lex', 'USE_DECIMAL_TYPE was not restored')
    st = lexstat.get('decf-lex', {})
    ctx.count('decf-lex', len(dec_lab), [s_ for _, s_ in dec_lab], **nfl, **{k_: v_ for k_, v_ in st.items() if k_ != 'near_miss_classes'})

    # ------------------------------------------------------------------ booleans (known finding: never rejects)
    cases = []
    nbool = {'lexical': 0, 'non_lexical': 0, 'non_lexical_coerced_to_false (known finding)': 0}
    for s, r in zip(bool_lex, impl['bool_lex']):
        if is_skip(r):
            continue
        if s in ('true', 'false', '1', '0'):
            nbool['lexical'] += 1
            if r is not (s in ('true', '1')):
                ctx.fail(f'boolean {s!r} is converted to {r!r}', {'stream': 'bool', 'clause': 'value'},
                         {'stream': 'bool-lex', 'case': {'xml': s}, 'impl_trace': r})
        else:
            nbool['non_lexical'] += 1
            if r is False:
                # the known finding (every other string reads as False; asserted by tests/test_dataconverters.py)
                nbool['non_lexical_coerced_to_false (known finding)'] += 1
                ctx.fail(f'boolean: {s!r} is outside the lexical space of xsd:boolean but is coerced to {r!r}',
                         {'stream': 'lexical', 'type': 'boolean'}, {'stream': 'bool-lex', 'case': {'xml': s}, 'impl_trace': r,
                                                                    'oracle': {'verdict': 'fail', 'clause': 'non-lexical forms are rejected'}})
            elif not is_reject(r):
                # anything else than False or a ValueError is NOT the known finding: 'True', ' true', '01' read as True, a crash ...
                ctx.fail(f'boolean: {s!r} is outside the lexical space of xsd:boolean but gives {r!r}',
                         {'stream': 'lexical', 'type': 'boolean-not-false'},
                         {'stream': 'bool-lex', 'case': {'xml': s}, 'impl_trace': r,
                          'oracle': {'verdict': 'fail', 'clause': 'non-lexical forms are rejected (known finding: read as False), never read as True'}})
        cases.append((slit(s), coqlit(bool(r)) if isinstance(r, bool) else 'true'))
        if not isinstance(r, bool):
            cases[-1] = (slit(s), Raw('(negb (bool_to_py ' + slit(s) + '))'))   # model never rejects: force a mismatch
    corr('bool-lex', 'Bool.eqb', 'bool_to_py', cases, lambda i: {'xml': bool_lex[i], 'impl': impl['bool_lex'][i]})
    if impl.get('bool_to_xml') != ['true', 'false'] and not any(is_skip(r) for r in impl['bool_lex']):
        ctx.broken('correspondence', 'bool-lex', f'to_xml gives {impl.get("bool_to_xml")}')
    ctx.count('bool-lex', len(bool_lex), bool_lex, **nbool)

    # ------------------------------------------------------------------ enumerations
    cases, keys, desc = [], [], []
    for k in impl['enum']:
        lits = k['lits']
        for s, r, val in k['cases']:
            acc = not is_err(r)
            if acc != (s in lits) or (acc and (r != s or val != s)):
                ctx.fail(f'enum {k["class"]}: literal {s!r} -> {r!r}', {'stream': 'lexical', 'type': 'enum'},
                         {'stream': 'enum', 'case': {'class': k['class'], 'xml': s}, 'impl_trace': [r, val]})
            cases.append((f'([{"; ".join(slit(x) for x in lits)}], {slit(s)})', f'(Some {slit(r)})' if acc else '(@None string)'))
            keys.append((k['class'], s))
            desc.append({'class': k['class'], 'xml': s, 'impl': r})
    corr('enum', 'option_eqb String.eqb', 'fun c => enum_to_py (fst c) (snd c)', cases, lambda i, d=desc: d[i])
    ctx.count('enum', len(cases), keys, classes=len(impl['enum']), rejected=sum(1 for c in cases if c[1] == '(@None string)'))

    # ------------------------------------------------------------------ durations
    cases, nneg, nover = [], 0, 0
    for (kind, txt), (s, tus, back_us, same) in zip(dur_vals, impl['dur_vals']):
        val = Fraction(Decimal(txt)) if kind != 'float' else Fraction(float(txt))
        if is_skip(s):
            continue
        if val >= 86400 * 10 ** 9:      # beyond timedelta.max: outside the quantifier, must not be written
            nover += 1
            if s != 'OVERFLOW':
                ctx.fail(f'duration {txt} s exceeds timedelta.max but is written as {s!r}', {'stream': 'duration', 'clause': 'overflow'},
                         {'stream': 'dur-vals', 'case': {'kind': kind, 'value': txt}, 'impl_trace': s})
            continue
        if val < 0:
            nneg += 1
            if s != 'REJECT':
                ctx.fail(f'negative duration {txt} is written as {s!r}', {'stream': 'duration', 'clause': 'negative'},
                         {'stream': 'dur-vals', 'case': {'kind': kind, 'value': txt}, 'impl_trace': s})
            continue
        if is_err(s) or (back_us != tus and tus < (1 << 52)) or same is not True:
            ctx.fail(f'duration {txt} s ({tus} us) is written as {s!r} and read back as {back_us} us',
                     {'stream': 'duration', 'clause': 'py_xml_py'},
                     {'stream': 'dur-vals', 'case': {'kind': kind, 'value': txt}, 'impl_trace': [s, tus, back_us, same],
                      'oracle': {'verdict': 'fail', 'clause': 'parse_duration(duration_string(x)) == timedelta(seconds=x).total_seconds()'}})
        if not is_err(s):
            if not XSD_DUR.match(s):
                ctx.fail(f'duration {txt} s is written as {s!r}, not an SDPi duration', {'stream': 'duration', 'clause': 'lexical'},
                         {'stream': 'dur-vals', 'case': {'kind': kind, 'value': txt}, 'impl_trace': s})
            cases.append((coqlit(tus), coqlit(s), (kind, txt)))
    corr('dur-vals', 'String.eqb', 'duration_to_xml', [c[:2] for c in cases], lambda i, cs=cases: {'value': cs[i][2], 'impl': cs[i][:2]})
    ctx.count('dur-vals', len(dur_vals), [tuple(v) for v in dur_vals], negative=nneg, beyond_timedelta_max=nover,
              with_fraction=sum(1 for c in cases if '.' in c[1]), hours=sum(1 for c in cases if 'H' in c[1]))
    ctx.sample({'stream': 'dur-vals', 'value': dur_vals[0], 'impl [xml, us, us read back, equal]': impl['dur_vals'][0]})

    # XML -> Python: every case is judged against the exact rational value of the lexical form (Fraction arithmetic, harness
    # side).  What the code does: float('<seconds>.<fraction>') (correctly rounded), timedelta rounds it half-even to
    # microseconds, total_seconds() divides by 10**6: a fraction of any length is ROUNDED to the microsecond.  Clause:
    #   value <= 2^31 s       : |parsed - exact| < 1 us                       (proved: C18_duration_parse_within_1us)
    #   beyond (binary64 has no microseconds there): |parsed - exact| <= 1 us + exact * 2^-52
    #   value >= timedelta.max + 1 us: refused (OverflowError); within 1 us of that bound either answer
    cases, fl, sl, nclaimed, nover = [], [], [], 0, 0
    for (label, s), (r, back) in zip(dur_lab, impl['dur_lex']):
        want = ref_dur(s)
        # at timedelta.max the seconds field may be rounded over the bound by float() (binary64 spacing there is 2^-6 s)
        over = want is not None and want >= DUR_MAX - US - want / (1 << 52)
        if over and is_reject(r):
            nover += 1
            stat('dur-lex').setdefault('valid_beyond_timedelta_max_refused', 0)
            stat('dur-lex')['valid_beyond_timedelta_max_refused'] += 1
            stat('dur-lex')['valid'] += 1
            v = 'overflow'
        else:
            def dur_value(r, want=want):
                if not is_me(r):
                    return f'not a float: {r!r}'
                x = fr_of(r)
                if want >= DUR_MAX:
                    return f'{float(x)!r} s is returned for a duration beyond timedelta.max'
                tol = US if want <= DUR_1US_RANGE else US + want / (1 << 52)
                if not abs(x - want) < tol:
                    return (f'parsed as {float(x)!r} s, the exact value is {str(want) if want.denominator == 1 else float(want)!r} s: off by '
                            f'{float(abs(x - want) / US):.6g} us, allowed < {float(tol / US):.6g} us')
            v = judge('duration', 'dur-lex', label, s, r, want, dur_value)
        if want is not None:
            m = re.search(r'\.([0-9]+)S', s)
            fl.append(bin_len(len(m.group(1)) if m else 0))
            m = re.search(r'([0-9]+)(\.[0-9]+)?S', s)
            sl.append(bin_len(len(m.group(1).lstrip('0')) if m else 0))
        if v == 'skip':
            continue
        if v == 'accepted' and want <= DUR_1US_RANGE:
            nclaimed += 1
            # XML -> Python -> XML: what is written back denotes the same duration within one microsecond
            wb = ref_dur(back) if isinstance(back, str) else None
            if wb is None or not abs(wb - want) < US:
                ctx.fail(f'duration {s!r} is read and written back as {back!r}: '
                         + ('not a duration' if wb is None else f'off by {float(abs(wb - want) / US):.6g} us'),
                         {'stream': 'duration', 'clause': 'xml_py_xml'},
                         {'stream': 'dur-lex', 'case': {'xml': s}, 'impl_trace': [r, back],
                          'oracle': {'verdict': 'fail', 'clause': '|value(to_xml(to_py(s))) - value(s)| < 1 us'}})
        if r == 'REJECT' or r == 'OVERFLOW':
            exp = f'({coqlit(-1 if r == "REJECT" else -2)}, 1)'
        elif is_me(r):
            exp = f'({coqlit(r[0] << max(r[1], 0))}, {coqlit(1 << max(-r[1], 0))})'
        else:
            exp = '((-9), 1)'
        cases.append((slit(s), exp, {'xml': s, 'impl': r}))
    # binary64-faithful model: float(), timedelta's rounding and total_seconds() are all modelled, nothing is skipped
    corr('dur-lex', 'fr_eqb', 'duration_to_py_f', [c[:2] for c in cases], lambda i, cs=cases: cs[i][2])
    st = lexstat.get('dur-lex', {})
    ctx.count('dur-lex', len(dur_lex), dur_lex, rejected=sum(1 for r, _ in impl['dur_lex'] if r == 'REJECT'),
              overflow=sum(1 for r, _ in impl['dur_lex'] if r == 'OVERFLOW'), judged_within_1us_claim=nclaimed, **st,
              valid_fraction_digits_histogram=hist(fl), valid_seconds_field_digits_histogram=hist(sl))

    # ------------------------------------------------------------------ date / time
    def oz(x):
        return 'None' if x is None else f'(Some {coqlit(x)})'

    def dtlit(v):
        y, mo, d, t, e, tz = v
        ts = 'None' if t is None else f'(Some ({coqlit(t[0])}, {coqlit(t[1])}, {coqlit(t[2])}))'
        return f'(mkdt {coqlit(y)} {oz(mo)} {oz(d)} {ts} {coqlit(bool(e))} {oz(tz)})'

    cases = []
    for v, (s, back, same) in zip(dt_vals, impl['dt_vals']):
        if is_skip(s):
            continue
        if is_err(s) or same is not True:
            ctx.fail(f'date/time {v} is written as {s!r} and read back as {back!r}', {'stream': 'datetime', 'clause': 'py_xml_py'},
                     {'stream': 'dt-vals', 'case': {'value': v}, 'impl_trace': [s, back, same]})
        if not is_err(s):
            if not XSD_DT.match(s):
                ctx.fail(f'date/time {v} is written as {s!r}, outside the lexical space', {'stream': 'datetime', 'clause': 'lexical'},
                         {'stream': 'dt-vals', 'case': {'value': v}, 'impl_trace': s})
            cases.append((dtlit(v), coqlit(s), {'value': v, 'impl': [s, back, same]}))
    corr('dt-vals', 'String.eqb', 'dt_to_xml', [c[:2] for c in cases], lambda i, cs=cases: cs[i][2])
    ctx.count('dt-vals', len(dt_vals), [repr(v) for v in dt_vals], with_time=sum(1 for v in dt_vals if v[3]), end_of_day=sum(1 for v in dt_vals if v[4]),
              with_tz=sum(1 for v in dt_vals if v[5] is not None))

    # XML -> Python: every case is judged against the reference reading of the lexical form: year, month, day, hour, minute,
    # end-of-day flag and time zone offset exactly, the second field (a binary64 in the code) within one microsecond of its
    # exact decimal value; what is written back must denote the same value.
    def dt_fields_wrong(r, want):
        if not (isinstance(r, list) and len(r) == 6):
            return f'not an XsdDateInformation: {r!r}'
        y, mo, d, t, eod, tz = r
        wy, wmo, wd, wt, weod, wtz = want
        if (y, mo, d, bool(eod), tz) != (wy, wmo, wd, weod, wtz):
            return f'(year, month, day, end_of_day, tz) = {(y, mo, d, bool(eod), tz)} instead of {(wy, wmo, wd, weod, wtz)}'
        if (t is None) != (wt is None):
            return f'time of day {t!r} instead of {wt!r}'
        if t is not None:
            if not (isinstance(t, list) and len(t) == 5 and is_me(t[4])):
                return f'time of day {t!r}'
            if (t[0], t[1]) != wt[:2]:
                return f'(hour, minute) = {(t[0], t[1])} instead of {wt[:2]}'
            if not abs(fr_of(t[4]) - wt[2]) < US:
                return f'second = {float(fr_of(t[4]))!r} instead of {float(wt[2])!r}: off by {float(abs(fr_of(t[4]) - wt[2]) / US):.6g} us'

    cases, nsec, nlong, ndom, fl, yl, shapes = [], 0, 0, 0, [], [], []
    for (label, s), (r, back) in zip(dt_lab, impl['dt_lex']):
        want = ref_dt(s)
        v = judge('datetime', 'dt-lex', label, s, r, want, lambda r, want=want: dt_fields_wrong(r, want))
        if v == 'skip':
            continue
        if want is not None:
            m = re.search(r':[0-9]{2}\.([0-9]+)', s)
            fl.append(bin_len(len(m.group(1)) if m else 0))
            yl.append(bin_len(len(re.match(r'-?([0-9]+)', s).group(1))))
            shapes.append('gYear' if want[1] is None else 'gYearMonth' if want[2] is None else 'date' if want[3] is None and not want[4] else
                          'dateTime-end-of-day' if want[4] else 'dateTime')
        if v == 'accepted':
            wb = ref_dt(back) if isinstance(back, str) else None
            why = None
            if wb is None:
                why = 'not in the lexical space'
            elif wb[:3] + wb[4:] != want[:3] + want[4:] or (wb[3] is None) != (want[3] is None):
                why = 'another value'
            elif wb[3] is not None and (wb[3][:2] != want[3][:2] or not abs(wb[3][2] - want[3][2]) < US):
                why = f'another time of day ({float(abs(wb[3][2] - want[3][2]) / US):.6g} us)'
            if why:
                ctx.fail(f'date/time {s!r} is read and written back as {back!r}: {why}', {'stream': 'datetime', 'clause': 'xml_py_xml'},
                         {'stream': 'dt-lex', 'case': {'xml': s}, 'impl_trace': [r, back],
                          'oracle': {'verdict': 'fail', 'clause': 'value(str(parse_date_time(s))) == value(s) within 1 us'}})
            if want[2] is not None:
                y, mo, d = want[:3]
                dim = [31, 29 if (y % 4 == 0 and (y % 100 != 0 or y % 400 == 0)) else 28, 31, 30, 31, 30, 31, 31, 30, 31, 30, 31][mo - 1]
                if d > dim:
                    ndom += 1     # e.g. 2020-02-31: accepted, kept as it is and written back unchanged (no coercion): recorded only
        okr = isinstance(r, list) and len(r) == 6
        t = r[3] if okr else None
        sec = fr_lit(t[4]) if t is not None and is_me(t[4]) else '(@None (Z * Z))'
        # parse_dt answers DtUnmodelled for more than 6 fraction digits (dtres_eqb then compares nothing); the binary64 of the
        # second field is compared for every fraction length
        exp = f'(DtOk {dtlit([r[0], r[1], r[2], t and t[:3], r[4], r[5]])})' if okr else 'DtReject'
        cases.append((slit(s), f'({exp}, {sec})', {'xml': s, 'impl': r}))
        nsec += sec.startswith('(Some')
        nlong += bool(t is not None and not t[3])
    corr('dt-lex', 'fun a b => dtres_eqb (fst a) (fst b) && option_eqb fr_eqb (snd a) (snd b)', 'fun s => (dt_to_py s, dt_second_float s)',
         [c[:2] for c in cases], lambda i, cs=cases: cs[i][2])
    st = lexstat.get('dt-lex', {})
    ctx.count('dt-lex', len(dt_lex), dt_lex, rejected=sum(1 for r, _ in impl['dt_lex'] if is_err(r)), nonexistent_day_accepted=ndom, **st,
              valid_fraction_digits_histogram=hist(fl), valid_year_digits_histogram=hist(yl), valid_shapes=hist(shapes),
              second_field_compared_as_binary64=nsec, more_than_6_fraction_digits_accepted=nlong)

    # ------------------------------------------------------------------ the property classes use these converters
    want = {'TimestampAttributeProperty': 'TimestampConverter', 'CurrentTimestampAttributeProperty': 'TimestampConverter',
            'DecimalAttributeProperty': 'DecimalConverter', 'DurationAttributeProperty': 'DurationConverter',
            'IntegerAttributeProperty': 'IntegerConverter', 'BooleanAttributeProperty': 'BooleanConverter',
            'NodeIntProperty': 'IntegerConverter', 'NodeDecimalProperty': 'DecimalConverter', 'NodeDurationProperty': 'DurationConverter'}
    if impl.get('wiring') != want:
        ctx.broken('correspondence', 'wiring', {'xml_structure property classes -> converter': impl.get('wiring'), 'expected': want})
    ctx.cov['wiring'] = impl.get('wiring')

    t_corr = time.time()
    run_jobs()
    ctx.log(f'model evaluation inside Coq: {sum(len(j[3]) for j in jobs)} cases of {len(jobs)} streams in {time.time() - t_corr:.0f}s')

    if ctx.thorough:
        hits = ctx.gate_grep(['Scalars', 'Common'])
        if hits:
            ctx.broken('theorem', 'grep gate', hits)
        ctx.coqchk('SDC.Props.C18')
    return ctx.finish(
        rule='every case is run on the real converter classes / isoduration functions (the implementation script guards every call: an '
             'exception of any kind, a wrong result type or a hang is the result of that case); the oracle judges EVERY case of every '
             'lexical stream directly on the implementation\'s answer against harness-side reference semantics (explicit ASCII character '
             'classes, exact integer / Fraction arithmetic, no int() / float() / Decimal() / datetime): outside the lexical space -> '
             'refused with ValueError; inside -> accepted with exactly the value of the lexical form (durations: within 1 us up to 2^31 s, '
             'beyond that 1 us + value * 2^-52; date/time: all fields exactly, seconds within 1 us) and written back as the same value; '
             'round trips exact, < 1 ms, no exponent.  The model is evaluated on the same inputs and must give the same strings / values '
             '(floats compared as exact mantissa-exponent pairs). ts-window is exhaustive over the dense window; distinct = distinct '
             'inputs per stream; near_miss_classes = invalid forms per generator class (forms that python\'s own parsers take, or that '
             'start / end like a valid form).',
        assumptions=['binary64 arithmetic of the host is IEEE-754 round-to-nearest-even (int/int true division, float*int, round(), float(str) '
                     'correctly rounded)',
                     'decimal.Decimal.__format__(\'f\'), Decimal(str), int(str), repr(float) and the microsecond rounding of datetime.timedelta '
                     '(CPython _datetimemodule.c accum(): floor + binary64 product of the fraction by 1e6 + round-half-even) behave as '
                     'modelled (validated differentially only)',
                     'timestamps: values in the normal range of binary64; py -> xml -> py claimed for 1000 x <= 2^50',
                     'durations XML -> Python: |parsed - exact| < 1 us is claimed and proved for lexical forms of any fraction length with a '
                     'value up to 2^31 s (binary64 cannot hold microseconds far beyond that); values below 2^-1022 (subnormal) are outside rnd53',
                     'date/time: parse_dt models the second field at microsecond resolution (more than 6 fraction digits: only the binary64 '
                     'of the second field is modelled)'],
        trusted_base=['extraction: ExtrOcamlBasic only; ocaml/driver_c18.ml + zutil.inc (timestamp streams)',
                      'correspondence harness harness/impl/c18_impl.py and the reference semantics / regular expressions of harness/props/c18.py',
                      'the proposed repairs fixes/C18_*.diff are part of the checked tree (the model is the repaired code)'],
        not_modelled=['non-finite floats and Decimals (NaN, Infinity) in to_xml', 'to_py with USE_DECIMAL_TYPE=False (float(str) / int(str)): judged by the oracle only',
                      'value-range facets (unsignedInt / unsignedLong bounds, negative timestamps) - enforced by schema validation, not by the converters',
                      'XsdDateInformation.__str__ for second fields with more than 6 fraction digits (repr(float))', 'subnormal / overflowing floats'])


def replay(ctx, rep):
    import json
    case = rep.get('case', {})
    stream = rep.get('stream', '')
    key = {'ts-window': 'ts_ns', 'ts-sampled': 'ts_ns', 'ts-lex': 'ts_lex', 'int-lex': 'int_lex', 'dec-lex': 'dec_lex',
           'bool-lex': 'bool_lex', 'dur-lex': 'dur_lex', 'dt-lex': 'dt_lex'}.get(stream)
    payload = {}
    if key and 'xml' in case:
        payload[key] = [int(case['xml'])] if key == 'ts_ns' else [case['xml']]
    elif stream == 'dec-vals':
        payload['dec_vals'] = [case['decimal (neg, digits, exp)']]
    elif stream == 'decf-vals':
        payload['decf_vals'] = [case['argument']]
    elif stream == 'dur-vals':
        payload['dur_vals'] = [[case['kind'], case['value']]]
    elif stream == 'dt-vals':
        payload['dt_vals'] = [case['value']]
    elif stream == 'ts-float':
        payload['ts_floats'] = [case['float (mantissa, exponent)']]
    print(json.dumps({'recorded': {k: rep.get(k) for k in ('what', 'case', 'impl_trace', 'oracle')},
                      'implementation now': ctx.impl('c18_impl', payload) if payload else 'stream not replayable'}, indent=1, default=str))
    return 0
