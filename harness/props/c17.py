"""C17 - HTTP body framing and content coding are lossless and honour negotiation (DESIGN.md 4, C17).

Streams (model = coq/Http/Chunk.v, Negotiation.v evaluated inside Coq on the same inputs):
  mk_chunks      (chunk size, body) -> framing bytes; oracle: strict chunk grammar (independent parser),
                 http.client decodes it to the body, the library's reader decodes it and stops behind it
  reader         read_request_body on generated streams (valid own/foreign chunking, Content-Length, codings,
                 mutated framing, short reads); oracle: lossless, no over-read, unsupported coding rejected
  response       read_response_body likewise
  parse_header / server_choice / client_choice   negotiation; oracle: independent reading of the header
  e2e / raw      SoapClient -> http.client -> DispatchingRequestHandler and back (oracle only)
  codec          decompress(compress b) = b and corrupt payloads are rejected (oracle only; premise of
                 C17_request_roundtrip / C17_response_roundtrip)
"""
import re
import zlib

from lib import Raw

try:
    import lz4.frame as lz4f
except ImportError:  # pragma: no cover
    lz4f = None

HEADER = ('From Coq Require Import List NArith Bool.\nImport ListNotations.\n'
          'From SDC Require Import Http.Chunk Http.Negotiation Http.Gen_Params.\nOpen Scope N_scope.')


# ----------------------------------------------------------------------------- Coq literals (N scope is open)
def B(b: bytes) -> str:
    return '(@nil N)' if not b else '[' + ';'.join(str(x) for x in b) + ']'


def OB(b) -> str:
    return '(@None (list N))' if b is None else f'(Some {B(b)})'


def BL(lst) -> str:
    return '(@nil (list N))' if not lst else '[' + ';'.join(B(x) for x in lst) + ']'


def NL(lst) -> str:
    return '(@nil N)' if not lst else '[' + ';'.join(str(x) for x in lst) + ']'


def lat(s):
    return None if s is None else s.encode('latin-1')


def json_key(x):
    import json
    return json.dumps(x, sort_keys=True)


def shard_size(lits, budget=600000, lo=10, hi=150):
    """cases per Coq file so that one file stays below ~budget characters (single list literals beyond ~40000 elements overflow coqc's stack)"""
    if not lits:
        return hi
    worst = sorted(len(a) + len(b) for a, b in lits)[-max(1, len(lits) // 20)]      # 95th percentile
    return max(lo, min(hi, budget // max(1, worst)))


# ----------------------------------------------------------------------------- generators
def gen_body(rng, big=False):
    k = rng.random()
    if k < 0.08:
        n = 0
    elif k < 0.2:
        n = rng.randint(1, 3)
    elif k < 0.6:
        n = rng.randint(4, 40)
    elif k < 0.93:
        n = rng.randint(41, 300)
    else:
        n = rng.randint(301, 6000 if big else 1500)
    style = rng.random()
    if style < 0.35:
        return bytes(rng.randrange(256) for _ in range(n))
    if style < 0.7:     # bytes that look like framing: CR, LF, hex digits, ';', zero chunks
        frag = [b'\r\n', b'0\r\n\r\n', b'\r', b'\n', b'a', b'F', b'0', b';', b' ', b'1f\r\n', b'\x00']
        out = b''
        while len(out) < n:
            out += rng.choice(frag)
        return out[:n]
    txt = (b'<s12:Envelope xmlns:s12="http://www.w3.org/2003/05/soap-envelope"><s12:Body>' +
           bytes(rng.choice(b'abcdefgh <>/="\n\r') for _ in range(max(0, n))) + b'</s12:Body></s12:Envelope>')
    return txt[:n]


def gen_chunk_size(rng, blen):
    k = rng.random()
    if k < 0.25:
        return rng.choice([1, 2, 3])
    if k < 0.5:
        return rng.choice([15, 16, 17, 255, 256, 257, 512, 4095, 4096])
    if k < 0.7 and blen > 0:
        return rng.choice([blen - 1, blen, blen + 1]) or 1
    if k < 0.9:
        return rng.randint(1, max(2, blen + 5))
    return rng.choice([2 ** 20, 2 ** 31, 2 ** 56 - 1, 2 ** 56, 2 ** 64 + 3])


def py_mk_chunks(body, n, upper=False, ext=None, pad=False, lead0=0):
    """reference writer used for *foreign* well-formed chunking (upper-case hex, extensions, white space)"""
    out = b''
    pos = 0
    while True:
        head = body[pos:pos + n]
        pos += n
        size = ('%X' if upper else '%x') % len(head)
        size = '0' * lead0 + size
        if pad:
            size = ' ' + size + ' '
        line = size.encode() + ((b';' + ext) if ext else b'')
        py_mk_chunks.max_line = max(py_mk_chunks.max_line, len(line) + 2)
        out += line + b'\r\n' + head + b'\r\n'
        if not head:
            return out


py_mk_chunks.max_line = 0


def strict_parse_chunked(wire: bytes):
    """independent reading of RFC 7230 4.1 without extensions/trailers: returns (body, consumed) or None"""
    pos, body = 0, b''
    while True:
        m = re.compile(rb'([0-9a-fA-F]+)\r\n').match(wire, pos)
        if not m:
            return None
        size = int(m.group(1), 16)
        pos = m.end()
        data = wire[pos:pos + size]
        if len(data) != size or wire[pos + size:pos + size + 2] != b'\r\n':
            return None
        pos += size + 2
        if size == 0:
            return body, pos
        body += data


def compress(alg, data):
    if alg == 'gzip':
        c = zlib.compressobj(zlib.Z_DEFAULT_COMPRESSION, zlib.DEFLATED, 16 + zlib.MAX_WBITS)
        return c.compress(data) + c.flush()
    return lz4f.compress(data)


MUTATIONS = ['truncate', 'size_garbage', 'negative', 'hex_prefix', 'underscore', 'plus', 'empty_size', 'drop_crlf',
             'lf_only', 'long_header', 'huge_size', 'bigger_size', 'smaller_size', 'no_last_chunk', 'cr_in_size']


def mutate_wire(rng, wire: bytes, op: str) -> bytes:
    lines = [m for m in re.finditer(rb'[0-9a-fA-F]+\r\n', wire)]
    first = lines[0] if lines else None
    if op == 'truncate':
        return wire[:rng.randrange(0, max(1, len(wire)))]
    if first is None:
        return wire[:len(wire) // 2]
    s, e = first.start(), first.end() - 2
    size_txt = wire[s:e]
    if op == 'size_garbage':
        return wire[:s] + rng.choice([b'zz', b'g', b'1g', b'\xff', b'1 2', b'--', b'.']) + wire[e:]
    if op == 'negative':
        return wire[:s] + b'-' + size_txt + wire[e:]
    if op == 'hex_prefix':
        return wire[:s] + b'0x' + size_txt + wire[e:]
    if op == 'underscore':
        return wire[:s] + size_txt[:1] + b'_' + size_txt[1:] + b'0' + wire[e:]
    if op == 'plus':
        return wire[:s] + b'+' + size_txt + wire[e:]
    if op == 'empty_size':
        return wire[:s] + rng.choice([b'', b' ', b';x=1']) + wire[e:]
    if op == 'drop_crlf':       # CRLF behind the data of the first chunk
        size = int(size_txt, 16)
        p = first.end() + size
        return wire[:p] + wire[p + 2:]
    if op == 'lf_only':
        return wire[:e] + b'\n' + wire[e + 2:]
    if op == 'long_header':
        return wire[:s] + b'0' * rng.choice([13, 14, 15, 20]) + size_txt + wire[e:]
    if op == 'huge_size':
        return wire[:s] + rng.choice([b'FFFFFFFFFFFFFF', b'7fffffffffffff', b'100000000']) + wire[e:]
    if op == 'bigger_size':
        return wire[:s] + (b'%x' % (int(size_txt, 16) + rng.randint(1, 5))) + wire[e:]
    if op == 'smaller_size':
        v = int(size_txt, 16)
        return wire[:s] + (b'%x' % max(0, v - rng.randint(1, 3))) + wire[e:]
    if op == 'no_last_chunk':
        return wire[:-5] if wire.endswith(b'0\r\n\r\n') else wire[:-3]
    if op == 'cr_in_size':
        return wire[:s] + size_txt + b'\r' + wire[e:]
    raise ValueError(op)


TE_CHUNKED = ['chunked', 'Chunked', 'CHUNKED']
TE_OTHER = [None, None, 'identity', 'gzip, chunked', 'chunked, gzip', 'chunkedx']
CL_NEG = ['-1', '-5', '-0012']
CL_BAD = ['abc', '1.5', '0x10', '12a', '1 2', '--3']
CE_UNSUPPORTED = ['br', 'deflate', 'GZIP', 'Gzip', 'identity', 'gzip, lz4', 'x-gzip', 'compress']


def render_cl(rng, n):
    return rng.choice(['%d', '%d', '%d', '0%d', '+%d', '00%d']) % n


def gen_reader_case(rng, avail, big=False, malformed_share=0.3):
    """returns dict(te, cl, ce, data, caps, plain, trailing, kind, model=(chunked, cl_code, cl_val))"""
    plain = gen_body(rng, big)
    trailing = rng.choice([b'', b'', b'POST /x HTTP/1.1\r\n', b'\r\n', b'0\r\n\r\n'])
    c = {'plain': plain, 'trailing': trailing, 'caps': []}
    # content coding
    k = rng.random()
    if k < 0.45:
        c['ce'], payload = None, plain
    elif k < 0.85:
        alg = rng.choice(avail)
        c['ce'], payload = alg, compress('gzip' if alg == 'gzip' else 'lz4', plain)
        c['coded'] = True
    elif k < 0.93:
        c['ce'], payload = rng.choice(CE_UNSUPPORTED), plain
        c['unsupported'] = True
    else:     # coding announced, payload is not in that coding
        c['ce'], payload = rng.choice(avail), plain
        c['foreign_payload'] = True
    # framing
    f = rng.random()
    if f < 0.55:
        n = gen_chunk_size(rng, len(payload))
        if n >= 2 ** 56 and len(payload) >= 2 ** 56:   # never
            n = 3
        style = rng.random()
        if style < 0.6:
            wire, c['kind'] = py_mk_chunks(payload, n), 'chunked-own'
        else:
            py_mk_chunks.max_line = 0
            wire = py_mk_chunks(payload, n, upper=rng.random() < 0.5,
                                ext=rng.choice([None, None, b'a=b', b' q=1', b'x', b'name=value']),
                                pad=rng.random() < 0.3, lead0=rng.choice([0, 0, 1, 3]))
            c['kind'] = 'chunked-foreign' if py_mk_chunks.max_line <= 16 else 'chunked-longline'
        c['te'], c['cl'] = rng.choice(TE_CHUNKED), rng.choice([None, None, '5', 'abc'])
        c['model_hdr'] = (True, 0, 0)
        if rng.random() < malformed_share:
            op = rng.choice(MUTATIONS)
            wire2 = mutate_wire(rng, wire, op)
            if wire2 != wire:
                wire, c['kind'], c['mutation'] = wire2, 'chunked-mutated', op
        c['data'] = wire + trailing
    elif f < 0.85:
        c['te'] = rng.choice(TE_OTHER)
        d = rng.random()
        if d < 0.7:
            n = len(payload)
            c['kind'] = 'cl-exact'
        elif d < 0.85:
            n = max(0, len(payload) - rng.randint(1, 5))
            c['kind'] = 'cl-short'
        else:
            n = len(payload) + len(trailing) + rng.randint(1, 9)
            c['kind'] = 'cl-long'
        c['cl'] = render_cl(rng, n)
        c['model_hdr'] = (False, 1, n)
        c['data'] = payload + trailing
    elif f < 0.9:
        c['te'], c['cl'], c['kind'] = rng.choice(TE_OTHER), rng.choice([None, '']), 'cl-absent'
        c['model_hdr'] = (False, 0, 0)
        c['data'] = payload + trailing
    elif f < 0.95:
        c['te'], c['cl'], c['kind'] = rng.choice(TE_OTHER), rng.choice(CL_NEG), 'cl-negative'
        c['model_hdr'] = (False, 2, 0)
        c['data'] = payload + trailing
    else:
        c['te'], c['cl'], c['kind'] = rng.choice(TE_OTHER), rng.choice(CL_BAD), 'cl-bad'
        c['model_hdr'] = (False, 3, 0)
        c['data'] = payload + trailing
    if rng.random() < 0.25:
        c['caps'] = [rng.choice([1, 1, 2, 3, 5, 8, 64]) for _ in range(rng.randint(1, 80))]
        c['short_reads'] = True
    c['payload'] = payload
    return c


def reader_literals(c, tr):
    ch, code, v = c['model_hdr']
    ce = c['ce'] if c['ce'] else None
    inp = f'(({"true" if ch else "false"}, {code}, {v}), {OB(lat(ce))}, {B(c["data"])}, {NL(c["caps"])})'
    pl = tr.get('payload')
    exp = f'({tr["tag"]}, ({OB(None if pl is None else bytes.fromhex(pl))}, {tr["left"]}))'
    return inp, exp


def reader_oracle(c, tr, avail):
    """the property evaluated on one implementation trace (None = fine)"""
    budget = 3 * len(c['data']) + 32
    if tr.get('spin') or tr.get('reads', 0) > budget:
        return 'spin', f'reader did not finish within {budget} read calls ({c["kind"]})'
    valid = c['kind'] in ('chunked-own', 'chunked-foreign', 'cl-exact') and not c.get('short_reads')
    res = None if tr.get('result') is None else bytes.fromhex(tr['result'])
    if c.get('unsupported'):
        if tr['exc'] is None:
            return 'unsupported-accepted', f'content-encoding {c["ce"]!r} is not available but the body was returned'
        return None
    if valid and not c.get('foreign_payload'):
        if res != c['plain']:
            return 'lossy', (f'{c["kind"]} body of {len(c["plain"])} bytes, coding {c["ce"]}: reader returned '
                             f'{"an error " + str(tr["exc"]) if res is None else str(len(res)) + " bytes"}')
        if tr['left'] != len(c['trailing']):
            return 'over-read', f'{len(c["trailing"]) - tr["left"]} bytes behind the message were consumed'
    if c.get('foreign_payload') and res is not None and res != c['plain'] and valid:
        # announced gzip/lz4 but payload is plain: must be rejected, or (if by accident decodable) not silently raw
        return 'misinterpreted', f'payload not in coding {c["ce"]} was accepted'
    if res is not None and c['model_hdr'][0]:
        # whatever was accepted as chunked must be chunked framing (independent parser, liberal in the size line)
        consumed = c['data'][:len(c['data']) - tr['left']]
        if not re.match(rb'^[ \t]*[0-9a-fA-F]+', consumed):
            return 'accepted-garbage', 'a chunked body not starting with a hex size was accepted'
    return None


# ---------------------------------------------------------------- negotiation generators
NAMES = ['gzip', 'lz4', 'x-lz4', 'identity', '*', 'br', 'deflate', 'GZIP', 'compress', '', 'g zip', 'gzip\t']
QVALS = ['0', '0.0', '0.000', '1', '1.0', '1.000', '0.5', '0.50', '0.001', '.5', '5.', '00.5', '0.9', '0.3', '0.7',
         '-1', '-0', '+0.3', '', 'abc', '0.5.1', ' 0.7 ', '\t0.2', '0.2\xa0', '1e3', 'nan', 'inf', '1_0', '-inf', 'x1',
         '0.1234567890123', '0.12345678901234567', '2', '10', '0.999']


def gen_element(rng):
    name = rng.choice(NAMES) if rng.random() < 0.9 else ''.join(rng.choice('gzlx4-*b ') for _ in range(rng.randint(0, 5)))
    ws = lambda: rng.choice(['', '', '', ' ', '  ', '\t'])  # noqa: E731
    k = rng.random()
    if k < 0.35:
        return ws() + name + ws()
    q = rng.choice(QVALS)
    if k < 0.8:
        return f'{ws()}{name}{ws()};{ws()}q{ws()}={ws()}{q}{ws()}'
    if k < 0.86:
        return f'{name};level={q}'
    if k < 0.9:
        return f'{name};q'
    if k < 0.94:
        return f'{name};q={q};x=1'
    if k < 0.97:
        return f'{name};x=1;q={q}'
    return f'{name};q=={q}'


def gen_header(rng):
    k = rng.random()
    if k < 0.03:
        return None
    if k < 0.06:
        return ''
    if k < 0.9:
        sep = rng.choice([',', ', ', ' ,', ',  '])
        els = [gen_element(rng) for _ in range(rng.randint(1, 6))]
        if rng.random() < 0.1:
            els.append('')
        return sep.join(els)
    return ''.join(rng.choice('gzipl4x,;=q.01 -+\t*e_') for _ in range(rng.randint(1, 30)))


RFC_ELEMENT = re.compile(r'^[ \t]*([!#$%&\'*+\-.^_`|~0-9A-Za-z]+)[ \t]*(?:;[ \t]*[qQ]=(0(?:\.[0-9]{0,3})?|1(?:\.0{0,3})?))?[ \t]*$')


def rfc_qualities(header):
    """RFC 7231 5.3.4 reading of a header that is entirely well-formed and names every coding once; else None"""
    if header is None or header == '':
        return {}
    res = {}
    for el in header.split(','):
        if el.strip(' \t') == '':
            continue
        m = RFC_ELEMENT.match(el)
        if not m or m.group(1) in res:
            return None
        res[m.group(1)] = float(m.group(2)) if m.group(2) is not None else 1.0
    return res


def choice_oracle(header, enabled, chosen):
    """None = fine.  chosen: str | None"""
    if chosen is not None and chosen not in enabled:
        return 'not-enabled', f'coding {chosen!r} used but only {enabled} are enabled'
    rq = rfc_qualities(header)
    if chosen is not None:
        if rq is not None:
            if rq.get(chosen, 0.0) <= 0.0:
                return 'not-acceptable', (f'coding {chosen!r} used although Accept-Encoding {header!r} '
                                          f'gives it quality {rq.get(chosen, "none")}')
            best = max((q for n, q in rq.items() if n in enabled), default=0.0)
            if rq[chosen] < best:
                return 'not-preferred', f'coding {chosen!r} (q={rq[chosen]}) used, an enabled coding has q={best}'
        else:   # sloppy header: the name must at least occur, and not only with an explicit zero quality
            occ = [el for el in (header or '').split(',') if el.split(';')[0].strip() == chosen]
            if not occ:
                return 'not-offered', f'coding {chosen!r} used, not named in {header!r}'
            last = occ[-1]
            m = re.match(r'^[^;]*;\s*q\s*=\s*([-+]?[0-9]*\.?[0-9]*)\s*(;.*)?$', last)
            if m and re.search(r'\d', m.group(1)) and float(m.group(1)) <= 0:
                return 'not-acceptable', f'coding {chosen!r} used although its last entry {last!r} has quality 0'
    elif rq is not None:
        offered = [n for n, q in rq.items() if q > 0 and n in enabled]
        if offered:
            return 'offer-ignored', f'no coding used although {offered} are acceptable and enabled'
    return None


# ---------------------------------------------------------------- run
def run(ctx):
    ctx.regenerate('gen_http_params', 'Http/Gen_Params.v')
    if not ctx.prove():
        ctx.broken('theorem', 'Props/C17.v', ctx.proof_error)
    rng = ctx.rng
    probe = ctx.impl('c17_impl', {})
    if probe.get('_crash'):
        ctx.broken('correspondence', 'c17_impl', probe['stderr'])
        return ctx.finish('implementation run crashed', [], [])
    avail = probe['available_encodings']

    # ------------------------------------------------------------ generate
    mk_cases = []
    for _ in range(ctx.n(300, 3000)):
        body = gen_body(rng, ctx.thorough)
        mk_cases.append({'n': gen_chunk_size(rng, len(body)), 'body': body})
    mk_cases.append({'n': 1, 'body': b''})
    mk_cases.append({'n': 512, 'body': b'\r\n0\r\n\r\n' * 3})
    big_cases = []
    if ctx.thorough:   # multi-megabyte bodies: oracle only (too large for Coq literals)
        for size, n in ((1 << 20, 512), (3 * (1 << 20) + 17, 65536), (1 << 22, 1 << 22), (100000, 1)):
            big_cases.append({'n': n, 'body': bytes(rng.randrange(256) for _ in range(4096)) * (size // 4096) +
                              b'x' * (size % 4096)})
    rd_cases = [gen_reader_case(rng, avail, ctx.thorough) for _ in range(ctx.n(700, 9000))]
    rs_cases = []
    for _ in range(ctx.n(250, 3000)):
        c = gen_reader_case(rng, avail, False, malformed_share=0.0)
        if c['model_hdr'][1] in (2, 3):
            continue
        if c['model_hdr'][0]:      # http.client has removed the framing: the stream is the payload
            c['kind'], c['cl'] = 'resp-chunked', None
        c['data'], c['trailing'] = c['payload'], b''
        if c['kind'] == 'cl-long':
            c['model_hdr'] = (False, 1, int(c['cl']))
        rs_cases.append(c)
    ph_cases = [gen_header(rng) for _ in range(ctx.n(500, 8000))]
    ph_cases += ['gzip;q=0', 'gzip;q=0.0, lz4', 'gzip;q=1.0, identity; q=0.5, *;q=0', 'compress, gzip', '*', 'lz4;q= 1, gzip']
    sc_cases = []
    for _ in range(ctx.n(400, 6000)):
        enabled = rng.sample(avail + ['br', 'identity', '*'], rng.randint(0, 3))
        if rng.random() < 0.5:
            enabled = rng.sample(avail, rng.randint(1, len(avail)))
        sc_cases.append((gen_header(rng), enabled))
    sc_cases += [('gzip;q=0', ['gzip']), ('gzip;q=0, lz4;q=0.1', ['gzip', 'lz4']), ('*;q=0', ['gzip'])]
    cc_cases = []
    for _ in range(ctx.n(200, 2000)):
        hdr = gen_header(rng)
        cc_cases.append({'header': hdr, 'supported': rng.sample(avail + ['br'], rng.randint(0, 3)),
                         'chunk': rng.choice([0, 0, 7, 512])})
    cc_cases.append({'header': 'gzip;q=0', 'supported': ['gzip'], 'chunk': 0})

    hx = lambda b: b.hex()  # noqa: E731
    lh = lambda s: None if s is None else s.encode('latin-1').hex()  # noqa: E731
    # client request_encodings are what parse_header returned for the peer's header: ask the implementation first
    pre = ctx.impl('c17_impl', {'parse_header': [{'header': lh(c['header'])} for c in cc_cases]})
    if pre.get('_crash'):
        ctx.broken('correspondence', 'c17_impl', pre['stderr'])
        return ctx.finish('implementation run crashed', [], [])
    for c, r in zip(cc_cases, pre['parse_header']):
        c['request_encodings'] = [bytes.fromhex(x).decode('latin-1') for x in (r['accepted'] or [])]

    e2e_cases = []
    for _ in range(ctx.n(150, 1500)):
        sup_c = rng.sample(avail, rng.randint(0, len(avail)))
        sup_s = rng.sample(avail, rng.randint(0, len(avail)))
        e2e_cases.append({'xml': hx(gen_body(rng)), 'answer': hx(gen_body(rng)),
                          'client_supported': sup_c, 'request_encodings': rng.sample(avail + ['br'], rng.randint(0, 3)),
                          'client_chunk': rng.choice([0, 0, 1, 5, 512, 4096]), 'server_enabled': sup_s,
                          'server_chunk': rng.choice([0, 0, 1, 7, 512, 4096])})
    raw_cases = []
    for _ in range(ctx.n(200, 2500)):
        hdr = gen_header(rng)
        if hdr is not None and not all(32 <= ord(ch) < 127 or ch == '\t' for ch in hdr):
            hdr = re.sub(r'[^\x20-\x7e\t]', ' ', hdr)
        body = gen_body(rng)
        enabled = rng.sample(avail, rng.randint(0, len(avail)))
        raw = b'POST /dev/svc HTTP/1.1\r\nHost: h\r\n'
        if hdr is not None:
            raw += b'Accept-Encoding: ' + hdr.encode('latin-1') + b'\r\n'
        raw += b'Content-Length: %d\r\n\r\n' % len(body) + body
        raw_cases.append({'raw': hx(raw), 'answer': hx(gen_body(rng)), 'server_enabled': enabled,
                          'server_chunk': rng.choice([0, 3, 512]), 'header': hdr, 'body': hx(body)})
    conn_cases = []
    accept_pool = [None, None, 'gzip', 'gzip;q=0', 'gzip;q=0.0', 'identity', 'x-lz4', 'lz4', 'lz4, gzip;q=0.5', '*;q=0', 'br',
                   'gzip;q=1.0, identity; q=0.5, *;q=0', 'x-lz4;q=0, gzip', '']
    for _ in range(ctx.n(150, 1500)):
        reqs = []
        for _k in range(rng.randint(2, 5)):
            acc = rng.choice(accept_pool)
            if rng.random() < 0.15:
                acc = gen_header(rng)
                if acc is not None:
                    acc = re.sub(r'[^\x20-\x7e\t]', ' ', acc).strip(' \t')
            reqs.append({'method': 'GET' if rng.random() < 0.3 else 'POST', 'accept': acc, 'ce': rng.choice([None, None] + avail), 'chunk': rng.choice([0, 0, 1, 7, 512]),
                         'body': hx(gen_body(rng)[:400]), 'answer': hx(b'<answer n="%d">' % _k + gen_body(rng)[:300] + b'</answer>')})
        conn_cases.append({'server_enabled': rng.sample(avail, rng.randint(0, len(avail))) if rng.random() < 0.7 else ['gzip'],
                           'server_chunk': rng.choice([0, 0, 1, 5, 512, 4096]), 'requests': reqs})
    config_cases = []
    for _ in range(ctx.n(14, 80)):
        sets = lambda k: [rng.sample(avail, rng.randint(0, len(avail))) for _ in range(k)]  # noqa: E731
        config_cases.append({'side': rng.choice(['provider', 'provider', 'consumer']), 'pre': sets(rng.randint(0, 2)),
                             'post': sets(rng.randint(1, 3)), 'chunk': rng.choice([0, 0, 7, 512])})
    notify_cases = []
    zero_pool = [None, '', 'gzip;q=0', '*;q=0', 'gzip;q=0, x-lz4;q=0.0, lz4;q=0', 'identity', 'br', 'gzip;q=0.000', ' ', ',']
    for _ in range(ctx.n(10, 60)):
        accepts = [rng.choice(zero_pool) for _ in range(3)] + [rng.choice(accept_pool) for _ in range(2)]
        for _k in range(3):
            h = gen_header(rng)
            accepts.append(None if h is None else re.sub(r'[^\x20-\x7e\t]', ' ', h))
        rng.shuffle(accepts)
        notify_cases.append({'enabled': rng.choice([None, None, rng.sample(avail, rng.randint(1, len(avail)))]),
                             'chunk': rng.choice([0, 0, 64]), 'accepts': accepts})
    codec_cases = []
    for _ in range(ctx.n(60, 600)):
        alg = rng.choice(avail)
        data = gen_body(rng, ctx.thorough)
        corrupt = {'trunc': {'op': 'trunc', 'at': rng.random() * 0.95},
                   'garbage': {'op': 'garbage', 'bytes': hx(bytes(rng.randrange(256) for _ in range(rng.randint(0, 40))))},
                   'magic': {'op': 'flip', 'at': 0.0, 'bit': rng.choice([1, 8, 128])}}
        if alg == 'gzip':   # deflate + CRC32: any single flipped bit must be noticed (lz4 frames carry no content checksum)
            corrupt['flip'] = {'op': 'flip', 'at': rng.random(), 'bit': 1 << rng.randrange(8)}
        codec_cases.append({'alg': alg, 'data': hx(data), 'corrupt': corrupt})

    payload = {
        'mk_chunks': [{'n': c['n'], 'body': hx(c['body'])} for c in mk_cases + big_cases],
        'reader': [{'te': c['te'], 'cl': c['cl'], 'ce': c['ce'], 'data': hx(c['data']), 'caps': c['caps']} for c in rd_cases],
        'response': [{'te': c['te'], 'cl': c['cl'], 'ce': c['ce'], 'data': hx(c['data']), 'caps': c['caps']} for c in rs_cases],
        'parse_header': [{'header': lh(h)} for h in ph_cases],
        'server_choice': [{'header': lh(h), 'enabled': [lh(e) for e in en]} for h, en in sc_cases],
        'client_choice': [{'request_encodings': [lh(x) for x in c['request_encodings']], 'supported': [lh(x) for x in c['supported']],
                           'chunk': c['chunk']} for c in cc_cases],
        'e2e': e2e_cases, 'raw': raw_cases, 'codec': codec_cases, 'conn': conn_cases, 'config': config_cases, 'notify': notify_cases,
    }
    impl = ctx.impl('c17_impl', payload, timeout=1500)
    if impl.get('_crash'):
        ctx.broken('correspondence', 'c17_impl', impl['stderr'])
        return ctx.finish('implementation run crashed', [], [])

    ctx.log(f'implementation traces collected at {__import__("time").time() - ctx.t0:.0f}s')

    # ------------------------------------------------------------ streams mk_chunks / reader / response
    flits = []          # (input literal, expected literal, stream, index, describe())
    hist = {}
    for i, (c, tr) in enumerate(zip(mk_cases + big_cases, impl['mk_chunks'])):
        framed = bytes.fromhex(tr['framed'])
        body, n = c['body'], c['n']
        key = ('empty' if not body else 'n>=len' if n >= len(body) else 'n=1' if n == 1 else 'multi')
        hist[key] = hist.get(key, 0) + 1
        sp = strict_parse_chunked(framed)
        sig = None
        if sp is None or sp[0] != body or sp[1] != len(framed):
            sig, why = 'framing-invalid', 'output of mk_chunks is not a strict HTTP/1.1 chunked body of the input'
        elif tr['http_client'] is None or bytes.fromhex(tr['http_client']) != body:
            sig, why = 'http-client-disagrees', f'http.client decodes the framing differently: {tr.get("http_client_exc")}'
        elif tr['dechunk'] is None or bytes.fromhex(tr['dechunk']) != body or tr['left'] != 4:
            sig, why = 'roundtrip', (f'_read_dechunk(mk_chunks(body, {n})) != body or read beyond the message '
                                     f'(left={tr["left"]}, exc={tr.get("dechunk_exc")})')
        if sig:
            ctx.fail(f'mk_chunks(n={n}, {len(body)} bytes): {why}', {'stream': 'mk_chunks', 'clause': sig},
                     {'stream': 'mk_chunks', 'case': {'n': n, 'body_hex': body.hex()[:4000]},
                      'impl_trace': {k: (v[:400] if isinstance(v, str) else v) for k, v in tr.items()}})
        if len(body) <= 8000:
            flits.append((f'(FMk {n} {B(body)})', f'(FBytes {B(framed)})', 'mk_chunks', i))
    n_mk = sum(1 for x in flits if x[2] == 'mk_chunks')
    ctx.count('mk_chunks', n_mk, [(c['n'], c['body']) for c in mk_cases], histogram=hist,
              oracle_only_large_bodies=[len(c['body']) for c in big_cases])
    ctx.sample({'stream': 'mk_chunks', 'n': mk_cases[0]['n'], 'body_hex': mk_cases[0]['body'].hex()[:80],
                'framed_hex': impl['mk_chunks'][0]['framed'][:120]})

    for name, cases, traces, ctor in (('reader', rd_cases, impl['reader'], 'FReq'), ('response', rs_cases, impl['response'], 'FResp')):
        hist, tags = {}, {}
        for i, (c, tr) in enumerate(zip(cases, traces)):
            hist[c['kind']] = hist.get(c['kind'], 0) + 1
            tags[str(tr['tag'])] = tags.get(str(tr['tag']), 0) + 1
            bad = reader_oracle(c, tr, avail) if name == 'reader' else response_oracle(c, tr)
            if bad:
                sig, why = bad
                ctx.fail(f'{name}: {why}', {'stream': name, 'clause': sig},
                         {'stream': name, 'case': {k2: (v.hex() if isinstance(v, bytes) else v) for k2, v in c.items()},
                          'impl_trace': tr, 'oracle': {'verdict': 'fail', 'clause': sig}})
            a, b = reader_literals(c, tr)
            flits.append((f'({ctor} {a})', f'(FTrace {b})', name, i))
        muts = {}
        for c in cases:
            if c.get('mutation'):
                muts[c['mutation']] = muts.get(c['mutation'], 0) + 1
        ctx.count(name, len(cases), [(c['te'], c['cl'], c['ce'], c['data'], tuple(c['caps'])) for c in cases],
                  histogram=hist, outcome_tags=tags, mutations=muts,
                  short_read_cases=sum(1 for c in cases if c.get('short_reads')))
        ctx.sample({'stream': name, 'kind': cases[0]['kind'], 'te': cases[0]['te'], 'cl': cases[0]['cl'], 'ce': cases[0]['ce'],
                    'data_hex': cases[0]['data'].hex()[:100], 'impl': {k2: (v[:80] if isinstance(v, str) else v) for k2, v in traces[0].items()}})
    runner = 'run_framing hdr_max available_encodings'
    max_lit = 40000       # larger cases are judged by the oracle only
    n_too_large = sum(1 for x in flits if len(x[0]) + len(x[1]) > max_lit)
    flits = [x for x in flits if len(x[0]) + len(x[1]) <= max_lit]
    ctx.cov['framing_cases_too_large_for_coq_literals'] = n_too_large
    mism, err = ctx.coq_mism('framing', HEADER, 'fres_eqb', runner, [(a, b) for a, b, _, _ in flits],
                             shard=shard_size([(a, b) for a, b, _, _ in flits]),
                             deps=['Http/Gen_Params.vo', 'Http/Negotiation.vo'])
    if err:
        ctx.broken('correspondence', 'framing (coq evaluation)', err)
    by_stream = {}
    for j in mism:
        by_stream.setdefault(flits[j][2], []).append(j)
    allc = {'mk_chunks': mk_cases + big_cases, 'reader': rd_cases, 'response': rs_cases}
    for name, js in by_stream.items():
        j = js[0]
        c, tr = allc[name][flits[j][3]], impl[name][flits[j][3]]
        model = ctx.coq_eval(HEADER, f'{runner} {flits[j][0]}')
        ctx.broken('correspondence', name, {
            'disagreements': len(js),
            'kinds': sorted({str(allc[name][flits[x][3]].get('kind')) + ':' + str(allc[name][flits[x][3]].get('mutation')) for x in js})[:12],
            'first': {'case': {k2: (v.hex()[:600] if isinstance(v, bytes) else v) for k2, v in c.items() if k2 not in ('payload', 'plain')},
                      'impl': {k2: (v[:300] if isinstance(v, str) else v) for k2, v in tr.items()}, 'model': model[-600:]}})
    ctx.log(f'framing streams compared at {__import__("time").time() - ctx.t0:.0f}s')
    # ------------------------------------------------------------ streams parse_header / server_choice / client_choice
    nlits = []
    for i, (h, tr) in enumerate(zip(ph_cases, impl['parse_header'])):
        acc = tr['accepted']
        exp = '(@None (list (list N)))' if acc is None else f'(Some {BL([bytes.fromhex(x) for x in acc])})'
        nlits.append((f'(NParse {OB(lat(h))})', f'(NList {exp})', 'parse_header', i))
        nlits.append((f'(NModelled {OB(lat(h))})', '(NBool true)', 'modelled', i))
        if acc is not None:
            names = [n for n in (bytes.fromhex(x).decode('latin-1') for x in acc) if n.strip(' \t')]
            rq = rfc_qualities(h)
            if rq is not None:
                want = [n for n, q in sorted(rq.items(), key=lambda kv: -kv[1]) if q > 0]
                if names != want:
                    ctx.fail(f'parse_header({h!r}) = {names}, RFC 7231 reading gives {want}',
                             {'stream': 'parse_header', 'clause': 'q0-offered' if set(names) - set(want) else 'order'},
                             {'stream': 'parse_header', 'case': {'header': h}, 'impl_trace': names,
                              'oracle': {'verdict': 'fail', 'clause': 'accepted list != codings with q>0 by descending q'}})
        else:
            ctx.fail(f'parse_header({h!r}) raised {tr.get("exc")}', {'stream': 'parse_header', 'clause': 'raises'},
                     {'stream': 'parse_header', 'case': {'header': h}, 'impl_trace': tr})
    n_srv = n_cli = n_async = 0
    for i, ((h, en), tr) in enumerate(zip(sc_cases, impl['server_choice'])):
        chosen = None if tr['chosen'] is None else bytes.fromhex(tr['chosen']).decode('latin-1')
        n_srv += chosen is not None
        nlits.append((f'(NServer {OB(lat(h))} {BL([lat(e) for e in en])})', f'(NChoice (Some {OB(lat(chosen))}))', 'server_choice', i))
        bad = choice_oracle(h, en, chosen)
        if not tr['consistent'] or tr['exc']:
            bad = ('inconsistent', f'Content-Encoding header / compression call / body disagree or raised: {tr}')
        if bad:
            ctx.fail(f'server: {bad[1]}', {'stream': 'server_choice', 'clause': bad[0]},
                     {'stream': 'server_choice', 'case': {'accept_encoding': h, 'enabled': en}, 'impl_trace': tr,
                      'oracle': {'verdict': 'fail', 'clause': bad[0]}})
    for i, (c, tr) in enumerate(zip(cc_cases, impl['client_choice'])):
        chosen = None if tr['chosen'] is None else bytes.fromhex(tr['chosen']).decode('latin-1')
        n_cli += chosen is not None
        nlits.append((f'(NClient {BL([lat(x) for x in c["request_encodings"]])} {BL([lat(x) for x in c["supported"]])})',
                      f'(NCoding {OB(lat(chosen))})', 'client_choice', i))
        bad = choice_oracle(c['header'], c['supported'], chosen)
        if not tr['consistent'] or tr['exc']:
            bad = ('inconsistent', f'request Content-Encoding and compression call disagree or raised: {tr}')
        if bad:
            ctx.fail(f'client: {bad[1]}', {'stream': 'client_choice', 'clause': bad[0]},
                     {'stream': 'client_choice', 'case': c, 'impl_trace': tr, 'oracle': {'verdict': 'fail', 'clause': bad[0]}})
        ta = tr.get('async') or {}
        if 'skipped' not in ta and ta:
            n_async += 1
            a_chosen = None if ta['chosen'] is None else bytes.fromhex(ta['chosen']).decode('latin-1')
            nlits.append((nlits[-1][0], f'(NCoding {OB(lat(a_chosen))})', 'client_choice', i))
            bad = choice_oracle(c['header'], c['supported'], a_chosen)
            if not ta['consistent'] or ta['exc']:
                bad = ('inconsistent', f'async client: Content-Encoding / compression call / framing disagree or raised: {ta}')
            if bad:
                ctx.fail(f'async client: {bad[1]}', {'stream': 'client_choice', 'clause': bad[0], 'client': 'async'},
                         {'stream': 'client_choice', 'case': c, 'impl_trace': tr, 'oracle': {'verdict': 'fail', 'clause': bad[0]}})
    # keep-alive connections: every response is judged against the headers of ITS request
    n_conn_req = n_conn_coded = n_conn_changes = 0
    for i, (c, tr) in enumerate(zip(conn_cases, impl['conn'])):
        reqs, resps = c['requests'], tr['responses']
        bad = None
        if tr['escaped']:
            bad = ('exception', f'exception on a connection with {len(reqs)} valid requests: {tr["escaped"]}', None)
        elif (len(resps) != len(reqs) or tr['unparsed_output']) and not any(a.get('framing_error') for a in resps):
            bad = ('response-count', f'{len(reqs)} requests on one connection, {len(resps)} responses (+{tr["unparsed_output"]} unparsed bytes)', None)
        elif any(a.get('framing_error') for a in resps):
            k_bad = next(k for k, a in enumerate(resps) if a.get('framing_error'))
            bad = ('response-framing', f'response {k_bad + 1} of {len(reqs)} ({reqs[min(k_bad, len(reqs) - 1)].get("method", "POST")}, server chunk size '
                                       f'{c["server_chunk"]}) is not valid HTTP/1.1 framing: {resps[k_bad]["framing_error"]}', k_bad)
        elif tr['server_saw'] != [None if r.get('method') == 'GET' else r['body'] for r in reqs]:
            bad = ('request-lossy', 'the component did not receive exactly the request bodies that were sent, in order', None)
        prev = None
        for k, (r, a) in enumerate(zip(reqs, resps)):
            n_conn_req += 1
            n_conn_coded += a['ce'] is not None
            n_conn_changes += k > 0 and r['accept'] != prev
            prev = r['accept']
            nlits.append((f'(NServer {OB(lat(r["accept"]))} {BL([lat(e) for e in c["server_enabled"]])})',
                          f'(NChoice (Some {OB(lat(a["ce"]))}))', 'conn', i))
            if bad:
                continue
            if a['status'] != 200 or a['content'] != r['answer']:
                bad = ('response-lossy', f'response {k + 1} of {len(reqs)} on the connection is not the answer to request {k + 1} '
                                         f'(status {a["status"]}, {a["err"]})', k)
            else:
                co = choice_oracle(r['accept'], c['server_enabled'], a['ce'])
                if co:
                    bad = (co[0], f'response {k + 1} of {len(reqs)} on one connection (Accept-Encoding of the requests: '
                                  f'{[x["accept"] for x in reqs[:k + 1]]}): {co[1]}', k)
        if bad:
            ctx.fail(f'conn: {bad[1]}', {'stream': 'conn', 'clause': bad[0], 'first_request': bad[2] == 0},
                     {'stream': 'conn', 'case': c, 'impl_trace': tr, 'oracle': {'verdict': 'fail', 'clause': bad[0], 'request_index': bad[2]}})
    mism, err = ctx.coq_mism('negotiation', HEADER, 'nres_eqb', 'run_neg', [(a, b) for a, b, _, _ in nlits], shard=500,
                             deps=['Http/Negotiation.vo'])
    if err:
        ctx.broken('correspondence', 'negotiation (coq evaluation)', err)
    unmod = [nlits[j][3] for j in mism if nlits[j][2] == 'modelled']
    by_stream = {}
    for j in mism:
        if nlits[j][2] != 'modelled':
            by_stream.setdefault(nlits[j][2], []).append(j)
    ncases = {'parse_header': ph_cases, 'server_choice': sc_cases, 'client_choice': cc_cases, 'conn': conn_cases}
    for name, js in by_stream.items():
        j = js[0]
        ctx.broken('correspondence', name, {'disagreements': len(js), 'first': {
            'case': ncases[name][nlits[j][3]], 'impl': impl[name][nlits[j][3]],
            'model': ctx.coq_eval(HEADER, f'run_neg {nlits[j][0]}')[-400:]}})
    ctx.count('parse_header', len(ph_cases) - len(unmod), set(ph_cases), not_modelled_q_strings=len(unmod),
              rfc_wellformed=sum(1 for h in ph_cases if rfc_qualities(h) is not None),
              with_zero_quality=sum(1 for h in ph_cases if h and re.search(r'q\s*=\s*0(\.0*)?\s*(,|$)', h)))
    ctx.sample({'stream': 'parse_header', 'header': ph_cases[1], 'impl': impl['parse_header'][1]})
    ctx.count('server_choice', len(sc_cases), [(h, tuple(en)) for h, en in sc_cases], coding_chosen=n_srv)
    ctx.count('conn', n_conn_req, [json_key(c) for c in conn_cases], connections=len(conn_cases), responses_coded=n_conn_coded,
              accept_encoding_changes_within_connection=n_conn_changes)
    ctx.count('client_choice', len(cc_cases), [(tuple(c['request_encodings']), tuple(c['supported'])) for c in cc_cases], coding_chosen=n_cli, async_client_cases=n_async)

    # ------------------------------------------------------------ oracle streams e2e / raw / codec
    hist = {'req_coded': 0, 'req_chunked': 0, 'resp_coded': 0, 'resp_chunked': 0}
    for c, tr in zip(e2e_cases, impl['e2e']):
        xml, answer = bytes.fromhex(c['xml']), bytes.fromhex(c['answer'])
        hist['req_coded'] += tr.get('request_ce') is not None
        hist['req_chunked'] += tr.get('request_te') is not None
        hist['resp_coded'] += tr.get('response_ce') is not None
        hist['resp_chunked'] += tr.get('response_te') is not None
        bad = None
        if tr['escaped'] or tr['exc']:
            bad = ('exception', f'exception on a valid exchange: {tr["escaped"] or tr["exc"]}')
        elif tr['server_saw'] != [xml.hex()]:
            bad = ('request-lossy', 'the handler did not receive the bytes the client sent')
        elif tr['content'] != answer.hex():
            bad = ('response-lossy', 'the client did not receive the bytes the handler answered')
        elif tr['request_ce'] is not None and (tr['request_ce'] not in c['request_encodings'] or tr['request_ce'] not in c['client_supported']):
            bad = ('request-coding', f'request coded with {tr["request_ce"]}: not (accepted by peer and enabled)')
        elif tr['response_ce'] is not None and (tr['response_ce'] not in c['server_enabled'] or tr['response_ce'] not in c['client_supported']):
            bad = ('response-coding', f'response coded with {tr["response_ce"]}: client accepts {c["client_supported"]}, server has {c["server_enabled"]}')
        elif (c['client_chunk'] > 0) != (tr['request_te'] == 'chunked') or (c['server_chunk'] > 0) != (tr['response_te'] == 'chunked'):
            bad = ('framing-config', 'chunked framing does not follow the configured chunk size')
        if bad:
            ctx.fail(f'e2e: {bad[1]}', {'stream': 'e2e', 'clause': bad[0]},
                     {'stream': 'e2e', 'case': c, 'impl_trace': tr, 'oracle': {'verdict': 'fail', 'clause': bad[0]}})
    ctx.count('e2e', len(e2e_cases), [tuple(sorted((k, str(v)) for k, v in c.items())) for c in e2e_cases], histogram=hist, oracle_only=True)
    nsome = 0
    for c, tr in zip(raw_cases, impl['raw']):
        ce = tr.get('response_ce')
        nsome += ce is not None
        bad = choice_oracle(c['header'], c['server_enabled'], ce)
        if tr['escaped'] or tr.get('exc'):
            bad = ('exception', f'exception: {tr["escaped"] or tr.get("exc")}')
        elif tr['content'] != c['answer'] or tr['server_saw'] != [c['body']]:
            bad = ('lossy', 'request or response body changed on the way')
        if bad:
            ctx.fail(f'raw: {bad[1]}', {'stream': 'raw', 'clause': bad[0]},
                     {'stream': 'raw', 'case': {k: v for k, v in c.items() if k != 'raw'}, 'impl_trace': tr,
                      'oracle': {'verdict': 'fail', 'clause': bad[0]}})
    ctx.count('raw', len(raw_cases), [c['raw'] for c in raw_cases], coding_chosen=nsome, oracle_only=True)
    # configuration calls before and after start: only codings enabled AT THAT MOMENT may be used or advertised
    n_obs = n_used = 0
    for c, tr in zip(config_cases, impl['config']):
        if tr.get('spin') or 'observations' not in tr:
            ctx.broken('correspondence', 'config', {'case': c, 'impl': tr})
            continue
        bad = None
        for o in tr['observations']:
            n_obs += 1
            for who in ('server', 'old_client', 'new_client'):
                p = o.get(who)
                if p is None:
                    continue
                n_used += p.get('ce') is not None
                if p.get('exc') or p.get('escaped') or p.get('framing_error'):
                    bad = bad or ('exception', f'{c["side"]} {who} after "{o["phase"]}" (enabled {o["enabled"]}): {p}')
                elif p.get('ce') is not None and p['ce'] not in o['enabled']:
                    bad = bad or ('not-enabled', f'{c["side"]}: {who.replace("_", " ")} used coding {p["ce"]!r} after "{o["phase"]}" although only '
                                                 f'{o["enabled"]} are enabled now (calls before start: {c["pre"]}, after start: {c["post"]})')
                elif p.get('accept') and not set(x.strip() for x in p['accept'].split(',')) <= set(o['enabled']):
                    bad = bad or ('advertises-disabled', f'{c["side"]}: {who.replace("_", " ")} advertises Accept-Encoding {p["accept"]!r} after '
                                                         f'"{o["phase"]}" although only {o["enabled"]} are enabled now')
        if bad:
            ctx.fail(f'config: {bad[1]}', {'stream': 'config', 'clause': bad[0], 'side': c['side']},
                     {'stream': 'config', 'case': c, 'impl_trace': tr, 'oracle': {'verdict': 'fail', 'clause': bad[0]}})
    ctx.count('config', n_obs, [json_key(c) for c in config_cases], scenarios=len(config_cases), codings_used=n_used, oracle_only=True)
    # provider -> subscriber path: the coding of every notification / SubscriptionEnd against the Subscribe's Accept-Encoding
    n_notes = n_coded = n_none_allowed = 0
    for c, tr in zip(notify_cases, impl['notify']):
        if tr.get('spin') or 'subscribers' not in tr:
            ctx.broken('correspondence', 'notify', {'case': c, 'impl': tr})
            continue
        if tr['errors']:
            ctx.broken('correspondence', 'notify', {'why': 'scenario did not run to the end', 'errors': tr['errors'], 'case': c})
        enabled = c['enabled'] if c['enabled'] is not None else list(avail)
        for sd in tr['subscribers']:
            if sd['subscribe_status'] != 200:
                continue
            rq = rfc_qualities(sd['accept'])
            n_none_allowed += rq is not None and not any(q > 0 and n in enabled for n, q in rq.items())
            bad = None
            if not sd['notifications']:
                bad = ('no-notification', 'subscribed, but neither a report nor the end message was sent')
            for note in sd['notifications']:
                n_notes += 1
                n_coded += note['ce'] is not None
                if note.get('decode_error') or note.get('document') != 'Envelope':
                    bad = bad or ('lossy', f'{note.get("action")} sent to the subscriber does not decode to a SOAP envelope: {note}')
                else:
                    co = choice_oracle(sd['accept'], enabled, note['ce'])
                    if co:
                        bad = bad or (co[0], f'{note["action"]} POSTed to a subscriber whose Subscribe request said Accept-Encoding '
                                             f'{sd["accept"]!r} (locally enabled: {enabled}): {co[1]}')
            if bad:
                ctx.fail(f'notify: {bad[1]}', {'stream': 'notify', 'clause': bad[0]},
                         {'stream': 'notify', 'case': {'enabled': c['enabled'], 'chunk': c['chunk'], 'accepts': [sd['accept']]},
                          'impl_trace': sd, 'oracle': {'verdict': 'fail', 'clause': bad[0]}})
    ctx.count('notify', n_notes, [json_key(c) for c in notify_cases], scenarios=len(notify_cases), notifications_coded=n_coded,
              subscribers_that_allow_no_enabled_coding=n_none_allowed, oracle_only=True)
    hist = {}
    for c, tr in zip(codec_cases, impl['codec']):
        if tr.get('exc') or not tr.get('roundtrip'):
            ctx.fail(f'codec {c["alg"]}: decompress(compress(b)) != b ({tr.get("exc")})', {'stream': 'codec', 'clause': 'law'},
                     {'stream': 'codec', 'case': c, 'impl_trace': tr})
            continue
        for k, v in tr['corrupt'].items():
            hist[f'{k}:{v}'] = hist.get(f'{k}:{v}', 0) + 1
            if v == 'DIFFERENT':
                ctx.fail(f'codec {c["alg"]}: corrupt payload ({k}) decoded to different bytes without an error',
                         {'stream': 'codec', 'clause': 'corrupt-accepted', 'alg': c['alg'], 'mutation': k},
                         {'stream': 'codec', 'case': c, 'impl_trace': tr})
    ctx.count('codec', len(codec_cases), [(c['alg'], c['data']) for c in codec_cases], histogram=hist, oracle_only=True)

    if ctx.thorough:
        hits = ctx.gate_grep(['Http', 'Common'])
        if hits:
            ctx.broken('theorem', 'grep gate', hits)
        ctx.coqchk('SDC.Props.C17')
    return ctx.finish(
        rule='mk_chunks/reader/response/parse_header/server_choice/client_choice: every generated case is run on the real '
             'function and on the Coq model (vm_compute) and compared exactly (framing bytes; outcome tag, bytes handed on, '
             'bytes left in the stream; accepted list; chosen coding); the property oracle judges every implementation trace '
             'independently (strict chunk parser, http.client as second reader, RFC 7231 reading of Accept-Encoding). '
             'conn: 2-5 requests with their own Accept-Encoding / Content-Encoding / framing on ONE connection (one handler '
             'instance); every response is judged against its own request and its coding compared with the model. '
             'config: set_used_compression on provider / consumer before and after start, several times; after each call the running '
             'http server, an existing and a new SOAP client are probed (only codings enabled at that moment). conn responses are split '
             'by a strict RFC 7230 3.3 reader (exactly one of Content-Length / chunked, length = bytes on the wire), GET and POST alike. '
             'notify: Subscribe requests with every kind of Accept-Encoding (incl. all-zero, empty, absent) to a real provider, then two '
             'reports and the end message through the real subscriptions manager and sync SoapClient with a recording connection: every '
             'notification decodes to its document and uses only a coding the Subscribe allowed. '
             'e2e/raw/codec/config/notify are oracle-only. distinct = distinct inputs.',
        assumptions=['decompress c (compress c b) = b for the registered codings (premise of the two round-trip theorems; '
                     'checked by the codec stream on every run)',
                     'http.client decodes strictly well-formed chunked bodies (premise of C17_response_roundtrip; checked by '
                     'the mk_chunks and e2e streams)',
                     'rfile.read(n) returns at most n bytes and b"" only at end of data (BufferedReader contract)',
                     'model = pinned source plus fixes/C17_q0.diff and fixes/C13_reader_framing.diff'],
        trusted_base=['translator harness/impl/gen_http_params.py (hdr_max, available_encodings read from the source)',
                      'correspondence harness harness/impl/c17_impl.py (in-memory streams/sockets, header classes rendered as header strings)',
                      'zlib, lz4.frame, http.client, http.server.BaseHTTPRequestHandler, email header parsing: not modelled, differential only'],
        not_modelled=['float() strings outside  [sign] digits [. digits]  with at most 15 digits (exponent, "_", inf, nan): model declines, counted',
                      'bit flips inside lz4 frames (no content checksum in the frames the library writes): not detectable by the receiver',
                      'chunk extensions are ignored, trailers are not supported by the reader (a non-empty trailer is rejected as missing CRLF)',
                      'soapclient_async: the coding choice of async_post_message_to is exercised with a recording session object (no aiohttp '
                      'traffic); its subscription manager (subscriptionmgr_async) passes the raw header string as request_encodings, so '
                      'in that configuration nothing is ever compressed'])


def response_oracle(c, tr):
    if tr.get('spin'):
        return 'spin', 'read_response_body did not finish'
    res = None if tr.get('result') is None else bytes.fromhex(tr['result'])
    if c.get('unsupported'):
        if tr['exc'] is None:
            return 'unsupported-accepted', f'content-encoding {c["ce"]!r} is not available but the body was returned'
        return None
    valid = c['kind'] in ('resp-chunked', 'cl-exact', 'cl-absent') and not c.get('short_reads')
    if valid and not c.get('foreign_payload') and res != c['plain']:
        return 'lossy', f'{c["kind"]} response body of {len(c["plain"])} bytes, coding {c["ce"]}: got {tr["exc"] or len(res)}'
    if c.get('foreign_payload') and valid and res is not None and res != c['plain']:
        return 'misinterpreted', f'payload not in coding {c["ce"]} was accepted'
    return None


def replay(ctx, rep):
    """./check C17 --replay <file>: re-run the recorded case on the implementation and on the model"""
    import json
    stream, case = rep.get('stream'), rep.get('case') or {}
    lh = lambda s: None if s is None else s.encode('latin-1').hex()  # noqa: E731
    out = {'stream': stream, 'what': rep.get('what')}
    if stream == 'mk_chunks':
        body = bytes.fromhex(case['body_hex'])
        out['impl'] = ctx.impl('c17_impl', {'mk_chunks': [{'n': case['n'], 'body': body.hex()}]})['mk_chunks'][0]
        out['model'] = ctx.coq_eval(HEADER, f'run_mk_chunks ({case["n"]}, {B(body)})')
    elif stream in ('reader', 'response'):
        data = bytes.fromhex(case['data'])
        req = {'te': case['te'], 'cl': case['cl'], 'ce': case['ce'], 'data': data.hex(), 'caps': case['caps']}
        out['impl'] = ctx.impl('c17_impl', {stream: [req]})[stream][0]
        ch, code, v = case['model_hdr']
        ce = case['ce'] if case['ce'] else None
        inp = f'(({"true" if ch else "false"}, {code}, {v}), {OB(lat(ce))}, {B(data)}, {NL(case["caps"])})'
        runner = 'run_request hdr_max available_encodings' if stream == 'reader' else 'run_response available_encodings'
        out['model (tag, (bytes handed on, bytes left))'] = ctx.coq_eval(HEADER, f'{runner} {inp}')
    elif stream == 'parse_header':
        out['impl'] = ctx.impl('c17_impl', {'parse_header': [{'header': lh(case['header'])}]})['parse_header'][0]
        out['model'] = ctx.coq_eval(HEADER, f'run_parse_header {OB(lat(case["header"]))}')
    elif stream == 'server_choice':
        h, en = case['accept_encoding'], case['enabled']
        out['impl'] = ctx.impl('c17_impl', {'server_choice': [{'header': lh(h), 'enabled': [lh(e) for e in en]}]})['server_choice'][0]
        out['model'] = ctx.coq_eval(HEADER, f'run_server_choice ({OB(lat(h))}, {BL([lat(e) for e in en])})')
    elif stream == 'client_choice':
        out['impl'] = ctx.impl('c17_impl', {'client_choice': [{'request_encodings': [lh(x) for x in case['request_encodings']],
                                                                'supported': [lh(x) for x in case['supported']], 'chunk': case.get('chunk', 0)}]})['client_choice'][0]
        out['model'] = ctx.coq_eval(HEADER, f'run_client_choice ({BL([lat(x) for x in case["request_encodings"]])}, {BL([lat(x) for x in case["supported"]])})')
    elif stream in ('e2e', 'raw', 'codec', 'conn', 'config', 'notify'):
        if stream == 'raw' and 'raw' not in case:
            hdr = case.get('header')
            body = bytes.fromhex(case['body'])
            raw = b'POST /dev/svc HTTP/1.1\r\nHost: h\r\n' + (b'' if hdr is None else b'Accept-Encoding: ' + hdr.encode('latin-1') + b'\r\n')
            case = dict(case, raw=(raw + b'Content-Length: %d\r\n\r\n' % len(body) + body).hex())
        out['impl'] = ctx.impl('c17_impl', {stream: [case]})[stream][0]
        out['model'] = '(oracle-only stream)'
    else:
        out['note'] = 'no single case recorded (proof or correspondence break without failing input)'
        out['broken'] = rep.get('broken')
    print(json.dumps(out, indent=1, default=str)[:20000])
    return 0
