"""C11 - every lookup agrees with a scan of the stored objects (DESIGN.md section 4, C11)."""
from lib import NAT, Raw, coqlit

HEADER = ('From Coq Require Import List ZArith Bool.\nImport ListNotations.\n'
          'From SDC Require Import Multikey.Model Multikey.Gen_Tables.\nOpen Scope Z_scope.')

KINDS = {'plain': 'Plain', 'unique': 'Unique', 'onen': 'OneN'}


def gen_case(rng, max_ops, real=None):
    nidx = rng.randint(1, 4)
    kinds = [[rng.choice(['plain', 'unique', 'unique', 'onen']), rng.random() < 0.6] for _ in range(nidx)]
    if real:
        kinds = [[k.lower(), nk] for _, k, nk, _ in real[1]]
        nidx = len(kinds)
    nobj = rng.randint(2, 5)
    keyvals = list(range(1, rng.randint(2, 4) + 1))
    ops = []

    def rand_val(kind):
        r = rng.random()
        if real:      # real MDIB tables: attributes always exist; lists only where the index expects them
            if kind == 'onen':
                return ['list', [rng.choice(keyvals) for _ in range(rng.randint(0, 3))]] if r < 0.85 else ['none']
            return ['one', rng.choice(keyvals)] if r < 0.85 else ['none']
        if kind == 'onen':
            if r < 0.7:
                return ['list', [rng.choice(keyvals) for _ in range(rng.randint(0, 3))]]
            if r < 0.8:
                return ['none']
            if r < 0.9:
                return ['one', rng.choice(keyvals)]
            return ['err']
        if r < 0.7:
            return ['one', rng.choice(keyvals)]
        if r < 0.82:
            return ['none']
        if r < 0.92:
            return ['err']
        return ['list', [rng.choice(keyvals) for _ in range(rng.randint(0, 2))]]

    # give every object initial attribute values
    for o in range(nobj):
        for i in range(nidx):
            if real or rng.random() < 0.85:
                ops.append(['set', o, i, rand_val(kinds[i][0])])
    for _ in range(rng.randint(3, max_ops)):
        r = rng.random()
        o = rng.randrange(nobj)
        if r < 0.35:
            ops.append(['add', o])
        elif r < 0.5:
            ops.append(['remove', o])
        elif r < 0.75:
            i = rng.randrange(nidx)
            ops.append(['set', o, i, rand_val(kinds[i][0])])
            if rng.random() < 0.8:
                ops.append(['update', o])
        elif r < 0.92:
            ops.append(['update', o])
        else:
            ops.append(['clear'])
    c = {'kinds': kinds, 'nobj': nobj, 'keys': [-1] + keyvals, 'ops': ops, 'no_lock': rng.random() < 0.3}
    if real:
        c['table'] = real[0]
        c['attr_names'] = [a for _, _, _, a in real[1]]
    return c


def lit_val(v):
    if v[0] == 'err':
        return 'VErr'
    if v[0] == 'none':
        return 'VNone'
    if v[0] == 'one':
        return f'(VOne {v[1]})'
    return '(VList ' + coqlit(v[1]) + ')'


def lit_case(c):
    kinds = '[' + '; '.join(f'{KINDS[k]} {"true" if nk else "false"}' for k, nk in c['kinds']) + ']'
    if c.get('table'):
        kinds = f'{c["table"]}_kinds'       # the generated definition, not a literal
    keys = '[' + '; '.join('None' if k == -1 else f'Some {k}' for k in c['keys']) + ']'
    os_ = coqlit(list(range(c['nobj'])))
    ops = []
    for op in c['ops']:
        if op[0] == 'set':
            ops.append(f'SetAttr {op[1]} {op[2]}%nat {lit_val(op[3])}')
        elif op[0] == 'clear':
            ops.append('Clear')
        else:
            ops.append(f'{op[0].capitalize()} {op[1]}')
    return f'({kinds}, {keys}, {os_}, [' + '; '.join(ops) + '])'


def lit_trace(tr):
    items = []
    for code, (objs, n, idx, refs) in tr:
        refs_l = '[' + '; '.join('[' + '; '.join(f'({a}, {b})' for a, b in r) + ']' for r in refs) + ']'
        items.append(f'({code}, ({coqlit(objs)}, {n}, {coqlit(idx)}, {refs_l}))')
    return '[' + '; '.join(items) + ']'


def spec_keys(kind, nk, v):
    """what a scan would find: the keys under which an object with attribute value v is listed"""
    if v[0] == 'err':
        return []
    if kind in ('plain', 'unique'):
        if v[0] == 'none':
            return [None] if nk else []
        if v[0] == 'one':
            return [v[1]]
        return []
    if v[0] == 'list':
        return list(v[1])
    return []


def oracle(case, trace):
    """C11 evaluated directly on the implementation trace: after every op each index equals the grouping
    of the stored objects by the attribute values of the last (re)index; a rejected add changes nothing."""
    kinds, nobj = case['kinds'], case['nobj']
    attrs = [[['err']] * len(kinds) for _ in range(nobj)]
    iattrs = [None] * nobj
    prev = None
    keys = [None if k == -1 else k for k in case['keys']]
    for n, (op, (code, obs)) in enumerate(zip(case['ops'], trace)):
        objs, cnt, idx, refs = obs
        if code == 9:
            return n, 'unexpected exception type'
        if op[0] == 'set':
            attrs[op[1]] = list(attrs[op[1]])
            attrs[op[1]][op[2]] = op[3]
        if op[0] in ('add', 'update') and code == 0 and op[1] in objs and (op[0] == 'update' or iattrs[op[1]] is None):
            iattrs[op[1]] = list(attrs[op[1]])
        if op[0] == 'clear':
            iattrs = [None] * nobj
        for o in range(nobj):
            if o not in objs:
                iattrs[o] = None
        if op[0] == 'add' and code == 1 and prev is not None and obs != prev:
            return n, 'rejected insert changed the table'
        if cnt != len(objs):
            return n, 'object count differs from distinct objects'
        for i, (kd, nk) in enumerate(kinds):
            if len(idx[i]) != len(keys):
                return n, f'index {i} holds an empty list or a key outside the universe'
            for k, lst in zip(keys, idx[i]):
                want = sorted(o for o in objs for kk in spec_keys(kd, nk, iattrs[o] and iattrs[o][i] or ['err']) if kk == k)
                if sorted(lst) != want:
                    return n, f'index {i} key {k}: lookup {lst} but scan gives {want}'
        prev = obs
    return None


def run(ctx):
    ctx.regenerate('gen_multikey_tables', 'Multikey/Gen_Tables.v')
    gen = ctx.impl('gen_multikey_tables', {})
    tables = list(gen.get('tables', {}).items())
    proof_ok = ctx.prove()
    if not proof_ok:
        ctx.broken('theorem', 'Props/C11.v', ctx.proof_error)
    ncases = ctx.n(800, 12000)
    max_ops = ctx.n(18, 60)
    cases = [gen_case(ctx.rng, max_ops, real=(tables[n % len(tables)] if tables and n % 3 == 0 else None))
             for n in range(ncases)]
    impl = ctx.impl('c11_impl', {'cases': cases}, timeout=1200)
    if impl.get('_crash'):
        ctx.broken('correspondence', 'table', impl['stderr'])
        return ctx.finish('implementation run crashed', [], [])
    traces = impl['traces']
    hist = {'add': 0, 'remove': 0, 'update': 0, 'clear': 0, 'set': 0, 'rejected': 0, 'valueerror': 0}
    for c, tr in zip(cases, traces):
        for op, (code, _) in zip(c['ops'], tr):
            hist[op[0]] += 1
            hist['rejected'] += code == 1
            hist['valueerror'] += code == 2
        bad = oracle(c, tr)
        if bad:
            n, why = bad
            ctx.fail(f'table stream: after op {n} {c["ops"][n]}: {why}',
                     {'stream': 'table', 'clause': why.split(':')[0].split(' key')[0]},
                     {'stream': 'table', 'case': c, 'impl_trace': tr[:n + 1], 'oracle': {'verdict': 'fail', 'clause': why}})
    lits = [(lit_case(c), lit_trace(tr)) for c, tr in zip(cases, traces)]
    mism, err = ctx.coq_mism('table', HEADER, 'trace_eqb', 'run_case', lits, shard=150, deps=['Multikey/Model.vo', 'Multikey/Gen_Tables.vo'])
    if err:
        ctx.broken('correspondence', 'table (coq evaluation)', err)
    if mism:
        i = mism[0]
        model = ctx.coq_eval(HEADER, f'run_case {lits[i][0]}')
        ctx.broken('correspondence', 'table', {'disagreements': len(mism), 'first_case': cases[i],
                                               'impl_trace': traces[i], 'model_trace': model[-3000:]})
    ctx.count('table', len(cases), [repr(t) for t in traces], histogram=hist)
    ctx.sample({'stream': 'table', 'case': cases[0], 'final_observation': traces[0][-1]})
    # ---- stream `mdib-index`: after every transaction / report every index of the provider's and the consumer's
    # tables is recomputed from table.objects with the CURRENT attribute values and compared (harness/mdibrun.py)
    import mdibcheck
    import mdibgen
    mp = mdibcheck.run_histories(ctx, 'mdib-index', ctx.n(30, 400), ctx.n(10, 40), consumer=True,
                                 weights={'state': 3, 'ctx': 3, 'location': 1, 'descr': 7, 'reject': 2, 'abort': 1})
    mdibcheck.judge(ctx, 'mdib-index', mp, [mdibgen.oracle_provider, mdibgen.oracle_consumer], {'C11'})
    ctx.count('mdib-index', len(mp), [repr(r['trace']) for _, r in mp], histogram=mdibcheck.op_histogram(mp),
              snapshots_with_index_check=2 * sum(len(r['trace']) for _, r in mp))
    if ctx.thorough:
        hits = ctx.gate_grep(['Multikey', 'Common'])
        if hits:
            ctx.broken('theorem', 'grep gate', hits)
        ctx.coqchk('SDC.Props.C11')
    return ctx.finish(
        rule='random op lists (add / remove / set-attribute / update(reindex) / clear, 1-4 indices of the three kinds, '
             'None / scalar / list / raising key functions, locked and _no_lock variants) on a real MultiKeyLookup; after '
             'every op the object set, every index at every key and the per-object reference lists are compared with '
             'the model (vm_compute) and judged by the scan oracle; distinct = distinct implementation traces',
        assumptions=['objects are compared by identity (stub objects without __eq__)', 'keys are ints or None'],
        trusted_base=['correspondence harness harness/impl/c11_impl.py (stub objects, reads _objects/_object_ids/index dicts)',
                      'model evaluated inside Coq with vm_compute on generated case files'],
        not_modelled=['mdib-index stream: provider commits and consumer report processing on the loop-back world; every '
                      'snapshot recomputes all indices of the three tables from the stored objects (oracle, no model)',
                      'RLock acquisition inside the table (single-threaded use here; exclusion is C04/C07)',
                      'ObjectSelector.find (linear scan by construction)'])
