"""C11 - every lookup agrees with a scan of the stored objects (DESIGN.md section 4, C11)."""
import re

from lib import NAT, Raw, coqlit

HEADER = ('From Coq Require Import List ZArith Bool.\nImport ListNotations.\n'
          'From SDC Require Import Multikey.Model Multikey.Gen_Tables.\nOpen Scope Z_scope.')

KINDS = {'plain': 'Plain', 'unique': 'Unique', 'onen': 'OneN'}


# model op <- public entry points; checked against the translator's list in run() (fail closed on a difference)
EP = {'add': ['add_object', 'add_object_no_lock'], 'addm': ['add_objects', 'add_objects_no_lock'],
      'remove': ['remove_object', 'remove_object_no_lock'], 'removem': ['remove_objects', 'remove_objects_no_lock'],
      'update': ['update_object', 'update_object_no_lock'], 'updatem': ['update_objects', 'update_objects_no_lock'],
      'clear': ['clear'], 'setver': ['set_version']}
BATCH = {'addm': 'add', 'removem': 'remove', 'updatem': 'update'}


def spec_keys(kind, nk, v):
    """what a scan would find: the keys under which an object with attribute value v is listed"""
    if v[0] == 'err':
        return []
    if kind in ('plain', 'unique'):
        if v[0] == 'none':
            return [None] if nk else []
        if v[0] == 'one':
            return [v[1]]
        return []
    if v[0] == 'list':
        return list(v[1])
    return []


class Ref:
    """The property's reading of a table, by scans only: which objects are stored, with which attribute values they
    were last (re)indexed, and - from a scan of the stored objects - whether an insertion has to be rejected."""

    def __init__(self, kinds, nobj, real):
        self.kinds = kinds
        self.attrs = [[['none'] if real else ['err']] * len(kinds) for _ in range(nobj)]
        self.iattrs = [None] * nobj
        self.stored = []

    def holders(self, i, k, but=None):
        kd, nk = self.kinds[i]
        return [s for s in self.stored if s != but and self.iattrs[s] is not None
                and k in spec_keys(kd, nk, self.iattrs[s][i])]

    def rejects(self, o):
        for i, (kd, nk) in enumerate(self.kinds):
            if kd != 'unique':
                continue
            v = self.attrs[o][i]
            if v[0] == 'list':
                return True
            if any(self.holders(i, k, but=o) for k in spec_keys(kd, nk, v)):
                return True
        return False

    def one(self, what, o):
        if what == 'add':
            if o in self.stored:
                return 0
            if self.rejects(o):
                return 1
            self.stored.append(o)
            self.iattrs[o] = list(self.attrs[o])
            return 0
        if what == 'remove':
            if o in self.stored:
                self.stored.remove(o)
                self.iattrs[o] = None
            return 0
        if o not in self.stored:
            return 2
        self.iattrs[o] = None
        if self.rejects(o):                 # a rejected re-index drops the object (roll-back of _mk_indices)
            self.stored.remove(o)
            return 1
        self.iattrs[o] = list(self.attrs[o])
        return 0

    def apply(self, op):
        """-> (result code, position of the element that stopped a batch or None)"""
        if op[0] == 'set':
            self.attrs[op[1]] = list(self.attrs[op[1]])
            self.attrs[op[1]][op[2]] = op[3]
        elif op[0] in ('add', 'remove', 'update'):
            return self.one(op[0], op[1]), None
        elif op[0] in BATCH:
            for pos, o in enumerate(op[1]):
                code = self.one(BATCH[op[0]], o)
                if code:
                    return code, pos
        elif op[0] == 'clear':
            self.stored = []
            self.iattrs = [None] * len(self.iattrs)
        return 0, None


def gen_case(rng, max_ops, real=None):
    nidx = rng.randint(1, 4)
    kinds = [[rng.choice(['plain', 'unique', 'unique', 'onen']), rng.random() < 0.6] for _ in range(nidx)]
    if real:
        kinds = [[k.lower(), nk] for _, k, nk, _ in real[1]]
        nidx = len(kinds)
    nobj = rng.randint(3, 7)
    keyvals = list(range(1, rng.randint(2, 6) + 1))
    ops = []
    ref = Ref(kinds, nobj, bool(real))
    feats = []
    uidx = [i for i, (kd, _) in enumerate(kinds) if kd == 'unique']

    def emit(op):
        ops.append(op)
        return ref.apply(op)

    def rand_val(kind):
        r = rng.random()
        if real:      # real MDIB tables: attributes always exist; lists only where the index expects them
            if kind == 'onen':
                return ['list', [rng.choice(keyvals) for _ in range(rng.randint(0, 3))]] if r < 0.85 else ['none']
            return ['one', rng.choice(keyvals)] if r < 0.85 else ['none']
        if kind == 'onen':
            if r < 0.7:
                return ['list', [rng.choice(keyvals) for _ in range(rng.randint(0, 3))]]
            if r < 0.8:
                return ['none']
            if r < 0.9:
                return ['one', rng.choice(keyvals)]
            return ['err']
        if r < 0.7:
            return ['one', rng.choice(keyvals)]
        if r < 0.82:
            return ['none']
        if r < 0.92:
            return ['err']
        return ['list', [rng.choice(keyvals) for _ in range(rng.randint(0, 2))]]

    def ep(kind):
        return rng.choice(EP[kind])

    def some(objs, n):
        objs = list(objs)
        rng.shuffle(objs)
        return objs[:n]

    def make_acceptable(o, earlier):
        """give o unique keys no stored object and no earlier batch element holds (as far as the key universe allows)"""
        for u in uidx:
            kd, nk = kinds[u]
            used = set()
            for s in ref.stored:
                used.update(spec_keys(kd, nk, ref.iattrs[s][u]))
            for e in earlier:
                used.update(spec_keys(kd, nk, ref.attrs[e][u]))
            v = ref.attrs[o][u]
            if v[0] == 'list' or any(k in used for k in spec_keys(kd, nk, v)):
                free = [k for k in keyvals if k not in used]
                if free:
                    emit(['set', o, u, ['one', rng.choice(free)]])

    def add_batch():
        mode = rng.choice(['empty', 'random', 'dupkey', 'dupkey', 'dupkey', 'dupkey', 'sameobj', 'stored', 'nonekey'])
        fresh = [o for o in range(nobj) if o not in ref.stored]
        size = rng.randint(1, 4)
        if mode == 'empty':
            batch = []
        elif mode == 'random' or not fresh:
            mode = 'random'
            batch = [rng.randrange(nobj) for _ in range(size)]
        elif mode == 'sameobj':
            batch = some(fresh, size)
            for n, o in enumerate(batch):
                make_acceptable(o, batch[:n])
            twin = rng.choice(batch)
            batch.insert(rng.randint(0, len(batch)), twin)
        elif mode == 'stored':
            batch = some(fresh, size)
            if ref.stored:
                batch.insert(rng.randint(0, len(batch)), rng.choice(ref.stored))
            else:
                mode = 'random'
        elif mode == 'nonekey':
            batch = some(fresh, size)
            for o in some(batch, rng.randint(1, 2)):
                emit(['set', o, rng.randrange(nidx), ['none']])
        else:
            batch = some(fresh, size)
            pos = rng.randrange(len(batch))
            for n, o in enumerate(batch[:pos]):
                make_acceptable(o, batch[:n])
            donors = batch[:pos] + ref.stored
            if uidx and donors:
                u = rng.choice(uidx)
                d = rng.choice(donors)
                kd, nk = kinds[u]
                v = ref.iattrs[d][u] if d in ref.stored else ref.attrs[d][u]
                if spec_keys(kd, nk, v):
                    emit(['set', batch[pos], u, v])      # the unique key of a stored / earlier object, at position pos
                    mode = f'dupkey@{pos}'
        feats.append(mode)
        emit(['addm', batch, ep('addm')])

    # give every object initial attribute values
    for o in range(nobj):
        for i in range(nidx):
            if real or rng.random() < 0.85:
                emit(['set', o, i, rand_val(kinds[i][0])])
    for _ in range(rng.randint(3, max_ops)):
        r = rng.random()
        o = rng.randrange(nobj)
        if r < 0.14:
            emit(['add', o, ep('add')])
        elif r < 0.38:
            add_batch()
        elif r < 0.45:
            emit(['remove', -1 if rng.random() < 0.1 else o, ep('remove')])      # -1: None
        elif r < 0.53:
            batch = [rng.choice([-1] + list(range(nobj))) for _ in range(rng.randint(0, 4))]
            if ref.stored and rng.random() < 0.6:
                batch.insert(rng.randint(0, len(batch)), rng.choice(ref.stored))
            emit(['removem', batch, ep('removem')])
        elif r < 0.68:
            i = rng.randrange(nidx)
            emit(['set', o, i, rand_val(kinds[i][0])])
            if rng.random() < 0.8:
                emit(['update', o, ep('update')])
        elif r < 0.75:
            emit(['update', o, ep('update')])
        elif r < 0.87:
            batch = some(ref.stored, rng.randint(0, 3)) if rng.random() < 0.7 else \
                [rng.randrange(nobj) for _ in range(rng.randint(0, 4))]
            if batch and rng.random() < 0.3:
                batch.insert(rng.randint(0, len(batch)), rng.choice(batch))        # the same object twice
            for x in batch:
                if rng.random() < 0.5:
                    i = rng.randrange(nidx)
                    emit(['set', x, i, rand_val(kinds[i][0])])
            emit(['updatem', batch, ep('updatem')])
        elif r < 0.91:
            emit(['clear'])
        elif real and r < 0.95:
            emit(['bump', o, rng.randint(1, 3)])
        elif real:
            emit(['setver', o, 'set_version'])
        else:
            emit(['add', o, ep('add')])
    c = {'kinds': kinds, 'nobj': nobj, 'keys': [-1] + keyvals, 'ops': ops, 'features': feats}
    if real:
        c['table'] = real[0]
        c['attr_names'] = [a for _, _, _, a in real[1]]
        c['version_attrs'] = real[2]
    return c


def lit_val(v):
    if v[0] == 'err':
        return 'VErr'
    if v[0] == 'none':
        return 'VNone'
    if v[0] == 'one':
        return f'(VOne {v[1]})'
    return '(VList ' + coqlit(v[1]) + ')'


NON_MODEL = ('bump', 'setver')      # ops on the version side table: no effect on objects / indices (oracle only)
UNOBSERVED = NON_MODEL + ('set',)   # the model's run_obs emits no observation after SetAttr (the oracle checks obs == prev)
CTOR = {'add': 'Add', 'remove': 'Remove', 'update': 'Update', 'addm': 'AddMany', 'removem': 'RemoveMany',
        'updatem': 'UpdateMany'}


def zl(n):
    return f'({n})' if n < 0 else str(n)


def lit_case(c):
    kinds = '[' + '; '.join(f'{KINDS[k]} {"true" if nk else "false"}' for k, nk in c['kinds']) + ']'
    if c.get('table'):
        kinds = f'{c["table"]}_kinds'       # the generated definition, not a literal
    keys = '[' + '; '.join('None' if k == -1 else f'Some {k}' for k in c['keys']) + ']'
    os_ = coqlit(list(range(c['nobj'])))
    ops = []
    for op in c['ops']:
        if op[0] in NON_MODEL:
            continue
        if op[0] == 'set':
            ops.append(f'SetAttr {op[1]} {op[2]}%nat {lit_val(op[3])}')
        elif op[0] == 'clear':
            ops.append('Clear')
        elif op[0] in BATCH:
            ops.append(f'{CTOR[op[0]]} [' + '; '.join(zl(o) for o in op[1]) + ']')
        else:
            ops.append(f'{CTOR[op[0]]} {zl(op[1])}')
    return f'({kinds}, {keys}, {os_}, [' + '; '.join(ops) + '])'


def lit_trace(c, tr):
    items = []
    for op, (code, (objs, n, idx, refs), _) in zip(c['ops'], tr):
        if op[0] in UNOBSERVED:
            continue
        refs_l = '[' + '; '.join('[' + '; '.join(f'({a}, {b})' for a, b in r) + ']' for r in refs) + ']'
        items.append(f'({code}, ({coqlit(objs)}, {n}, {coqlit(idx)}, {refs_l}))')
    return '[' + '; '.join(items) + ']'


OUTCOME = {0: 'ok', 1: 'rejected', 2: 'not-known', 9: 'other-exception'}


def oracle(case, trace, hist=None):
    """C11 evaluated directly on the implementation trace.  After EVERY op (accepted or rejected, single or bulk, any
    entry point): the stored objects are what the history says; every index at every key equals the grouping of the
    stored objects by the attribute values of their last (re)index; the back references are exactly the keys a scan
    yields; a rejected insert leaves the table exactly as it was; a rejected BULK insert leaves exactly the table
    with the accepted prefix (what the unchanged code does: a loop over the single insert that stops at the first
    rejected element)."""
    kinds, nobj = case['kinds'], case['nobj']
    ref = Ref(kinds, nobj, bool(case.get('table')))
    prev, prev_extra = None, None
    keys = [None if k == -1 else k for k in case['keys']]
    vattr = case.get('version_attrs')
    for n, (op, (code, obs, extra)) in enumerate(zip(case['ops'], trace)):
        objs, cnt, idx, refs = obs
        before = list(ref.stored)
        want_code, pos = ref.apply(op)
        if hist is not None:
            name = op[2] if len(op) > 2 and isinstance(op[2], str) else op[0]
            key = f'{name}:{OUTCOME.get(code, code)}'
            if op[0] in BATCH and code:
                key += f'@{min(pos, 3) if pos is not None else "?"}'
            hist[key] = hist.get(key, 0) + 1
        if code == 9:
            return n, 'unexpected exception type'
        if op[0] in ('set', 'bump', 'setver') and (code != 0 or (prev is not None and obs != prev)):
            return n, 'an operation that does not touch the table changed it'
        if op[0] == 'add' and code == 1 and prev is not None and obs != prev:
            return n, 'rejected insert changed the table'
        if op[0] == 'addm' and code == 1 and want_code == 1 and objs != sorted(ref.stored):
            return n, (f'rejected bulk insert: stored objects {objs}, but the table before plus the accepted prefix '
                       f'{op[1][:pos]} is {sorted(ref.stored)}')
        if op[0] == 'addm' and code == 1 and pos == 0 and prev is not None and obs != prev:
            return n, 'rejected bulk insert (first element rejected) changed the table'
        if code != want_code:
            return n, (f'outcome {OUTCOME.get(code)} but a scan of the stored objects implies {OUTCOME.get(want_code)}'
                       + (f' (element {pos} of the batch)' if pos is not None else ''))
        if objs != sorted(ref.stored):
            return n, f'stored objects {objs} but the history implies {sorted(ref.stored)} (before: {sorted(before)})'
        if cnt != len(objs):
            return n, 'object count differs from distinct objects'
        for i, (kd, nk) in enumerate(kinds):
            if len(idx[i]) != len(keys):
                return n, f'index {i} holds an empty list or a key outside the universe'
            for k, lst in zip(keys, idx[i]):
                want = sorted(o for o in objs for kk in spec_keys(kd, nk, ref.iattrs[o][i]) if kk == k)
                if sorted(lst) != want:
                    return n, f'index {i} key {k}: lookup {lst} but scan gives {want}'
        for o in range(nobj):
            if o in objs:
                want = sorted([i, -1 if k is None else k] for i, (kd, nk) in enumerate(kinds)
                              for k in spec_keys(kd, nk, ref.iattrs[o][i]))
            else:
                want = [[-2, -2]]
            if sorted(refs[o]) != want:
                return n, f'back references of object {o}: {refs[o]} but a scan of its keys gives {want}'
        if vattr and extra is not None:
            vi, ki = (0 if vattr[0] == 'DescriptorVersion' else 1), case['attr_names'].index(vattr[1])
            hvl = {k: v for k, v in extra['hvl']}

            def vkey(o):
                v = ref.attrs[o][ki]
                return -1 if v[0] == 'none' else v[1]
            if prev_extra is not None:
                if op[0] not in ('remove', 'removem') and extra['hvl'] != prev_extra['hvl']:
                    return n, 'version side table changed by an operation that removes nothing'
                if op[0] not in ('bump', 'setver') and extra['ver'] != prev_extra['ver']:
                    return n, 'object versions changed by a table operation'
                if op[0] == 'setver':
                    was = prev_extra['ver'][op[1]][vi]
                    want = hvl[vkey(op[1])] + 1 if vkey(op[1]) in hvl else was
                    others = [a == b for m, (a, b) in enumerate(zip(extra['ver'], prev_extra['ver'])) if m != op[1]]
                    if extra['ver'][op[1]][vi] != want or not all(others):
                        return n, f'set_version: version {extra["ver"][op[1]][vi]}, remembered+1 is {want}'
            if op[0] in ('remove', 'removem'):
                gone = [o for o in before if o not in ref.stored]
                named = [g for g in (op[1] if op[0] == 'removem' else [op[1]]) if g != -1]
                for o in gone:      # _save_version also remembers objects of the batch that were not stored
                    cands = {extra['ver'][g][vi] for g in named if vkey(g) == vkey(o)}
                    if hvl.get(vkey(o)) not in cands:
                        return n, f'version of removed object {o} not remembered: {hvl.get(vkey(o))} not in {sorted(cands)}'
        prev, prev_extra = obs, extra
    return None


def run(ctx):
    ctx.regenerate('gen_multikey_tables', 'Multikey/Gen_Tables.v')
    gen = ctx.impl('gen_multikey_tables', {})
    tables = [(name, idx, gen.get('version_attrs', {}).get(name)) for name, idx in gen.get('tables', {}).items()]
    # the op generator must drive exactly the entry points the translator found and classified (fail closed)
    want_eps = {**gen.get('entry_points', {}), **gen.get('entry_points_versioned', {})}
    if want_eps != EP:
        ctx.broken('translator', 'entry points', {'translator': want_eps, 'op generator': EP,
                                                  'crash': str(gen.get('stderr', ''))[-600:]})
    proof_ok = ctx.prove()
    if not proof_ok:
        ctx.broken('theorem', 'Props/C11.v', ctx.proof_error)
    ncases = ctx.n(800, 12000)
    max_ops = ctx.n(18, 60)
    # every third case runs on a real MDIB table class (descriptors / states / multistates in turn)
    cases = [gen_case(ctx.rng, max_ops, real=(tables[(n // 3) % len(tables)] if tables and n % 3 == 0 else None))
             for n in range(ncases)]
    import time
    t_impl = time.time()
    impl = ctx.impl('c11_impl', {'cases': cases}, timeout=1200)
    t_impl = time.time() - t_impl
    if impl.get('_crash'):
        ctx.broken('correspondence', 'table', impl['stderr'])
        return ctx.finish('implementation run crashed', [], [])
    traces = impl['traces']
    hist, feats, per_table = {}, {}, {}
    for c, tr in zip(cases, traces):
        bad = oracle(c, tr, hist)
        for f in c['features']:
            feats[f] = feats.get(f, 0) + 1
        tname = c.get('table', 'generic')
        for op in c['ops']:
            if len(op) > 2 and isinstance(op[2], str):
                per_table.setdefault(tname, set()).add(op[2])
            elif op[0] == 'clear':
                per_table.setdefault(tname, set()).add('clear')
        if bad:
            n, why = bad
            ctx.fail(f'table stream ({tname}): after op {n} {c["ops"][n]}: {why}',
                     {'stream': 'table', 'clause': re.sub(r'\d+', 'N', why.split(':')[0].split(' key')[0].split(' (element')[0])},
                     {'stream': 'table', 'case': c, 'impl_trace': tr[:n + 1], 'oracle': {'verdict': 'fail', 'clause': why}})
    # every entry point of every table class must really have been driven
    surface = gen.get('surface', {})
    undriven = {t: sorted(set(eps) - per_table.get(t, set())) for t, eps in surface.items() if t != 'versioned-base'}
    undriven = {t: e for t, e in undriven.items() if e}
    if undriven:
        ctx.broken('correspondence', 'table (entry points never called)', undriven)
    lits = [(lit_case(c), lit_trace(c, tr)) for c, tr in zip(cases, traces)]
    t_coq = time.time()
    mism, err = ctx.coq_mism('table', HEADER, 'trace_eqb', 'run_case', lits, shard=150, deps=['Multikey/Model.vo', 'Multikey/Gen_Tables.vo'])
    ctx.log(f'table stream: implementation run {t_impl:.1f}s, model evaluation (vm_compute) {time.time() - t_coq:.1f}s')
    if err:
        ctx.broken('correspondence', 'table (coq evaluation)', err)
    if mism:
        i = mism[0]
        model = ctx.coq_eval(HEADER, f'run_case {lits[i][0]}')
        ctx.broken('correspondence', 'table', {'disagreements': len(mism), 'first_case': cases[i],
                                               'impl_trace': traces[i], 'model_trace': model[-3000:]})
    hist = dict(sorted(hist.items()))
    print('[C11] entry point x outcome (bulk: @position of the element that stopped the batch):')
    for name in sorted({k.split(':')[0] for k in hist}):
        print('        ' + name.ljust(24) + '  '.join(f'{k.split(":")[1]}={v}' for k, v in hist.items() if k.split(':')[0] == name))
    print('[C11] bulk insert batches by construction: ' + ', '.join(f'{k}={v}' for k, v in sorted(feats.items())))
    ctx.count('table', len(cases), [repr(t) for t in traces], histogram=hist, batch_features=dict(sorted(feats.items())),
              entry_points_per_table={t: len(v) for t, v in sorted(per_table.items())})
    ctx.sample({'stream': 'table', 'case': cases[0], 'final_observation': traces[0][-1]})
    # ---- stream `mdib-index`: after every transaction / report every index of the provider's and the consumer's
    # tables is recomputed from table.objects with the CURRENT attribute values and compared (harness/mdibrun.py)
    import mdibcheck
    import mdibgen
    mp = mdibcheck.run_histories(ctx, 'mdib-index', ctx.n(30, 400), ctx.n(10, 40), consumer=True,
                                 weights={'state': 3, 'ctx': 3, 'location': 1, 'descr': 7, 'reject': 2, 'abort': 1})
    mdibcheck.judge(ctx, 'mdib-index', mp, [mdibgen.oracle_provider, mdibgen.oracle_consumer], {'C11'})
    ctx.count('mdib-index', len(mp), [repr(r['trace']) for _, r in mp], histogram=mdibcheck.op_histogram(mp),
              snapshots_with_index_check=2 * sum(len(r['trace']) for _, r in mp))
    if ctx.thorough:
        hits = ctx.gate_grep(['Multikey', 'Common'])
        if hits:
            ctx.broken('theorem', 'grep gate', hits)
        ctx.coqchk('SDC.Props.C11')
    return ctx.finish(
        rule='random op lists over EVERY public mutating entry point (add_object(s)/remove_object(s)/update_object(s), '
             'locked and _no_lock, clear, set_version; the list comes from the translator, which fails closed on an '
             'unclassified public member) on a real MultiKeyLookup (1-4 indices of the three kinds, None / scalar / list / '
             'raising key functions) and on the real DescriptorsLookup / StatesLookup / MultiStatesLookup; bulk batches '
             'with a duplicate unique key at a chosen position, the same object twice, stored objects, empty, None keys, '
             'None objects; after every op the object set, every index at every key and the per-object reference lists '
             'are compared with the model (vm_compute) and judged by the scan oracle (stored set and outcome implied by '
             'the history, index = scan, back references = scan, rejected insert = no-op, rejected bulk insert = accepted '
             'prefix, version side table); distinct = distinct implementation traces',
        assumptions=['objects are compared by identity (stub objects without __eq__)', 'keys are ints or None'],
        trusted_base=['correspondence harness harness/impl/c11_impl.py (stub objects, reads _objects/_object_ids/index dicts)',
                      'model evaluated inside Coq with vm_compute on generated case files'],
        not_modelled=['mdib-index stream: provider commits and consumer report processing on the loop-back world; every '
                      'snapshot recomputes all indices of the three tables from the stored objects (oracle, no model)',
                      'RLock acquisition inside the table (single-threaded use here; exclusion is C04/C07)',
                      'ObjectSelector.find (linear scan by construction)'])
