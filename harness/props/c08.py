"""C08 - WS-Eventing subscriptions deliver exactly while alive and end cleanly (DESIGN.md section 4, C08).

Streams (all driven through harness/impl/c08_impl.py against a real SdcProvider in the loop-back world):
  life       structured, mostly valid op lists on the 1/8 s grid            -> model (vm_compute) + oracle
  malformed  odd filters / action strings / identifiers / invalid Subscribes  -> model (vm_compute) + oracle
  decimal    arbitrary millisecond durations and clock steps                 -> oracle only (tolerant at ties)
  e2e        real SdcConsumers (ConsumerSubscriptionManager, both identification styles): deliveries after
             unsubscribe / expiry / renew, SubscriptionEnd handling on shutdown -> oracle only
  fanout     reports whose fan-out is interleaved with other threads' operations: from INSIDE the delivery to one
             receiver (the manager is blocked in post_message_to) a second thread performs Unsubscribe / Renew /
             GetStatus / Subscribe requests, clock steps across an expiry, housekeeping passes and whole reports of
             another sender with failing deliveries; every later hand-off of the fan-out is judged against the
             subscription's state AT ITS SEND TIME                          -> fine-grained model (Eventing/FanOut.v,
             vm_compute) + oracle.  Async managers hold the table lock during the fan-out: operations that need it are
             shown to wait (lock probe) and are performed afterwards, only the clock moves meanwhile.
"""
import json
from concurrent.futures import ThreadPoolExecutor
from fractions import Fraction

from lib import Raw, coqlit

HEADER = ('From Coq Require Import List ZArith Bool String.\nImport ListNotations.\n'
          'From SDC Require Import Eventing.Gen_Consts Eventing.Model.\nOpen Scope Z_scope.')
DEPS = ['Eventing/Gen_Consts.vo', 'Eventing/Model.vo']
HEADER_X = HEADER.replace('Eventing.Model.', 'Eventing.Model Eventing.FanOut.')
DEPS_X = DEPS + ['Eventing/FanOut.vo']

KINDS = {'metric': ['StateEventService/EpisodicMetricReport'], 'alert': ['StateEventService/EpisodicAlertReport'],
         'component': ['StateEventService/EpisodicComponentReport'],
         'operational': ['StateEventService/EpisodicOperationalStateReport'],
         'context': ['ContextService/EpisodicContextReport'], 'waveform': ['WaveformService/WaveformStream'],
         'descr': ['DescriptionEventService/DescriptionModificationReport', 'StateEventService/EpisodicMetricReport']}
BOGUS = ['wrong', 'none', 'extra', 'other_service', 'upper']
OUT_LIT = {'ok': 'OOk', 'http': 'OHttp', 'fault': 'OHttp', 'refuse': 'ORefuse', 'timeout': 'OTimeout', 'reset': 'OReset',
           'ctimeout': 'OConnTimeout', 'garbage': 'OGarbage'}
# injected delivery outcomes: every failure kind the send paths distinguish (harness/impl/gen_eventing_clauses.py lists the
# except clauses; harness/impl/c08_impl.py raises, per kind, what the sync SoapClient / aiohttp would raise)
FAIL_KINDS = [['http', 400], ['http', 404], ['http', 500], ['http', 503], ['fault', 500], ['fault', 400], 'refuse', 'timeout',
              'reset', 'ctimeout', 'garbage']


def kind_of(o):
    return o[0] if isinstance(o, list) else o


WS_SEPS = ['sp', 'sp2', 'sp5', 'tab', 'lf', 'crlf', 'lf_indent', 'mix', 'cr_ref', 'tab_ref']
WS_EDGE = ['', '', 'sp', 'tab', 'lf', 'crlf', 'lf_indent', 'mix']


def gen_ws(rng, ntok):
    """how the action URIs of a Filter are separated in the request text: None = one blank, the library client sends it;
    otherwise a raw request with every kind of XML white space between / before / after the URIs"""
    if ntok == 0 or rng.random() < 0.6:
        return None
    return {'lead': rng.choice(WS_EDGE), 'seps': [rng.choice(WS_SEPS) for _ in range(ntok - 1)],
            'trail': rng.choice(WS_EDGE)}


def gen_outs(rng, nsinks, pfail):
    return [rng.choice(FAIL_KINDS) if rng.random() < pfail else 'ok' for _ in range(nsinks)]
BAD = 'RSub (-1) (-1)'


def act_index(actions, name):
    hits = [i for i, a in enumerate(actions) if a.endswith('/' + name)]
    if len(hits) != 1:
        raise RuntimeError(f'action {name} not unique in the generated list')
    return hits[0]


# ----------------------------------------------------------------------------- generator
def gen_case(rng, actions, max_ops, stream):
    unit = 1000 if stream == 'decimal' else 8
    kind_idx = {k: [act_index(actions, n) for n in v] for k, v in KINDS.items()}
    report_acts = sorted({i for v in kind_idx.values() for i in v})
    odd = stream == 'malformed'
    maxd_ticks = rng.choice([120, 120, 60, 81, 33, None])
    maxd = None if maxd_ticks is None else (maxd_ticks * unit) // 8
    eff_maxd = maxd if maxd is not None else 7200 * unit
    c = {'stream': stream, 'unit': 'ms' if unit == 1000 else 'tick', 'style': rng.choice(['path', 'ref']),
         'async': rng.random() < 0.35, 'maxd': maxd, 'max_err': rng.choice([None, None, None, 2, 3]),
         'nsinks': rng.randint(1, 3), 'ops': []}
    ops = c['ops']
    now = 0
    subs = []        # generator-side bookkeeping to aim at boundaries: dict(t0, dur, unsub_at)
    step = unit // 8 if unit == 8 else 1

    def dur():
        r = rng.random()
        if r < 0.07:
            return None
        if r < 0.13:
            return 0
        if r < 0.55:
            v = rng.randint(1, 48)
        elif r < 0.8:
            v = rng.choice([eff_maxd * 8 // unit - 1, eff_maxd * 8 // unit, eff_maxd * 8 // unit + 1,
                            2 * eff_maxd * 8 // unit, rng.randint(40, 200)])
        else:
            v = rng.randint(1, 130)
        if unit == 8:
            return v
        return v * 125 + rng.choice([0, 0, 1, 3, 5, 7, 37, 62, 124])      # milliseconds, mostly off the grid

    def outs():
        return gen_outs(rng, c['nsinks'], 0.27)

    def filt():
        r = rng.random()
        if odd and r < 0.08:
            return None
        if odd and r < 0.14:
            return []
        n = rng.choice([1, 2, 2, 3, 3, 4, 5])
        toks = []
        for _ in range(n):
            a = rng.choice(report_acts) if rng.random() < 0.9 else rng.randrange(len(actions))
            if odd and rng.random() < 0.3:
                s = actions[a]
                toks.append(['s', rng.choice(['urn:x:' + s, s[7:], s + 'x', s.rsplit('/', 1)[-1], 'Report',
                                              s.rsplit('/', 1)[0] + '/', s.upper()])])
            else:
                toks.append(['a', a])
        return toks

    def add_sub():
        q = {'schema_ok': not (odd and rng.random() < 0.08), 'dialect_ok': not (odd and rng.random() < 0.1),
             'filter': filt(), 'expires': dur(), 'notify': rng.randrange(c['nsinks']),
             'end': rng.choice([None, None] + list(range(c['nsinks']))), 'cons_ref': rng.random() < 0.4}
        if not q['schema_ok']:       # how the request is broken: all variants must be refused without any effect
            q['bad'] = rng.choice(['delivery', 'days', 'negative', 'datetime', 'garbage'])
        q['ws'] = gen_ws(rng, len(q['filter'] or []))
        ops.append(['sub', q])
        if q['schema_ok'] and (q['dialect_ok'] or c['async']) and q['filter'] is not None:
            e = q['expires']
            subs.append({'t0': now, 'dur': eff_maxd if e is None else min(e, eff_maxd), 'unsub': None,
                         'acts': {t[1] for t in q['filter'] if t[0] == 'a'}})

    def ident():
        r = rng.random()
        if r < (0.25 if odd else 0.07):
            return ['bogus', rng.choice(BOGUS)]
        if r < (0.32 if odd else 0.12) or not subs:
            return ['id', len(subs) + rng.randint(0, 2)]
        return ['id', rng.randrange(len(subs))]

    for _ in range(rng.randint(1, 3)):
        add_sub()
    nops = rng.randint(4, max_ops)
    stopped = False
    while len(ops) < nops:
        r = rng.random()
        if stopped:
            # after provider shutdown only requests, clock steps and housekeeping (see claim: not modelled)
            r = rng.choice([0.2, 0.3, 0.38, 0.45])
        if r < 0.08:
            add_sub()
        elif r < 0.19:
            i = ident()
            e = dur()
            ops.append(['renew', i, e, rng.random() < 0.7])
            if i[0] == 'id' and i[1] < len(subs) and subs[i[1]]['unsub'] is None:
                subs[i[1]].update(t0=now, dur=eff_maxd if e is None else min(e, eff_maxd))
        elif r < 0.27:
            ops.append(['status', ident(), rng.random() < 0.7])
        elif r < 0.34:
            i = ident()
            ops.append(['unsub', i, rng.random() < 0.7])
            if i[0] == 'id' and i[1] < len(subs) and subs[i[1]]['unsub'] is None:
                subs[i[1]]['unsub'] = now
        elif r < 0.5:
            rr = rng.random()
            if rr < 0.3 and subs:
                s = rng.choice(subs)
                rem = s['dur'] - (now - s['t0'])
                dt = max(0, rem + rng.choice([-2, -1, 0, 1]) * step)          # around the expiry
            elif rr < 0.45:
                dt = rng.choice([7, 8, 9]) * unit // 8                          # around the housekeeping grace period
            else:
                dt = rng.randint(0, 14) * unit // 8 + (rng.choice([0, 1, 13, 77]) if unit == 1000 else 0)
            ops.append(['adv', dt])
            now += dt
        elif r < 0.86:
            if rng.random() < (0.3 if odd else 0.03):
                a = rng.choice(report_acts)
                s = actions[a]
                tok = rng.choice([['s', s.rsplit('/', 1)[-1]], ['s', 'Report'], ['s', s + 'x'], ['s', 'x' + s],
                                  ['s', s[11:]], ['a', rng.randrange(len(actions))]])
                ops.append(['report', ['direct', tok], outs()])
            else:
                wanted = [k for k, idx in kind_idx.items()
                          if any(i in sb['acts'] for i in idx for sb in subs if sb['unsub'] is None)]
                kind = rng.choice(wanted) if wanted and rng.random() < 0.8 else rng.choice(list(KINDS))
                ops.append(['report', ['kind', kind], outs()])
        elif r < 0.95:
            ops.append(['hk'])
        elif not stopped and rng.random() < 0.3:
            ops.append(['stop', rng.random() < 0.8, outs()])
            stopped = True
    if not stopped and rng.random() < 0.75:
        ops.append(['stop', rng.random() < 0.8, outs()])
    return c


def gen_fan_case(rng, actions, max_ops):
    """>= 2 subscribers interested in the same reports; reports whose fan-out is interleaved (from inside the
    delivery of the n-th hand-off) with Unsubscribe / Renew / GetStatus / Subscribe, clock steps aimed at an expiry,
    housekeeping and reports of another sender with failing deliveries"""
    unit = 8
    kind_idx = {k: [act_index(actions, n) for n in v] for k, v in KINDS.items() if k != 'descr'}
    hot = rng.sample(sorted(kind_idx), rng.choice([1, 1, 2]))
    hot_acts = [kind_idx[k][0] for k in hot]
    other_acts = sorted({v[0] for v in kind_idx.values()} - set(hot_acts))
    maxd = rng.choice([120, 60, 33, None])
    eff_maxd = maxd if maxd is not None else 7200 * unit
    c = {'stream': 'fanout', 'unit': 'tick', 'style': rng.choice(['path', 'ref']), 'async': rng.random() < 0.3,
         'maxd': maxd, 'max_err': rng.choice([None, None, 2, 3]), 'nsinks': rng.randint(2, 3), 'ops': []}
    ops = c['ops']
    now = 0
    subs = []
    max_err = c['max_err'] or 1

    def outs(pfail=0.2):
        return gen_outs(rng, c['nsinks'], pfail)

    def mk_sub(must=None):
        f = [['a', a] for a in hot_acts if rng.random() < 0.85 or a == must]
        f += [['a', rng.choice(other_acts)] for _ in range(rng.choice([0, 0, 1]))]
        if not f:
            f = [['a', hot_acts[0]]]
        rng.shuffle(f)
        e = rng.choice([None, rng.randint(4, 30), rng.randint(10, 60), rng.randint(40, 200)])
        q = {'schema_ok': True, 'dialect_ok': True, 'filter': f, 'expires': e, 'notify': rng.randrange(c['nsinks']),
             'end': rng.choice([None, None] + list(range(c['nsinks']))), 'cons_ref': rng.random() < 0.4}
        q['ws'] = gen_ws(rng, len(f))
        subs.append({'t0': now, 'dur': eff_maxd if e is None else min(e, eff_maxd), 'unsub': False,
                     'acts': {t[1] for t in f}, 'sink': q['notify'], 'fails': 0})
        return ['sub', q]

    def live(a=None):
        return [i for i, sb in enumerate(subs) if not sb['unsub'] and now - sb['t0'] < sb['dur']
                and sb['fails'] < max_err and (a is None or a in sb['acts'])]

    def sent(a, o):
        """rough bookkeeping of delivery failures (the generator only aims, the oracle judges)"""
        for i in live(a):
            subs[i]['fails'] = 0 if o[subs[i]['sink']] == 'ok' else subs[i]['fails'] + 1

    def target(a):
        cand = live(a) if rng.random() < 0.85 else list(range(len(subs)))
        if not cand or rng.random() < 0.04:
            return ['id', len(subs) + rng.randint(0, 1)] if rng.random() < 0.5 else ['bogus', rng.choice(BOGUS)]
        return ['id', rng.choice(cand)]

    def inner(a):
        """operations of other threads during one delivery; the generator's clock / table follow them"""
        nonlocal now
        out = []
        for _ in range(rng.choice([1, 1, 2, 3])):
            r = rng.random()
            if r < 0.34:
                i = target(a)
                out.append(['unsub', i, rng.random() < 0.7])
                if i[0] == 'id' and i[1] < len(subs):
                    subs[i[1]]['unsub'] = True
            elif r < 0.54:
                cand = live(a)
                if cand and rng.random() < 0.8:
                    sb = subs[rng.choice(cand)]
                    dt = max(0, sb['dur'] - (now - sb['t0']) + rng.choice([-1, 0, 0, 1]))      # across its expiry
                else:
                    dt = rng.randint(0, 12)
                out.append(['adv', dt])
                now += dt
            elif r < 0.66:
                i = target(a)
                e = rng.choice([None, 0, rng.randint(1, 40), rng.randint(1, 40)])
                out.append(['renew', i, e, rng.random() < 0.7])
                if i[0] == 'id' and i[1] < len(subs) and not subs[i[1]]['unsub']:
                    subs[i[1]].update(t0=now, dur=eff_maxd if e is None else min(e, eff_maxd))
            elif r < 0.71:
                out.append(['status', target(a), rng.random() < 0.7])
            elif r < 0.81:
                out.append(mk_sub())
            elif r < 0.88:
                out.append(['hk'])
            else:       # a report of another sender; its deliveries fail more often: ends subscriptions
                o = outs(0.45)
                b = rng.choice(hot_acts)
                out.append(['report', ['direct', ['a', b]], o])
                sent(b, o)
        return out

    for _ in range(rng.choice([2, 2, 3, 3, 4])):
        ops.append(mk_sub())
    nops = rng.randint(6, max_ops)
    while len(ops) < nops:
        r = rng.random()
        kind = rng.choice(hot)
        a = kind_idx[kind][0]
        if r < 0.55:
            while len(live(a)) < rng.choice([2, 3, 3, 4]):         # several receivers for this report
                ops.append(mk_sub(must=a))
            m = len(live(a))
            where = sorted(set(rng.choices(range(m), [4] + [2] * (m - 1), k=rng.choice([1, 1, 2]))))
            inject = {}
            o = outs(0.07)
            sent(a, o)
            for n in where:
                inject[str(n)] = inner(a)
            what = ['kind', kind] if rng.random() < 0.8 else ['direct', ['a', a]]
            ops.append(['freport', what, o, inject])
        elif r < 0.72:
            o = outs(0.07)
            sent(a, o)
            ops.append(['report', ['kind', kind], o])      # later reports: new subscriptions must get them
        elif r < 0.8:
            dt = rng.randint(0, 10)
            ops.append(['adv', dt])
            now += dt
        elif r < 0.86:
            ops.append(mk_sub())
        elif r < 0.91:
            i = target(a)
            ops.append(['unsub', i, True])
            if i[0] == 'id' and i[1] < len(subs):
                subs[i[1]]['unsub'] = True
        elif r < 0.95:
            ops.append(['hk'])
        else:
            ops.append(['status', target(a), True])
    if rng.random() < 0.8:
        ops.append(['stop', rng.random() < 0.85, outs(0.1)])
    return c


def gen_invalid_case(rng, actions):
    """reports that cannot be sent to anybody (body violates the schema) between ordinary ones"""
    mi = act_index(actions, 'EpisodicMetricReport')
    c = {'stream': 'invalid', 'unit': 'tick', 'style': rng.choice(['path', 'ref']), 'async': rng.random() < 0.4,
         'maxd': 120, 'max_err': rng.choice([2, 3]), 'nsinks': 2, 'ops': []}
    ops = c['ops']
    for _ in range(rng.randint(2, 3)):
        ops.append(['sub', {'schema_ok': True, 'dialect_ok': True, 'filter': [['a', mi]], 'expires': None,
                            'notify': rng.randrange(2), 'end': None, 'cons_ref': rng.random() < 0.4}])
    # the implementation counts such a report against the subscriber(s) whose turn it was (sync: the first receiver,
    # async: all of them) although no delivery failed - recorded in the histogram, reported, not judged here: an ordinary
    # report follows every invalid one and the limit is >= 2, so that nobody is ended by it
    for _ in range(rng.randint(1, 3)):
        ops.append(rng.choice([['ireport'], ['ireport'], ['unsub', ['id', 0], True], ['adv', rng.randint(0, 9)]]))
        ops.append(['report', ['kind', 'metric'], ['ok', 'ok']])
    ops += [['ireport'], ['report', ['kind', 'metric'], ['ok', 'ok']], ['stop', True, ['ok', 'ok']]]
    return c


def expand_ops(case, actions):
    """model-level ops, one per trace entry: (op, action string|None)"""
    out = []
    for op in case['ops']:
        if op[0] == 'freport':
            if op[1][0] == 'kind':
                out.append((op, actions[act_index(actions, KINDS[op[1][1]][0])]))
            else:
                tok = op[1][1]
                out.append((op, actions[tok[1]] if tok[0] == 'a' else tok[1]))
        elif op[0] == 'report':
            if op[1][0] == 'kind':
                for name in KINDS[op[1][1]]:
                    out.append((op, actions[act_index(actions, name)]))
            else:
                tok = op[1][1]
                out.append((op, actions[tok[1]] if tok[0] == 'a' else tok[1]))
        else:
            out.append((op, None))
    return out


# ----------------------------------------------------------------------------- Coq literals
def lit_str(actions, s):
    if s in actions:
        return f'(act {actions.index(s)}%nat)'
    return '(' + coqlit(s) + ')'


def lit_tok(actions, tok):
    return lit_str(actions, actions[tok[1]] if tok[0] == 'a' else tok[1])


def lit_opt(v):
    return 'None' if v is None else f'(Some ({v}))'


def lit_ident(i):
    return 'Bogus' if i[0] == 'bogus' else f'(Id ({i[1]}))'


def lit_outs(outs):
    return '[' + '; '.join(OUT_LIT[kind_of(o)] for o in outs) + ']'


def lit_op(op, a, actions):
    """one plain operation of the model (Eventing/Model.v op)"""
    return lit_ops_of({'ops': [op]}, actions, [(op, a)])[0]


def lit_case(case, actions):
    return lit_cfg(case, '[' + ';\n '.join(lit_ops_of(case, actions, expand_ops(case, actions))) + ']')


def tok_action(tok, actions):
    return actions[tok[1]] if tok[0] == 'a' else tok[1]


def lit_inner(op, actions):
    if op[0] == 'report':
        return lit_op(op, tok_action(op[1][1], actions), actions)
    return lit_op(op, None, actions)


def lit_xcase(case, trace, actions):
    """fine-grained history: plain ops + Fan; the receiver order of a fan-out (iteration order of a Python set) is
    taken from the implementation trace - it is the scheduler's choice, the model is run with the same one"""
    xs = []
    for (op, a), e in zip(expand_ops(case, actions), trace):
        if op[0] == 'freport':
            fan = e.get('fan') or {}
            order = [k for k in (fan.get('order') or []) if isinstance(k, int)]
            inject = op[3]
            n = max([int(x) for x in inject] + [-1]) + 1
            inter = [lit_list([lit_inner(o, actions) for o in inject.get(str(i), [])], 'op') for i in range(n)]
            xs.append(f'Fan {lit_str(actions, a)} {lit_outs(op[2])} {lit_list([str(k) for k in order], "Z")} '
                      + lit_list(inter, 'list op'))
        else:
            xs.append('Plain (' + lit_op(op, a, actions) + ')')
    return lit_cfg(case, '[' + ';\n '.join(xs) + ']')


def lit_rm(e, actions):
    ms = []
    for h in e['handed']:
        m = h['m']
        if m[0] == 'notify':
            ms.append(f'Notify {z(m[1])} {lit_tok(actions, m[2])} {z(m[3])}')
        else:
            ms.append(f'End {z(m[1])} {z(m[2])} {coqlit(bool(m[3]))}')
    return f'({lit_resp(e["resp"])}, {lit_list(ms, "msg")})'


def lit_list(items, ty):
    """a Coq list literal; the empty one with its type (nothing else may determine it in a cases file)"""
    return '[' + '; '.join(items) + ']' if items else f'(@nil ({ty}))'


def lit_xtrace(tr, actions):
    out = []
    for e in tr:
        fan = e.get('fan')
        if fan is None:
            out.append(f'({lit_entry(e, actions)}, (@nil hand, @nil (resp * list msg)))')
            continue
        hands = []
        for ev in fan['events']:
            m = ev['m']
            hands.append(f'(Notify {z(m[1])} {lit_tok(actions, m[2])} {z(m[3])}, '
                         + lit_list([lit_rm(x, actions) for x in ev["inner"]], 'resp * list msg') + ')')
        e0 = dict(e, handed=[])
        out.append(f'({lit_entry(e0, actions)}, ({lit_list(hands, "hand")}, '
                   + lit_list([lit_rm(x, actions) for x in fan["waited"]], 'resp * list msg') + '))')
    return '[' + ';\n '.join(out) + ']'


def lit_cfg(case, ops_lit):
    maxd = 'DEFAULT_MAX_SUBSCR_DURATION_TICKS' if case['maxd'] is None else f'({case["maxd"]})'
    maxerr = 'MAX_NOTIFY_ERRORS' if case['max_err'] is None else f'({case["max_err"]})'
    return (f'(mkCfg {maxd} {maxerr} HOUSEKEEPING_GRACE_TICKS {coqlit(not case["async"])}, {case["nsinks"]}%nat, '
            + ops_lit + ')')


def lit_ops_of(case, actions, eops):
    ops = []
    for op, a in eops:
        k = op[0]
        if k == 'sub':
            q = op[1]
            f = 'None' if q['filter'] is None else '(Some [' + '; '.join(lit_tok(actions, t) for t in q['filter']) + '])'
            ops.append(f'Subscribe (mkReq {coqlit(q["schema_ok"])} {coqlit(q["dialect_ok"])} {f} '
                       f'{lit_opt(q["expires"])} ({q["notify"]}) {lit_opt(q["end"])})')
        elif k == 'renew':
            ops.append(f'Renew {lit_ident(op[1])} {lit_opt(op[2])}')
        elif k == 'status':
            ops.append(f'GetStatus {lit_ident(op[1])}')
        elif k == 'unsub':
            ops.append(f'Unsubscribe {lit_ident(op[1])}')
        elif k == 'adv':
            ops.append(f'Advance ({op[1]})')
        elif k == 'report':
            ops.append(f'Report {lit_str(actions, a)} {lit_outs(op[2])}')
        elif k == 'hk':
            ops.append('Housekeeping')
        elif k == 'stop':
            ops.append(f'Stop {coqlit(op[1])} {lit_outs(op[2])}')
        else:
            raise ValueError(k)
    return ops


def z(v):
    return f'({v})' if isinstance(v, int) and not isinstance(v, bool) else '(-1)'


def lit_resp(r):
    if r[0] == 'sub' and r[1] == 200 and isinstance(r[3], int):
        return f'RSub {z(r[2])} {z(r[3])}'
    if r[0] == 'renew' and r[1] == 200 and isinstance(r[2], int):
        return f'RRenew {z(r[2])}'
    if r[0] == 'stat' and r[1] == 200 and isinstance(r[2], int):
        return f'RStat {z(r[2])}'
    if r[0] == 'unsub' and r[1] == 200:
        return 'RUnsub'
    if r[0] == 'fault':
        return 'RFault'
    if r[0] == 'none':
        return 'RNone'
    return BAD


def lit_entry(e, actions):
    ms = []
    for h in e['handed']:
        m = h['m']
        if m[0] == 'notify':
            ms.append(f'Notify {z(m[1])} {lit_tok(actions, m[2])} {z(m[3])}')
        else:
            ms.append(f'End {z(m[1])} {z(m[2])} {coqlit(bool(m[3]))}')
    views = [f'({z(k)}, {z(cs)}, {z(er)}, {coqlit(bool(u))}, {coqlit(bool(cl))}, {coqlit(bool(v))})'
             for k, cs, er, u, cl, v in e['table']]
    pool = ['None' if p is None else f'(Some ([{"; ".join(z(u) for u in p[0])}], {z(int(p[1]))}))' for p in e['pool']]
    return f'({lit_resp(e["resp"])}, [{"; ".join(ms)}], [{"; ".join(views)}], [{"; ".join(pool)}])'


def lit_trace(tr, actions):
    return '[' + ';\n '.join(lit_entry(e, actions) for e in tr) + ']'


# ----------------------------------------------------------------------------- oracle
def round_half_even(fr):
    fl = fr.numerator // fr.denominator
    rest = fr - fl
    if rest > Fraction(1, 2) or (rest == Fraction(1, 2) and fl % 2 == 1):
        return fl + 1
    return fl


def spec_match(filter_strs, a, actions):
    """'the report's action is in its filter'; for strings outside the SDC action list the documented
    (and test-pinned) suffix rule of ActionBasedSubscription.matches applies"""
    if a in actions and all(f in actions for f in filter_strs):
        return a in filter_strs
    return any(f.endswith(a.strip()) for f in filter_strs)


def oracle(case, trace, actions, consts):
    """The C08 statement evaluated on an implementation trace with the oracle's own liveness bookkeeping
    (derived from the requests and the RESPONSES the subscriber saw, not from the model).
    Returns None or (entry index, clause, detail, text)."""
    unit = 1000 if case['unit'] == 'ms' else 8
    exact = unit == 8
    maxd = case['maxd'] if case['maxd'] is not None else consts['maxd_ticks'] * unit // 8
    max_err = case['max_err'] if case['max_err'] is not None else consts['max_err']
    blur = 0 if exact else 11                    # ms around the expiry where round(x, 2) decides
    now = 0
    subs = []                                    # index = canonical id
    ended = False
    eops = expand_ops(case, actions)
    if len(trace) != len(eops):
        return 0, 'crash', 'trace-length', f'{len(trace)} trace entries for {len(eops)} ops: {trace[-1]["resp"]}'

    def cs_of(d):                                # duration (units) -> centiseconds as the code reports them
        return round_half_even(Fraction(d * 100, unit))

    def alive(s, amb=None):
        """True / False; in the ms stream None (appended to amb) when round(x, 2) decides within the blur"""
        if s['dead'] or s['unsub'] or s['ended'] or s['fails'] >= max_err:
            return False
        rem = s['granted'] - (now - s['t0'])
        if not exact and abs(rem) <= blur:
            if amb is not None:
                amb.append(s)
            return None
        return rem > 0

    def settle(s, h, outs):
        """the exchange of hand-off h ended: a delivery has failed iff the injected outcome for the destination is a
        failure of ANY kind, or the transport client reported one (e.g. it refuses to reconnect after an earlier
        connection error) - not: iff the implementation counted it"""
        sink = h['m'][3]
        inj = kind_of(outs[sink]) if isinstance(sink, int) and 0 <= sink < len(outs) else 'ok'
        if inj == 'ok' and h['ok']:
            s['fails'] = 0
            return
        s['fails'] += 1
        if h['ok']:
            s['uncounted'] = inj          # the transport client reported success
        if h['ok'] or s.get('lost') is None:
            # remember the first failure kind: when the subscription is served although it is over the limit, the
            # report names the kind that was not counted
            s['lost'] = inj if inj != 'ok' else 'client-refuses-to-connect'

    def failed_how(s):
        if s.get('uncounted'):
            return f'failed:{s["uncounted"]}-taken-for-delivered'
        return 'failed'

    def describe(s, why):
        if why.startswith('failed'):
            return (f'{why} ({s["fails"]} consecutive failed deliveries, limit {max_err}, first failure kind '
                    f'{s.get("lost")})')
        return why

    def why_dead(s):
        if s['ended']:
            return 'ended'
        if s['unsub']:
            return 'unsubscribed'
        if s['dead']:
            return 'unknown'
        if s['fails'] >= max_err:
            return failed_how(s)
        return 'expired'

    def judge(n, op, a, e, prev):
        """one operation and what the implementation did; updates the oracle's bookkeeping"""
        nonlocal now
        r = e['resp']
        kind = op[0]
        if r[0] == 'crash':
            if kind in ('report', 'freport') and any(kind_of(o) == 'garbage' for o in op[2]) and 'XMLSyntaxError' in str(r[1]):
                return (n, 'delivery', 'aborted-by-bad-answer',
                        f'{kind}: a subscriber answered 2xx with a body that is not XML; the exception left send_to_subscribers '
                        f'({r[1][:80]}), handed only to {[h["m"][1] for h in e["handed"]]}')
            return n, 'crash', kind, f'{kind}: {r[1]}'
        if kind == 'freport':
            return judge_fan(n, op, a, e)
        if kind == 'ireport':
            # a report whose body violates the schema cannot be sent to anybody: nothing is delivered, and the sync
            # manager lets the error reach the thread that sends the report (async managers collect the tasks' errors with
            # gather(return_exceptions=True): recorded, not judged).  No delivery was attempted: nobody's failure count.
            if any(h['ok'] for h in e['handed']):
                return n, 'delivery', 'invalid-report-delivered', f'a schema-invalid report was delivered: {e["handed"]}'
            if not case['async'] and r[0] != 'raised' and any(alive(s) and spec_match(s['filter'], actions[act_index(actions, 'EpisodicMetricReport')], actions) for s in subs):
                return (n, 'delivery', 'invalid-report-swallowed',
                        'a report that cannot be serialised (schema-invalid body) was dropped silently by the sync manager: '
                        'no exception reached the sending thread, nobody got a report')
            return None
        if kind not in ('report', 'stop') and e['handed']:
            return n, 'delivery', f'sent-by-{kind}', f'{kind} op handed messages to subscribers: {e["handed"]}'
        if kind == 'sub':
            q = op[1]
            if r[0] == 'sub':
                cs = r[3]
                if not isinstance(cs, int):
                    return n, 'granted', 'resolution', f'SubscribeResponse Expires {cs} is not a multiple of 0.01 s'
                if r[2] != len(subs):
                    return n, 'crash', 'id-order', 'harness: canonical id out of order'
                if q['expires'] is not None and cs > cs_of(q['expires']) + (0 if exact else 1):
                    return (n, 'granted', 'exceeds-requested' + ('-zero' if q['expires'] == 0 else ''),
                            f'Subscribe Expires={q["expires"]}/{unit} s granted {cs} cs > requested')
                if cs > cs_of(maxd) + (0 if exact else 1):
                    return n, 'granted', 'exceeds-max', f'Subscribe granted {cs} cs > provider maximum {cs_of(maxd)} cs'
                granted = round_half_even(Fraction(cs * unit, 100)) if exact else cs * 10
                subs.append({'filter': [actions[t[1]] if t[0] == 'a' else t[1] for t in (q['filter'] or [])],
                             'notify': q['notify'], 'end': q['end'], 't0': now, 'granted': granted, 'unsub': False,
                             'fails': 0, 'dead': False, 'ended': False})
            elif r[0] != 'fault':
                return n, 'crash', 'subscribe-response', f'Subscribe answered {r}'
            c = e.get('cons')
            if c is not None:
                if c['is_subscribed'] != (r[0] == 'sub') or (r[0] == 'sub' and round(c['granted'] * 100) != r[3]):
                    return n, 'consumer-view', 'subscribe', f'ConsumerSubscription state {c} after wire response {r}'
        elif kind in ('renew', 'status', 'unsub'):
            i = op[1]
            s = subs[i[1]] if i[0] == 'id' and 0 <= i[1] < len(subs) else None
            unknown = s is None or s['unsub'] or s['ended'] or s['dead']
            ok_tag = {'renew': 'renew', 'status': 'stat', 'unsub': 'unsub'}[kind]
            if r[0] not in (ok_tag, 'fault'):
                return n, 'crash', f'{kind}-response', f'{kind} answered {r}'
            if unknown:
                why = 'never-accepted' if s is None else why_dead(s)
                if r[0] != 'fault':
                    return (n, 'unknown-fault', f'{kind}-after-{why}',
                            f'{kind} naming a subscription that is {why} was answered {r} instead of a fault')
                if prev is not None and (e['table'] != prev['table'] or e['pool'] != prev['pool']):
                    return n, 'unknown-fault', f'{kind}-changed-state', f'faulted {kind} changed provider state'
            elif r[0] == 'fault':
                if alive(s):
                    return n, 'unknown-fault', f'{kind}-live-refused', f'{kind} on a live subscription answered with a fault'
                s['dead'] = True         # expired / failed and already dropped: must stay unknown from now on
            else:
                if kind == 'unsub':
                    s['unsub'] = True
                else:
                    cs = r[2]
                    if not isinstance(cs, int):
                        return n, 'granted', 'resolution', f'{kind} Expires {cs} is not a multiple of 0.01 s'
                    if kind == 'renew':
                        if op[2] is not None and cs > cs_of(op[2]) + (0 if exact else 1):
                            return (n, 'granted', 'exceeds-requested' + ('-zero' if op[2] == 0 else ''),
                                    f'Renew Expires={op[2]}/{unit} s granted {cs} cs > requested')
                        if cs > cs_of(maxd) + (0 if exact else 1):
                            return n, 'granted', 'exceeds-max', f'Renew granted {cs} cs > provider maximum'
                        s['t0'] = now
                        s['granted'] = round_half_even(Fraction(cs * unit, 100)) if exact else cs * 10
                    else:
                        want = cs_of(max(s['granted'] - (now - s['t0']), 0))
                        if abs(cs - want) > (0 if exact else 1):
                            return (n, 'status', 'inconsistent',
                                    f'GetStatus reports {cs} cs, granted {s["granted"]}/{unit} s at t={s["t0"]}, now {now}: expected {want} cs')
            c = e.get('cons')
            if c is not None:
                good = r[0] != 'fault'
                ret = c['ret']
                if kind == 'unsub':
                    bad = c['is_subscribed'] and good
                else:
                    bad = (good != c['is_subscribed']) or not isinstance(ret, (int, float)) or \
                          round(ret * 100) != (r[2] if good else 0)
                if bad:
                    return n, 'consumer-view', kind, f'ConsumerSubscription.{kind} gave {c} for wire response {r}'
        elif kind == 'adv':
            now += op[1]
        elif kind == 'hk':
            # a subscription that is over the failure limit when housekeeping runs is ended for good, even if a
            # delivery that was already in flight succeeds afterwards (seen in the fanout stream: nested report fails,
            # housekeeping, then the pending exchange of the outer report succeeds)
            for s in subs:
                if s['fails'] >= max_err:
                    s['dead'] = True
        elif kind == 'report':
            amb = []
            want = {k for k, s in enumerate(subs) if alive(s, amb) and spec_match(s['filter'], a, actions)}
            skip = {k for k, s in enumerate(subs) if any(s is x for x in amb)}
            got = []
            for h in e['handed']:
                m = h['m']
                if m[0] != 'notify' or m[1] is None or not (0 <= m[1] < len(subs)):
                    return n, 'delivery', 'stray-message', f'report handed {m} (no accepted subscription)'
                s = subs[m[1]]
                tok = m[2]
                if (actions[tok[1]] if tok[0] == 'a' else tok[1]) != a or m[3] != s['notify'] or h.get('is_e'):
                    return n, 'delivery', 'wrong-address', f'notification {m} not addressed to NotifyTo of subscription {m[1]}'
                got.append(m[1])
            if len(got) != len(set(got)):
                return n, 'delivery', 'duplicate', f'a report was handed twice to one subscription: {got}'
            for k in sorted(set(got) - want - skip):
                s = subs[k]
                why = why_dead(s) if alive(s) is False else 'filter'
                return (n, 'delivery', f'extra:{why}',
                        f'report {a.rsplit("/", 1)[-1]} handed to subscription {k} which is {describe(s, why)}')
            for k in sorted(want - set(got) - skip):
                return n, 'delivery', 'missing:alive', f'report {a.rsplit("/", 1)[-1]} not handed to live matching subscription {k}'
            for h in e['handed']:
                s = subs[h['m'][1]]
                settle(s, h, op[2])
        elif kind == 'stop':
            amb = []
            want = {k for k, s in enumerate(subs) if alive(s, amb)} if op[1] else set()
            skip = {k for k, s in enumerate(subs) if any(s is x for x in amb)}
            got = []
            for h in e['handed']:
                m = h['m']
                if m[0] != 'end' or m[1] is None or not (0 <= m[1] < len(subs)):
                    return n, 'end', 'stray-message', f'stop handed {m}'
                s = subs[m[1]]
                dest = (s['end'], True) if s['end'] is not None else (s['notify'], False)
                if (m[2], m[3]) != dest:
                    return (n, 'end', 'wrong-address',
                            f'SubscriptionEnd of subscription {m[1]} went to endpoint {m[2]} (EndTo={m[3]}), expected {dest}')
                got.append(m[1])
            if not op[1] and got:
                return n, 'end', 'sent-although-off', f'send_subscription_end=False but SubscriptionEnd handed to {got}'
            for k in got:
                if got.count(k) > 1:
                    return n, 'end', 'duplicate', f'subscription {k} got {got.count(k)} SubscriptionEnd messages'
            for k in sorted(set(got) - want - skip):
                return n, 'end', f'extra:{why_dead(subs[k])}', f'SubscriptionEnd handed to subscription {k} which is {why_dead(subs[k])}'
            for k in sorted(want - set(got) - skip):
                return n, 'end', 'missing:alive', f'live subscription {k} got no SubscriptionEnd'
            for s in subs:
                s['ended'] = True
            if e['table']:
                return n, 'end', 'table-not-cleared', 'subscriptions left in the table after stop_all'
        return None

    def judge_fan(n, op, a, e):
        """A fan-out interleaved with other threads' operations.  Every hand-off is judged at ITS send time: the
        bookkeeping at that moment contains all operations that were answered before it.  A receiver that was not
        handed the report must have been not alive (or not matching) when its turn came (receiver order known:
        exactly then; otherwise: at some moment of the fan-out).  A subscription created during the fan-out may
        or may not get this report."""
        fan = e.get('fan')
        if not isinstance(fan, dict):
            return n, 'crash', 'freport', 'harness: no fan-out record'
        short = a.rsplit('/', 1)[-1]
        inject = op[3]
        n_list = len(subs)                      # subscriptions accepted before the receiver list was built

        def wants(k):
            return alive(subs[k]) and spec_match(subs[k]['filter'], a, actions)

        not_wanted_once = {k for k in range(n_list) if not wants(k)}
        order = fan.get('order')
        evk = [ev['m'][1] for ev in fan['events']]
        exact = (isinstance(order, list) and all(isinstance(k, int) and 0 <= k < n_list for k in order)
                 and len(set(order)) == len(order))
        if exact:                               # the hand-offs to old subscriptions must follow the receiver order
            it = iter(order)
            exact = all(any(k == x for x in it) for k in evk if isinstance(k, int) and k < n_list)
        pos = 0
        seen = []

        def skipped_until(k_stop):
            """receivers passed over before the hand-off to k_stop (None: until the end of the list)"""
            nonlocal pos
            while pos < len(order) and order[pos] != k_stop:
                j = order[pos]
                pos += 1
                if j not in seen and wants(j):
                    return (n, 'delivery', 'missing:alive',
                            f'fan-out of {short}: live matching subscription {j} was passed over (receiver order {order}, '
                            f'handed so far {seen})')
            pos += 1
            return None

        for i, ev in enumerate(fan['events']):
            m = ev['m']
            k = m[1]
            if m[0] != 'notify' or k is None or not (0 <= k < len(subs)):
                return n, 'delivery', 'stray-message', f'fan-out handed {m} (no accepted subscription)'
            s = subs[k]
            if tok_action(m[2], actions) != a or m[3] != s['notify'] or ev.get('is_e'):
                return n, 'delivery', 'wrong-address', f'notification {m} not addressed to NotifyTo of subscription {k}'
            if k in seen:
                return n, 'delivery', 'duplicate', f'a report was handed twice to one subscription: {seen + [k]}'
            if exact and k < n_list:
                bad = skipped_until(k)
                if bad:
                    return bad
            if not wants(k):
                why = why_dead(s) if alive(s) is False else 'filter'
                return (n, 'delivery', f'extra:{why}',
                        f'fan-out of {short}, hand-off {i}: handed to subscription {k} which is {describe(s, why)} at that moment '
                        f'(operations performed during earlier deliveries of the same report: '
                        f'{[x["op"][:2] for e0 in fan["events"][:i] for x in e0["inner"]]})')
            seen.append(k)
            planned = inject.get(str(i), [])
            done = [x['op'] for x in ev['inner']]
            if len(done) + ev['waiting'] != len(planned) or any(d not in planned for d in done):
                return n, 'crash', 'freport', f'harness: planned {planned}, performed {done}, waiting {ev["waiting"]}'
            for x in ev['inner']:               # operations of other threads while this delivery is in progress
                iop = x['op']
                ia = tok_action(iop[1][1], actions) if iop[0] == 'report' else None
                bad = judge(n, iop, ia, x, None)
                if bad:
                    return bad[0], bad[1], bad[2], f'during hand-off {i} of a fan-out: {bad[3]}'
                not_wanted_once.update(j for j in range(n_list) if not wants(j))
            settle(s, ev, op[2])                                   # the exchange ends
            not_wanted_once.update(j for j in range(n_list) if not wants(j))
        if exact:
            bad = skipped_until(None)
            if bad:
                return bad
        for j in range(n_list):
            if j not in seen and j not in not_wanted_once:
                return (n, 'delivery', 'missing:alive',
                        f'fan-out of {short}: subscription {j} was live and matching during the whole fan-out, not handed')
        for x in fan['waited']:                 # operations that had to wait for the table lock
            iop = x['op']
            ia = tok_action(iop[1][1], actions) if iop[0] == 'report' else None
            bad = judge(n, iop, ia, x, None)
            if bad:
                return bad[0], bad[1], bad[2], f'after a fan-out (waited for the table lock): {bad[3]}'
        return None

    prev = None
    for n, ((op, a), e) in enumerate(zip(eops, trace)):
        bad = judge(n, op, a, e, prev)
        if bad:
            return bad
        prev = e
    return None


# ----------------------------------------------------------------------------- end-to-end stream (real SdcConsumer)
E2E_KINDS = ['metric', 'alert', 'component', 'operational', 'context', 'waveform', 'descr']
E2E_GRANT = 120          # ticks: world.py gives the provider a maximum of 15 s, the consumer asks for 60 s


def gen_e2e(rng, max_steps):
    c = {'e2e': True, 'stream': 'e2e', 'style': rng.choice(['path', 'ref']), 'async': rng.random() < 0.4,
         'cons_ref': rng.random() < 0.5, 'nconsumers': rng.randint(1, 2), 'steps': []}
    for _ in range(rng.randint(3, max_steps)):
        r = rng.random()
        i = rng.randrange(c['nconsumers'])
        if r < 0.4:
            c['steps'].append(['tx', rng.choice(E2E_KINDS)])
        elif r < 0.6:
            c['steps'].append(['adv', rng.choice([8, 9, 40, 60, 64, 119, 120, 121, 130])])
        elif r < 0.72:
            c['steps'].append(['renew', i])
        elif r < 0.8:
            c['steps'].append(['status', i])
        elif r < 0.88:
            c['steps'].append(['unsub', i])
        else:
            c['steps'].append(['hk'])
    if rng.random() < 0.8:
        c['steps'].append(['stop', rng.random() < 0.8])
    return c


def oracle_e2e(case, trace):
    """C08 on an end-to-end trace: what the provider hands to each real consumer and what the consumer's
    ConsumerSubscriptionManager makes of it."""
    now = 0
    n = case['nconsumers']
    st = [{'t0': 0, 'unsub': False, 'dead': False} for _ in range(n)]
    stopped = False

    def alive(s):
        return not (s['unsub'] or s['dead'] or stopped) and now - s['t0'] < E2E_GRANT

    if not trace or trace[0].get('crash'):
        return 0, 'crash', 'setup', str(trace[0].get('crash') if trace else 'no trace')[-400:]
    prev = trace[0]
    if any(x != 2 for x in prev['nsubs']) or not all(all(f) for f in prev['subscribed']):
        return 0, 'crash', 'setup', f'consumers did not subscribe as expected: {prev}'
    for k, e in enumerate(trace[1:], 1):
        if e.get('crash'):
            return k, 'crash', e['step'][0], e['crash'][-400:]
        step = e['step']
        kind = step[0]
        per = [[h for h in e['handed'] if h[0] == i] for i in range(n)]
        if any(h[0] is None for h in e['handed']):
            return k, 'delivery', 'stray-message', f'message to an unknown endpoint: {e["handed"]}'
        if kind == 'adv':
            now += step[1]
        if kind not in ('tx', 'stop') and e['handed']:
            return k, 'delivery', f'sent-by-{kind}', f'{kind} step handed {e["handed"]}'
        if kind == 'tx':
            want = sorted(x.rsplit('/', 1)[-1] for x in KINDS[step[1]])
            for i in range(n):
                got = sorted(h[2] for h in per[i] if h[1] == 'notify')
                delta = e['counters'][i] - prev['counters'][i]
                if alive(st[i]):
                    if got != want or len(per[i]) != len(want):
                        return k, 'delivery', 'missing:alive', f'consumer {i} is subscribed and alive, handed {per[i]}, expected {want}'
                    if delta != len(want):
                        return k, 'consumer-view', 'notification-lost', f'consumer {i} counted {delta} notifications for {want}'
                elif per[i]:
                    why = 'unsubscribed' if st[i]['unsub'] else ('unknown' if st[i]['dead'] else ('ended' if stopped else 'expired'))
                    return k, 'delivery', f'extra:{why}', f'e2e: {per[i]} handed to consumer {i} which is {why}'
        elif kind == 'renew':
            i, rets = step[1], step[2]
            if st[i]['unsub'] or stopped:
                if any(r != 0.0 for r in rets):
                    return k, 'unknown-fault', 'renew-after-unsubscribed', f'renew after unsubscribe/stop returned {rets}'
            elif all(r == 15.0 for r in rets) and not st[i]['dead']:
                st[i]['t0'] = now
            elif all(r == 0.0 for r in rets) and not alive(st[i]):
                st[i]['dead'] = True
            else:
                return k, 'granted', 'renew', f'e2e: renew of consumer {i} (alive={alive(st[i])}) returned {rets}'
        elif kind == 'status':
            i, rets = step[1], step[2]
            if alive(st[i]):
                want = round_half_even(Fraction((E2E_GRANT - (now - st[i]['t0'])) * 100, 8))
                if any(round(r * 100) != want for r in rets):
                    return k, 'status', 'inconsistent', f'e2e: get_status of consumer {i} returned {rets}, expected {want} cs'
            elif not (st[i]['unsub'] or stopped) and all(r == 0.0 for r in rets) and not all(e['subscribed'][i]):
                st[i]['dead'] = True
        elif kind == 'unsub':
            i = step[1]
            if alive(st[i]) and (step[2] is not True or any(e['subscribed'][i])):
                return k, 'consumer-view', 'unsubscribe', f'unsubscribe_all of a live consumer returned {step[2]}, flags {e["subscribed"][i]}'
            st[i]['unsub'] = True
        elif kind == 'hk':
            for s in st:
                if not alive(s):
                    s['dead'] = True
        elif kind == 'stop':
            for i in range(n):
                ends = [h for h in per[i] if h[1] == 'end']
                if len(ends) != len(per[i]):
                    return k, 'end', 'stray-message', f'stop handed {per[i]}'
                if alive(st[i]) and step[1]:
                    if len(ends) != e['nsubs'][i]:
                        return k, 'end', 'missing:alive', f'consumer {i} has {e["nsubs"][i]} live subscriptions, got {len(ends)} SubscriptionEnd'
                    if any(e['subscribed'][i]) or any(x != 'SourceShuttingDown' for x in e['end_status'][i]):
                        return (k, 'consumer-view', 'subscription-end',
                                f'consumer {i} after SubscriptionEnd: subscribed={e["subscribed"][i]} status={e["end_status"][i]}')
                elif ends:
                    return k, 'end', 'extra' if step[1] else 'sent-although-off', f'SubscriptionEnd handed to consumer {i}: {ends}'
            stopped = True
        prev = e
    return None


# ----------------------------------------------------------------------------- orchestration
def consts_from_generated():
    import re
    from lib import COQ
    txt = (COQ / 'Eventing' / 'Gen_Consts.v').read_text()

    def g(name):
        return int(re.search(name + r' : Z := \(?(-?\d+)\)?\.', txt).group(1))
    return {'actions': re.findall(r'^\s+"([^"]+)";?\s*$', txt, re.M), 'max_err': g('MAX_NOTIFY_ERRORS'),
            'maxd_ticks': g('DEFAULT_MAX_SUBSCR_DURATION_TICKS'), 'grace_ticks': g('HOUSEKEEPING_GRACE_TICKS')}


RAISED = {}


def run_impl(ctx, cases, workers=4):
    chunks = [cases[i::workers] for i in range(workers)]

    def one(ch):
        return ctx.impl('c08_impl', {'cases': ch}, timeout=1500) if ch else {'traces': []}
    with ThreadPoolExecutor(max_workers=workers) as ex:
        res = list(ex.map(one, chunks))
    for r in res:
        if r.get('_crash'):
            return None, r
    traces = [None] * len(cases)
    for w, r in enumerate(res):
        for key, cnt in (r.get('raised') or {}).items():
            RAISED[key] = RAISED.get(key, 0) + cnt
        for j, tr in enumerate(r['traces']):
            traces[w + j * workers] = tr
    return traces, None


def histogram(cases, traces, actions, hist):
    for c, tr in zip(cases, traces):
        hist['async' if c['async'] else 'sync'] += 1
        hist['style_' + c['style']] += 1
        for (op, a), e in zip(expand_ops(c, actions), tr):
            hist['op_' + op[0]] += 1
            r = e['resp'][0]
            if op[0] in ('sub', 'renew', 'status', 'unsub'):
                hist['resp_' + r] += 1
            for h in e['handed']:
                hist['handed_' + h['m'][0]] += 1
                hist['handover_failed'] += not h['ok']
            if op[0] == 'report' and not e['handed']:
                hist['report_to_nobody'] += 1
            if op[0] == 'hk':
                hist['hk_passes'] += 1
            if op[0] == 'sub' and op[1].get('ws'):
                w = op[1]['ws']
                hist['filter_raw_white_space'] += 1
                for x in w['seps']:
                    hist['filter_sep_' + x] += 1
                hist['filter_lead_' + (w['lead'] or 'none')] += 1
                hist['filter_trail_' + (w['trail'] or 'none')] += 1
            if op[0] == 'ireport':
                mode = 'async' if c['async'] else 'sync'
                hist[f'invalid_report_{mode}_{e["resp"][0]}'] += 1
                hist[f'invalid_report_{mode}_subscribers_counted'] += len(e.get('counted', []))
                hist[f'invalid_report_{mode}_serialisation_attempts'] += len(e['handed'])
            fan = e.get('fan')
            if fan:
                order = fan['order'] or []
                evk = [ev['m'][1] for ev in fan['events']]
                hist['fan_receivers'] += len(order)
                hist['fan_handoffs'] += len(evk)
                first = next((i for i, ev in enumerate(fan['events']) if ev['inner']), None)
                for i, ev in enumerate(fan['events']):
                    for x in ev['inner']:
                        iop = x['op']
                        hist['fan_inflight_' + iop[0]] += 1
                        hist['fan_inflight_faulted'] += x['resp'][0] == 'fault'
                        hist['fan_nested_handoffs'] += len(x['handed'])
                        hist['fan_nested_handoffs_failed'] += len([h for h in x['handed'] if not h['ok']])
                        if iop[0] in ('unsub', 'renew') and x['resp'][0] in ('unsub', 'renew') and iop[1][0] == 'id':
                            j = iop[1][1]
                            rel = ('self' if j == evk[i] else 'not_a_receiver' if j not in order or evk[i] not in order
                                   else 'later_receiver' if order.index(j) > order.index(evk[i]) else 'earlier_receiver')
                            hist[f'fan_{iop[0]}_of_{rel}'] += 1
                for x in fan['waited']:
                    hist['fan_waited_for_lock_' + x['op'][0]] += 1
                if first is not None:
                    hist['fan_interleaved'] += 1
                    hist['fan_handoffs_after_interleaving'] += len(evk) - first - 1
                    if evk[first] in order:
                        later = order[order.index(evk[first]) + 1:]
                        hist['fan_receivers_after_interleaving'] += len(later)
                        hist['fan_receivers_dropped_after_interleaving'] += len([k for k in later if k not in evk])
                    hist['fan_handoffs_to_new_subscription'] += len([k for k in evk if k not in order])
        for e0, e1 in zip(tr, tr[1:]):
            if len(e1['table']) < len(e0['table']):
                hist['entries_removed'] += len(e0['table']) - len(e1['table'])
            hist['dead_client_seen'] += any(p is not None and p[1] == 2 for p in e1['pool'])


def run(ctx):
    from collections import Counter
    ctx.regenerate('gen_eventing_consts', 'Eventing/Gen_Consts.v')
    ctx.regenerate('gen_eventing_clauses', 'Eventing/Gen_Clauses.v')
    consts = ctx.impl('gen_eventing_consts', {})
    if consts.get('_crash') or 'actions' not in consts:
        # translator stopped (already recorded as broken): keep searching for a failing input with the constants
        # of the last generated file
        consts = consts_from_generated()
    actions = consts['actions']
    hist = Counter()
    plan = [('life', ctx.n(220, 2000), ctx.n(16, 40)), ('malformed', ctx.n(90, 800), ctx.n(16, 40)),
            ('decimal', ctx.n(50, 500), ctx.n(16, 40)), ('fanout', ctx.n(70, 1200), ctx.n(12, 24)),
            ('invalid', ctx.n(8, 60), 0)]
    import os
    import time as _time
    only = [x for x in os.environ.get('VERIF_C08_STREAMS', '').split(',') if x]      # development aid: a subset of streams
    if only:
        plan = [(st, (n if st in only else 0), m) for st, n, m in plan]
        ctx.log(f'VERIF_C08_STREAMS={only}: the other streams are skipped')
    # all inputs first (ONE rng, fixed order), then the implementation runs in the background while Coq checks the
    # theorems; the streams are judged in order
    inputs = {}
    for stream, ncases, max_ops in plan:
        if stream in ('fanout', 'invalid'):
            continue
        inputs[stream] = [gen_case(ctx.rng, actions, max_ops, stream) for _ in range(ncases)]
    e2e = [gen_e2e(ctx.rng, ctx.n(10, 20)) for _ in range(0 if only and 'e2e' not in only else ctx.n(20, 200))]
    inputs['fanout'] = [gen_fan_case(ctx.rng, actions, plan[3][2]) for _ in range(plan[3][1])]
    inputs['invalid'] = [gen_invalid_case(ctx.rng, actions) for _ in range(plan[4][1])]
    inputs['e2e'] = e2e
    bg = ThreadPoolExecutor(max_workers=2)
    t_start = _time.time()

    def impl_job(name):
        r = run_impl(ctx, inputs[name], workers=ctx.n(5, 8))
        return r, _time.time() - t_start
    futures = {name: bg.submit(impl_job, name) for name in ['life', 'fanout', 'malformed', 'decimal', 'invalid', 'e2e']}
    proof_ok = ctx.prove()
    if not proof_ok:
        ctx.broken('theorem', 'Props/C08.v', ctx.proof_error)
    for stream, ncases, max_ops in plan:
        cases = inputs[stream]
        (traces, crash), t_impl = futures[stream].result()
        t_1 = _time.time()
        if crash:
            ctx.broken('correspondence', stream, crash.get('stderr', crash))
            continue
        histogram(cases, traces, actions, hist)
        for c, tr in zip(cases, traces):
            bad = oracle(c, tr, actions, consts)
            if bad:
                n, clause, detail, text = bad
                ctx.fail(f'{stream} stream, op {n}: {text}',
                         {'stream': 'eventing', 'clause': clause, 'detail': detail},
                         {'stream': stream, 'case': c, 'failing_op_index': n, 'impl_trace': tr[:n + 1],
                          'oracle': {'verdict': 'fail', 'clause': clause, 'detail': detail, 'text': text}})
        if stream not in ('decimal', 'invalid'):
            fine = stream == 'fanout'
            header, deps = (HEADER_X, DEPS_X) if fine else (HEADER, DEPS)
            eqb, runf, twin = ('xtrace_eqb', 'xrun_case', 'xcheck_case') if fine else ('trace_eqb', 'run_case', 'check_case')
            if fine:
                lits = [(lit_xcase(c, tr, actions), lit_xtrace(tr, actions)) for c, tr in zip(cases, traces)]
            else:
                lits = [(lit_case(c, actions), lit_trace(tr, actions)) for c, tr in zip(cases, traces)]
            mism, err = ctx.coq_mism(stream, header, eqb, runf, lits, shard=ctx.n(30, 100), deps=deps)
            if err:
                ctx.broken('correspondence', f'{stream} (coq evaluation)', err)
            if not proof_ok and not err:
                # search the MODEL for a witness with the boolean twin of the theorems, then look at that case's
                # implementation trace (already judged by the oracle above)
                tw, terr = ctx.coq_mism(stream + '_twin', header, 'Bool.eqb', twin,
                                        [(a, 'true') for a, _ in lits], shard=ctx.n(40, 100), deps=deps)
                ctx.cov.setdefault('twin', {})[stream] = {'model_level_failures': len(tw), 'error': terr,
                                                          'first': cases[tw[0]] if tw else None}
                ctx.log(f'{stream}: boolean twin fails on {len(tw)} generated cases of the model')
            if mism:
                i = mism[0]
                model = ctx.coq_eval(header, f'{runf} {lits[i][0]}')
                ctx.broken('correspondence', stream,
                           {'disagreements': len(mism), 'first_case': cases[i], 'impl_trace_literal': lits[i][1][:6000],
                            'model_trace': model[-6000:]})
        ctx.count(stream, len(cases), [json.dumps(t, sort_keys=True) for t in traces],
                  ops=sum(len(t) for t in traces))
        ctx.log(f'{stream}: {len(cases)} cases, {sum(len(t) for t in traces)} ops; implementation done at {t_impl:.0f}s, '
                f'oracle+model {_time.time() - t_1:.0f}s')
        if cases:
            ctx.sample({'stream': stream, 'case': cases[0],
                        'trace': [[e['resp'], [h['m'] for h in e['handed']]] for e in traces[0]]})
    (traces, crash), t_impl = futures['e2e'].result()
    bg.shutdown()
    if crash:
        ctx.broken('correspondence', 'e2e', crash.get('stderr', crash))
    else:
        for c, tr in zip(e2e, traces):
            hist['e2e_steps'] += len(tr)
            hist['e2e_handed'] += sum(len(x.get('handed', [])) for x in tr)
            bad = oracle_e2e(c, tr)
            if bad:
                n, clause, detail, text = bad
                ctx.fail(f'e2e stream, step {n}: {text}', {'stream': 'eventing', 'clause': clause, 'detail': detail},
                         {'stream': 'e2e', 'case': c, 'failing_op_index': n, 'impl_trace': tr[:n + 1],
                          'oracle': {'verdict': 'fail', 'clause': clause, 'detail': detail, 'text': text}})
        ctx.count('e2e', len(e2e), [json.dumps(t, sort_keys=True) for t in traces], ops=sum(len(t) for t in traces))
        if e2e:
            ctx.sample({'stream': 'e2e', 'case': e2e[0], 'trace': [[x.get('step'), x.get('handed')] for x in traces[0]]})
        ctx.log(f'e2e: {len(e2e)} scenarios with real SdcConsumers, implementation done at {t_impl:.0f}s')
    ctx.cov['histogram'] = dict(sorted(hist.items()))
    # injected delivery outcome -> exception class the transport client raised (sync SoapClient / SoapClientAsync)
    ctx.cov['injected_outcome_to_exception'] = dict(sorted(RAISED.items()))
    kinds = Counter()
    for key, cnt in RAISED.items():
        kinds[key.split('->')[0]] += cnt
    ctx.log('injected delivery outcomes: ' + ', '.join(f'{k}={v}' for k, v in sorted(kinds.items())))
    ctx.log('  raised by the transport clients: ' + ', '.join(f'{k}={v}' for k, v in sorted(RAISED.items()) if not k.endswith('->none')))
    if ctx.thorough:
        hits = ctx.gate_grep(['Eventing', 'Common'])
        if hits:
            ctx.broken('theorem', 'grep gate', hits)
        ctx.coqchk('SDC.Props.C08')
    return ctx.finish(
        rule='random op lists (Subscribe / Renew / GetStatus / Unsubscribe as real SOAP requests through the real HTTP '
             'handler, provider MDIB transactions of 7 report kinds, virtual-clock steps aimed at the expiry and at the '
             'housekeeping grace period, housekeeping passes, per subscriber endpoint an injected delivery outcome of every '
             'kind the send paths distinguish (HTTP error status with empty body / with a SOAP fault, connection refused at '
             'connect or broken while sending, connect time-out, socket / asyncio time-out, connection reset, 2xx answer '
             'that is not XML; raised as the exception classes of the real sync SoapClient resp. of aiohttp inside the real '
             'SoapClientAsync; the except clauses of the send paths are enumerated by gen_eventing_clauses.py and pinned '
             'in Props/C08.v), provider stop_all with and without SubscriptionEnd) on a real SdcProvider with the '
             'sync and async managers and path / reference-parameter dispatch; after every op the response, the messages '
             'handed to subscriber-facing SOAP clients, the subscription table and the client pool are compared with the '
             'model (vm_compute) and judged by the oracle; distinct = distinct implementation traces.  fanout stream: '
             'reports whose fan-out is interleaved with other threads: from inside post_message_to of the n-th hand-off '
             '(message handed to the subscriber-facing client, exchange not yet done) a second thread performs Unsubscribe / '
             'Renew / GetStatus / Subscribe requests (targets earlier, later and the current receiver), clock steps across an '
             'expiry, housekeeping passes and whole reports of another sender with failing deliveries; each later hand-off '
             'is judged against the subscription state at ITS send time, passed-over receivers against the state when '
             'their turn came (receiver order recorded from _get_subscriptions_for_action), and the whole trace is compared '
             'with the fine-grained model Eventing/FanOut.v run with the same receiver order; async managers: a lock probe '
             'shows that table operations wait for the fan-out, they are performed afterwards (model: deferred)',
        assumptions=['clock values and durations of the compared streams are multiples of 1/8 s',
                     'subscriber endpoints are distinguished by netloc; one outcome per endpoint and op',
                     'async manager: the real SoapClientAsync runs, only its aiohttp.ClientSession is replaced by a fake '
                     'session that performs the loop-back exchange when the post context is entered and raises '
                     'aiohttp / asyncio exception instances for injected transport faults',
                     'a delivery has failed iff the injected outcome is a failure of any kind or the transport client '
                     'reported one - independent of what the implementation counted',
                     'fanout stream: the operations of other threads happen at one point of a delivery (after the hand-off '
                     'to the client, before the exchange) and each request is atomic (lookup and effect not split)'],
        trusted_base=['translator harness/impl/gen_eventing_consts.py (action URIs, MAX_NOTIFY_ERRORS, '
                      'DEFAULT_MAX_SUBSCR_DURATION, housekeeping grace, rounding digits)',
                      'translator harness/impl/gen_eventing_clauses.py (except clauses of the six send-path functions)',
                      'correspondence harness harness/impl/c08_impl.py + harness/world.py (loop-back transport, virtual clock, '
                      'tap on post_message_to, reads _subscriptions / _soap_clients for the state views; fanout stream: '
                      'the receiver order is read from the result of _get_subscriptions_for_action, table-lock probe)',
                      'model evaluated inside Coq with vm_compute on generated case files'],
        not_modelled=['real sockets, the aiohttp connector (which exception aiohttp raises for which network event is taken from its documentation)',
                      'event-loop timing / concurrency of the async gather', 'malformed HTTP framing, truncated bodies, TLS errors',
                      'set iteration order of the subscription table (atomic reports: messages of one op are compared as a '
                      'sorted list; fine-grained reports: the order is an input of the model, taken from the implementation)',
                      'provider shutdown from inside a fan-out; requests split between lookup and effect; two fan-outs of '
                      'the same manager interleaved hand-off by hand-off (a nested report is atomic)',
                      'Subscribe / Report after provider shutdown (async event loop is gone); periodic reports',
                      'ConsumerSubscriptionManager renew thread'])


def replay(ctx, rep):
    consts = ctx.impl('gen_eventing_consts', {})
    if consts.get('_crash') or 'actions' not in consts:
        consts = consts_from_generated()
    actions = consts['actions']
    case = rep['case']
    traces, crash = run_impl(ctx, [case], workers=1)
    if crash:
        print(crash)
        return 1
    tr = traces[0]
    if case.get('e2e'):
        for e in tr:
            print(e)
        bad = oracle_e2e(case, tr)
        print('oracle:', bad)
        return 1 if bad else 0
    bad = oracle(case, tr, actions, consts)
    fine = any(op[0] == 'freport' for op in case['ops'])
    for attempt in range(7):
        if bad or not fine:
            break
        # the receiver order of a fan-out is the iteration order of a Python set of objects: it differs from run to run
        traces, crash = run_impl(ctx, [case], workers=1)
        if crash:
            break
        tr = traces[0]
        bad = oracle(case, tr, actions, consts)
        print(f'(attempt {attempt + 2}: receiver orders {[e["fan"]["order"] for e in tr if e.get("fan")]})')
    for (op, a), e in zip(expand_ops(case, actions), tr):
        print(op[:2] if op[0] == 'sub' else op, '->', e['resp'], [h['m'] for h in e['handed']], e['table'], e['pool'])
    print('oracle:', bad)
    if any(op[0] == 'freport' for op in case['ops']):
        for (op, a), e in zip(expand_ops(case, actions), tr):
            if op[0] == 'freport':
                fan = e.get('fan') or {}
                print('fan-out', op[1], 'receiver order', fan.get('order'))
                for ev in fan.get('events', []):
                    print('   hand-off', ev['m'], 'ok' if ev['ok'] else 'FAILED', '| meanwhile:',
                          [(x['op'][:2], x['resp'], [h['m'] for h in x['handed']]) for x in ev['inner']])
                print('   waited for the table lock:', [(x['op'][:2], x['resp']) for x in fan.get('waited', [])])
        print(ctx.coq_eval(HEADER_X, f'xrun_case {lit_xcase(case, tr, actions)}')[-4000:])
    elif case.get('unit') != 'ms':
        print(ctx.coq_eval(HEADER, f'run_case {lit_case(case, actions)}')[-4000:])
    return 1 if bad else 0
