"""C01 - the consumer MDIB is an exact mirror of the provider MDIB after any report history."""
import mdibcheck
import mdibgen

FILES = ('70041_MDIB_Final.xml', 'mdib_two_mds.xml')


def run(ctx):
    if not ctx.prove():
        ctx.broken('theorem', 'Props/C01.v', ctx.proof_error)
    pairs = mdibcheck.run_histories(ctx, 'mirror', ctx.n(54, 900), ctx.n(10, 40), consumer=True,
                                    weights={'state': 5, 'ctx': 3, 'location': 1, 'descr': 4, 'reject': 1, 'abort': 1,
                                             'delstate': 1},
                                    mdib_files=FILES)
    nfail = mdibcheck.judge(ctx, 'mirror', pairs, [mdibgen.oracle_consumer], {'C01'})
    m1 = mdibcheck.model_correspondence(ctx, 'mirror', pairs, FILES)
    m2 = mdibcheck.consumer_correspondence(ctx, 'mirror', pairs, FILES)
    m3 = mdibcheck.report_correspondence(ctx, 'mirror', pairs, FILES)
    if (m1 or m2) and not nfail:
        more = mdibcheck.run_histories(ctx, 'mirror-search', ctx.n(150, 600), ctx.n(12, 40), consumer=True, mdib_files=FILES)
        mdibcheck.judge(ctx, 'mirror-search', more, [mdibgen.oracle_consumer], {'C01'})
    hist = mdibcheck.op_histogram(pairs)
    ctx.count('mirror', len(pairs), [repr(r['trace']) for _, r in pairs], histogram=hist,
              reports=sum(len(s['reports']) for _, r in pairs for s in r['trace']))
    if pairs:
        c, r = pairs[0]
        ctx.sample({'stream': 'mirror', 'ops': c['ops'][:3],
                    'steps': [{'res': s['res'], 'reports': [x.get('kind') for x in s['reports']], 'notif': s.get('notif'),
                               'mirror_diff': s.get('mirror')} for s in r['trace'][:3]]})
    if ctx.thorough:
        hits = ctx.gate_grep(['Mdib', 'Common'])
        if hits:
            ctx.broken('theorem', 'grep gate', hits)
        ctx.coqchk('SDC.Props.C01')
    return ctx.finish(
        rule='histories also contain empty transactions of every kind (empty body, get_state + unget_state, every call refused), API calls that are refused and handled inside the body (the refused statement must leave nothing of itself), re-creation of context state handles through add_state, reseq operations that change only the InstanceId, and the same transaction on the same handle set repeated; '
             'crafted scenario histories (several delete / re-create cycles of one handle, a new MDS created at run time by '
             'a transaction that only creates a parent-less descriptor, its subtree, removal and re-creation, transactions '
             'whose states belong to two MDSs in alternating order, stale entities, context descriptors with several states) '
             'followed by random tails, plus random histories over all transaction kinds (metric, alert, component, '
             'operational, context, waveform, descriptor create/update/delete/re-create, location change; both interfaces) '
             'on single- and two-MDS MDIBs whose InstanceId is absent, 0 or a number, on the loop-back provider + consumer; in a '
             'third of the cases the provider commits transactions of every kind while the consumer\'s first GetMdib is in '
             'flight (judged: exact mirror after the first load); after every transaction: provider tables vs provider model, wire reports (parsed by the real '
             'reader) fed to the consumer model vs the real ConsumerMdib tables and notifications, and the mirror oracle '
             '(provider snapshot == consumer snapshot, notifications name exactly the changed entities); distinct = '
             'distinct implementation traces',
        assumptions=['semantic equality of payloads: every declared property read through its descriptor, timestamps at 1 ms, '
                     'the self-updating clock time excluded', 'reports are processed synchronously in emission order',
                     'the tutorial role providers\' commit hooks are detached'],
        trusted_base=['harness/world.py loop-back transport', 'harness/mdibrun.py canonical snapshots and report parsing',
                      'harness/mdibmodel.py translation into model terms'],
        not_modelled=['theorems: mirror step and mirror over any history for STATE transactions; context and descriptor '
                      'transactions are decided by the two model correspondences and the mirror oracle',
                      'waveform ring buffers (rt_buffers) are outside the mirror statement'])
