"""C09 - operation invocations follow the BICEPS invocation-state protocol end to end (DESIGN.md section 4, C09)."""
import itertools
import json
import time

from lib import coqlit

HEADER = ('From Coq Require Import List ZArith Bool.\nImport ListNotations.\n'
          'From SDC Require Import Invocation.Model Invocation.Gen_Consts Invocation.Inst.\nOpen Scope Z_scope.')
DEPS = ['Invocation/Model.vo', 'Invocation/Gen_Consts.vo', 'Invocation/Inst.vo']
ST = ['Wait', 'Start', 'Cnclld', 'CnclldMan', 'Fin', 'FinMod', 'Fail']
WAIT, START, CNC, CNCM, FIN, FINMOD, FAIL = range(7)
FINALS = [CNC, CNCM, FIN, FINMOD, FAIL]
PINNED_CAP = 50                         # the claim: up to 50 report parts may precede the response (Inst.pinned_recent_cap)
COMPLETING = {CNC, CNCM, FAIL}          # a response in one of these states ends the transaction: no report need follow
KINDS = ['activate', 'set_string', 'set_value', 'set_context_state', 'set_metric_state', 'set_component_state',
         'set_alert_state']


def final(st):
    return st not in (WAIT, START)


# =============================================================================== consumer stream
def chunk(rng, parts, maxlen=6):
    """consecutive parts -> report messages of 1..maxlen parts"""
    out, i = [], 0
    while i < len(parts):
        n = rng.randint(1, maxlen) if rng.random() < 0.5 else 1
        out.append(['rep', [list(p) for p in parts[i:i + n]]])
        i += n
    return out


def events_from_flat(rng, flat, maxlen=6):
    """flat: list of ('resp', id, st) | ('part', id, st, tag) -> event list with parts grouped into report messages"""
    out, buf = [], []
    for e in flat:
        if e[0] == 'part':
            buf.append(e[1:])
        else:
            out += chunk(rng, buf, maxlen)
            buf = []
            out.append(['resp', e[1], e[2]])
    out += chunk(rng, buf, maxlen)
    return out


def merges(a, b):
    """all interleavings of two lists"""
    if not a:
        yield list(b)
        return
    if not b:
        yield list(a)
        return
    for r in merges(a[1:], b):
        yield [a[0]] + r
    for r in merges(a, b[1:]):
        yield [b[0]] + r


SHAPES = ([('queued', WAIT, [WAIT, START, f]) for f in FINALS]
          + [('direct', f, [f]) for f in FINALS]
          + [('two-reports', WAIT, [START, f]) for f in (FIN, FAIL)]
          + [('refused', FAIL, [])])


def gen_cons_exhaustive(rng, cap, loads):
    """every position of the response among the 1-3 reports of its transaction, for every shape, with foreign parts"""
    cases = []
    for shape, rst, sts in SHAPES:
        for pos in range(len(sts) + 1):
            for load in loads:
                tag = itertools.count()
                own = [('part', 1, st, next(tag)) for st in sts]
                seq = own[:pos] + [('resp', 1, rst)] + own[pos:]
                flat = []
                where = rng.randrange(len(seq) + 1) if load else 0
                for k, e in enumerate(seq):
                    if k == where:
                        flat += [('part', 900 + (j % 3), rng.choice(FINALS + [WAIT, START]), next(tag)) for j in range(load)]
                    flat.append(e)
                if where == len(seq):
                    flat += [('part', 900 + (j % 3), rng.choice(FINALS), next(tag)) for j in range(load)]
                cases.append({'class': 'exhaustive', 'shape': shape, 'txs': {1: (rst, sts)},
                              'events': events_from_flat(rng, flat, 8 if load > 6 else 3)})
    return cases


def gen_cons_boundary(rng, cap):
    """an own part, then exactly cap-1 / cap further parts, then the response: kept / lost"""
    cases = []
    for extra in sorted({1, 4, 5, 9, 10, 19, 29, 39, 45, cap - 2, cap - 1, cap, cap + 3}):      # k foreign parts up to the bound
        for shape, rst, sts in (('direct', FIN, [FIN]), ('direct', FAIL, [FAIL]), ('queued', WAIT, [WAIT, START, FINMOD])):
            tag = itertools.count()
            flat = [('part', 1, sts[0], next(tag))]
            flat += [('part', 900 + j % 4, rng.choice(FINALS), next(tag)) for j in range(extra)]
            flat.append(('resp', 1, rst))
            flat += [('part', 1, st, next(tag)) for st in sts[1:]]
            cases.append({'class': 'boundary', 'shape': shape, 'txs': {1: (rst, sts)},
                          'events': events_from_flat(rng, flat, 9)})
    return cases


def gen_cons_random(rng, max_tx):
    """several legal transactions (some concurrent calls of the same consumer) and foreign parts, interleaved"""
    ntx = rng.randint(1, max_tx)
    txs, seqs = {}, []
    tag = itertools.count()
    for i in range(ntx):
        tid = i + 1
        _, rst, sts = rng.choice(SHAPES)
        txs[tid] = (rst, sts)
        own = [('part', tid, st, None) for st in sts]
        pos = rng.randint(0, len(own))
        seqs.append(own[:pos] + [('resp', tid, rst)] + own[pos:])
    seqs.append([('part', 900 + rng.randrange(3), rng.choice(FINALS + [WAIT]), None) for _ in range(rng.randint(0, 8))])
    flat = []
    live = [s for s in seqs if s]
    while live:
        s = rng.choice(live)
        e = s.pop(0)
        flat.append((e[0], e[1], e[2]) if e[0] == 'resp' else ('part', e[1], e[2], next(tag)))
        live = [s for s in live if s]
    return {'class': 'random', 'shape': 'multi', 'txs': txs, 'events': events_from_flat(rng, flat, 3)}


def gen_cons_malformed(rng):
    """anything: repeated finals, parts after completion, responses for an id that is pending or done"""
    tag = itertools.count()
    flat = []
    for _ in range(rng.randint(1, 14)):
        tid = rng.randint(1, 3)
        if rng.random() < 0.3:
            flat.append(('resp', tid, rng.randrange(7)))
        else:
            flat.append(('part', tid, rng.randrange(7), next(tag)))
    return {'class': 'malformed', 'shape': 'malformed', 'txs': None, 'events': events_from_flat(rng, flat, 3)}


def flat_events(events):
    out = []
    for e in events:
        if e[0] == 'resp':
            out.append(('resp', e[1], e[2]))
        else:
            out += [('part', p[0], p[1], p[2]) for p in e[1]]
    return out


def lit_cons(events):
    items = []
    for e in flat_events(events):
        if e[0] == 'resp':
            items.append(f'CResp {e[1]} {ST[e[2]]}')
        else:
            items.append(f'CPart (mkCP {e[1]} {ST[e[2]]} {e[3]})')
    return '[' + '; '.join(items) + ']'


ZLL, ZL = 'list (list Z)', 'list Z'


def zlit(x):
    """nested int lists as Coq terms in Z_scope (plain numerals parse much faster than (n)%Z)"""
    if isinstance(x, bool):
        raise TypeError('bool in a Z literal')
    if isinstance(x, int):
        return str(x) if x >= 0 else f'({x})'
    return '[' + '; '.join(zlit(e) for e in x) + ']'


def typed(x, ty):
    return f'({zlit(x)} : {ty})'


def lit_cons_obs(ob):
    return f'({typed(ob["done"], ZLL)}, {typed(ob["pend"], ZLL)}, {typed(ob["recent"], ZL)})'



def oracle_cons(case, ob, cap):
    """C09 (consumer clause) evaluated directly on what the real OperationsManager did"""
    if ob['errors']:
        return 'exception', f'the manager raised {ob["errors"]}'
    for tid, n in ob['n_set']:
        if n > 1:
            return 'completed-twice', f'set_result called {n} times for transaction {tid}'
    if case['txs'] is None:
        return None
    flat = flat_events(case['events'])
    for tid, (rst, sts) in case['txs'].items():
        tid = int(tid)
        ipos = [k for k, e in enumerate(flat) if e[0] == 'resp' and e[1] == tid][0]
        before = sum(1 for e in flat[:ipos] if e[0] == 'part')
        if before > cap:
            continue                                # beyond the documented buffer bound
        own_all = [e[3] for e in flat if e[0] == 'part' and e[1] == tid]
        own_before = [e[3] for e in flat[:ipos] if e[0] == 'part' and e[1] == tid]
        dones = [d for d in ob['done'] if d[0] == tid]
        if len(dones) != 1:
            return 'not-completed-once', f'transaction {tid}: {len(dones)} completions'
        if any(p[0] == tid for p in ob['pend']):
            return 'still-pending', f'transaction {tid} completed but is still registered'
        _, st, rs, from_resp, *tags = dones[0]
        if rs != rst:
            return 'wrong-response', f'transaction {tid}: set_response state {ST[rs]}'
        if rst in COMPLETING:
            if st != rst:
                return 'wrong-final-state', f'transaction {tid}: response {ST[rst]} but result {ST[st]}'
            if tags != own_before:
                return 'failed-response-drops-parts', (f'transaction {tid}: response {ST[rst]} completed the call with parts '
                                                       f'{tags}, received before the response: {own_before}')
        else:
            want = sts[-1]
            if st != want or from_resp:
                return 'wrong-final-state', f'transaction {tid}: result {ST[st]}, final report {ST[want]}'
            if tags != own_all:
                return 'missing-parts', f'transaction {tid}: result parts {tags}, reported {own_all}'
    return None


# =============================================================================== schedule stream (consumer, real threads)
def compositions(parts):
    """all ways to cut a list into consecutive non-empty groups (= report messages)"""
    if not parts:
        yield []
        return
    for k in range(1, len(parts) + 1):
        for rest in compositions(parts[k:]):
            yield [parts[:k]] + rest


def gen_sched_scenarios(rng, thorough):
    out = []
    for shape, rst, sts in SHAPES:
        own = [[7, st, k] for k, st in enumerate(sts)]
        for groups in compositions(own):
            reports = [list(g) for g in groups]
            if rng.random() < 0.5:       # a report for somebody else's transaction somewhere in between
                reports.insert(rng.randint(0, len(reports)), [[900, rng.choice(FINALS), 50]])
            out.append({'shape': shape, 'txs': {7: (rst, sts)}, 'calls': [[7, rst]], 'reports': reports})
    for _ in range(12 if thorough else 3):    # two calling threads
        (_, r1, s1), (_, r2, s2) = rng.choice(SHAPES), rng.choice(SHAPES)
        tag = itertools.count()
        p1 = [[7, st, next(tag)] for st in s1]
        p2 = [[8, st, next(tag)] for st in s2]
        merged = rng.choice(list(merges(p1, p2))) if (p1 or p2) else []
        groups = rng.choice(list(compositions(merged))) if merged else []
        out.append({'shape': 'two-calls', 'txs': {7: (r1, s1), 8: (r2, s2)}, 'calls': [[7, r1], [8, r2]],
                    'reports': [list(g) for g in groups]})
    return out


def linearise(order):
    """the critical sections in the order in which the lock was taken = the equivalent sequential event list"""
    out = []
    for u in order:
        if u is None or (out and out[-1] is u):
            continue
        out.append(u)
    return [list(u) for u in out]


# =============================================================================== provider stream
def gen_req(rng, p_real=0.3, kinds=range(7)):
    kind = rng.choice(list(kinds))
    known = rng.random() < 0.85
    mode = 'queued' if rng.random() < 0.6 else 'direct'
    r = rng.random()
    if r < p_real:
        plan = 'real'
    elif r < p_real + 0.2:
        plan = 'raise'
    else:
        plan = ['ret', rng.choice([FIN, FIN, FAIL, FAIL, FINMOD, CNC, CNCM])]
    return ['req', rng.randrange(2), kind, known, mode, plan, rng.randrange(6)]


def gen_prov_case(rng, cls, qcap):
    ops = []
    if cls == 'seq':
        for _ in range(rng.randint(1, 5)):
            ops.append(gen_req(rng))
            ops.append(['finish'])
    elif cls == 'interleaved':
        for _ in range(rng.randint(3, 12)):
            ops.append(gen_req(rng) if rng.random() < 0.62 else ['finish'])
    else:   # burst: more queued requests than the queue holds while the worker is held at the gate
        n = qcap + rng.randint(1, 4)
        for k in range(n + 3):
            r = gen_req(rng, p_real=0.1)
            if rng.random() < 0.85:
                r[3], r[4] = True, 'queued'
            ops.append(r)
            if rng.random() < 0.06:
                ops.append(['finish'])
    return ops


def lit_out(ex):
    if ex is None:
        return 'Raises', 0
    o, dv = ex
    return ('Raises' if o == 'raise' else f'(Returns {ST[o[1]]})'), dv


def lit_hops(events):
    items = []
    for ev in events:
        if ev[0] == 'finish':
            items.append('HFinish')
        else:
            _, ci, kind, known, mode, plan, variant, ex = ev
            out, dv = lit_out(ex)
            items.append(f'HReq (mkReq {"true" if known else "false"} {"true" if mode == "direct" else "false"} '
                         f'{out} ({dv}) {kind})')
    return '[' + '; '.join(items) + ']'


def lit_prov_case(tr):
    return f'(({tr["first_id"]})%Z, ({tr["mv0"]})%Z, {lit_hops(tr["events"])})'


def lit_prov_obs(tr):
    parts = [p for rep in tr['reports'] for p in rep]
    return f'({typed(tr["resps"], ZLL)}, {typed(parts, ZLL)}, {typed(tr["versions"], ZL)}, {typed(tr["pcounts"], ZL)})'


def collapse(l):
    out = []
    for x in l:
        if not out or out[-1] != x:
            out.append(x)
    return out


def legal_word(l):
    return (len(l) == 3 and l[0] == WAIT and l[1] == START and final(l[2])) or (len(l) == 1 and final(l[0]))


def oracle_prov(tr, qcap):
    """C09 (provider clauses) evaluated directly on the wire log of one case"""
    if tr['errors'] or tr['aborted']:
        return 'harness', f'stepping the worker failed: {tr["errors"] or tr["aborted"]}'
    for other in tr['reports_other']:
        if other != tr['reports']:
            return 'subscribers-differ', 'two subscribers received different OperationInvokedReport sequences'
    if any(len(rep) != 1 for rep in tr['reports']):
        return 'report-shape', 'an OperationInvokedReport without exactly one report part'
    parts = [rep[0] for rep in tr['reports']]
    reqs = [(i, ev) for i, ev in enumerate(tr['events']) if ev[0] == 'req']
    accepted = entered = released = 0
    k = 0
    fut = {f[0]: f for f in tr['futures']}
    ev_i = 0
    for i, ev in enumerate(tr['events']):
        if ev[0] == 'finish':
            if entered > released:
                released += 1
            entered = min(accepted, released + 1)
            continue
        k += 1
        _, ci, kind, known, mode, plan, variant, ex = ev
        want_id = tr['first_id'] + k
        resp = tr['resps'][k - 1]
        v_before = tr['versions'][i - 1] if i else tr['mv0']
        if resp == [0]:
            waiting = accepted - entered
            if not (known and mode == 'queued' and waiting >= qcap):
                return 'unexpected-fault', f'request {k} ({KINDS[kind]}, {mode}) got a fault with {waiting} operations waiting'
            if any(p[0] == want_id for p in parts):
                return 'reports-after-fault', f'transaction {want_id} was refused with a fault but reported'
            continue
        _, rid, rst, rerr, rmsg = resp
        if rid != want_id:
            return 'transaction-id', f'request {k} got transaction id {rid}, expected {want_id} (previous + 1)'
        mine = [p for p in parts if p[0] == rid]
        sts = [p[1] for p in mine]
        if not known:
            if (rst, rerr, rmsg) != (FAIL, 3, 1) or mine:
                return 'unknown-operation', f'unknown operation: response {resp}, reports {mine}'
            if tr['versions'][i] != v_before or ex is not None:
                return 'unknown-operation-touches-mdib', f'unknown operation changed MdibVersion {v_before} -> {tr["versions"][i]}'
            f = fut.get(i)
            if not f or f[2] != 'done' or f[3] != FAIL or f[4] != 3:
                return 'consumer-result', f'unknown operation: result handle {f}'
            continue
        if mode == 'queued' and rst == WAIT and not any(final(x) for x in sts):
            return 'wait-never-finished', (f'transaction {rid} ({KINDS[kind]}, queued) was answered Wait; the worker has drained and the '
                                           f'reported states are {[ST[x] for x in sts]} - no final state ever follows')
        if ex is None:
            return 'handler-not-run', f'request {k}: accepted but the handler never ran'
        raised = ex[0] == 'raise'
        want_final = FAIL if raised else ex[0][1]
        if any(p[4] != kind for p in mine):
            return 'operation-handle', f'transaction {rid}: report for another operation handle'
        if mode == 'direct':
            if sts != [want_final]:
                return 'direct-reports', f'transaction {rid} (direct): reports {[ST[s] for s in sts]}, handler outcome {ex[0]}'
            if rst != want_final:
                return 'direct-response-state', (f'transaction {rid} (direct processing): the response says {ST[rst]}, the '
                                                 f'OperationInvokedReport says {ST[sts[0]]}')
        else:
            if (rst, rerr, rmsg) != (WAIT, 0, 0):
                return 'queued-response', f'transaction {rid} (queued): response {resp}'
            if sts != [WAIT, START, want_final]:
                return 'queued-reports', f'transaction {rid} (queued): reports {[ST[s] for s in sts]}, handler outcome {ex[0]}'
            accepted += 1
            entered = min(accepted, released + 1)
        if not legal_word(collapse(([rst] + sts) if mode == 'queued' else (sts + [rst]))):
            return 'illegal-sequence', f'transaction {rid}: states {[ST[s] for s in [rst] + sts]}'
        last = mine[-1]
        if raised and (last[2], last[3]) != (4, 1):
            return 'raise-without-error', f'transaction {rid}: handler raised, final report part {last}'
        if not raised and ((last[2], last[3]) != (0, 0) or last[5] != 1):
            return 'final-part', f'transaction {rid}: final report part {last}'
        if any(p[2] or p[3] or p[5] for p in mine[:-1]):
            return 'progress-part', f'transaction {rid}: Wait/Start part with error or target {mine}'
        # end to end: the result handle of the consumer that called
        if rst not in COMPLETING:
            pos = max(j for j, p in enumerate(parts) if p[0] == rid)          # the final report is the n-th part sent
            cum, e_final = 0, None
            for e_i, n_e in enumerate(tr['pcounts']):
                cum += n_e
                if cum > pos:
                    e_final = e_i
                    break
            seen = dict(tr.get('done_at', []))
            if i in seen and e_final is not None and seen[i] < e_final:
                f0 = fut.get(i)
                return 'result-before-final-report', (f'transaction {rid}: the result handle was complete after step {seen[i]}, the final '
                                                      f'report was sent in step {e_final}; it carries {ST[f0[3]] if f0 and f0[2] == "done" else "?"} '
                                                      f'and parts {f0[5] if f0 and f0[2] == "done" else "?"} - not of this invocation')
        f = fut.get(i)
        if not f or f[2] != 'done':
            return 'consumer-result', f'transaction {rid}: result handle {f}'
        if f[3] != want_final:
            return 'consumer-result', f'transaction {rid}: result handle says {ST[f[3]]}, final state {ST[want_final]}'
        if f[5] != sts:
            if rst in COMPLETING:
                return 'failed-response-drops-parts', (f'transaction {rid}: response {ST[rst]}; the report part received before '
                                                       f'it is missing in the result ({f[5]})')
            return 'consumer-result', f'transaction {rid}: result parts {f[5]}, reported {sts}'
    return None


# =============================================================================== concurrent stream
def gen_conc_round(rng, nthreads, ncalls):
    rnd = []
    kinds = rng.sample(range(7), nthreads)
    for t in range(nthreads):
        calls = []
        for _ in range(ncalls):
            known = rng.random() < 0.85
            mode = 'queued' if rng.random() < 0.55 else 'direct'
            plan = 'raise' if rng.random() < 0.2 else ['ret', rng.choice([FIN, FAIL, FINMOD, CNC])]
            calls.append([kinds[t], known, mode, plan, rng.randrange(6)])
        rnd.append(calls)
    return rnd


def oracle_conc(rnd, tr):
    if any(tr['alive']) or tr['errors']:
        return 'harness', f'threads alive {tr["alive"]}, errors {tr["errors"]}'
    lt = tr['lock_trace']
    ncalls = sum(len(c) for c in rnd)
    if lt['unlocked']:
        return 'txid-without-lock', f'{lt["unlocked"]} of {lt["accesses"]} accesses to _transaction_id without _transaction_id_lock'
    if lt['accesses'] < 2 * ncalls:
        return 'harness', f'lock trace saw {lt["accesses"]} accesses for {ncalls} calls'
    ids = []
    for ci, recs in enumerate(tr['results']):
        prev = None
        for rec in recs:
            if not rec.get('done'):
                return 'consumer-result', f'consumer {ci}: call did not complete: {rec}'
            if rec['id'] != rec['resp_id']:
                return 'transaction-id', f'consumer {ci}: result for another transaction {rec}'
            if prev is not None and rec['resp_id'] <= prev:
                return 'transaction-id', f'consumer {ci}: ids not increasing: {prev} then {rec["resp_id"]}'
            prev = rec['resp_id']
            ids.append(rec['resp_id'])
    if len(set(ids)) != len(ids):
        return 'transaction-id', f'duplicate transaction ids {sorted(ids)}'
    if sorted(ids) != list(range(tr['first_id'] + 1, tr['first_id'] + 1 + ncalls)):
        return 'transaction-id', f'ids {sorted(ids)} are not the {ncalls} numbers after {tr["first_id"]}'
    parts = [p for rep in tr['reports'][0] for p in rep]
    for other in tr['reports'][1:]:
        # reports of different transactions are sent by different threads: only the order per transaction is common
        po = [p for rep in other for p in rep]
        if sorted(po) != sorted(parts) or any([p for p in po if p[0] == t] != [p for p in parts if p[0] == t] for t in ids):
            return 'subscribers-differ', 'two subscribers received different OperationInvokedReport sequences for one transaction'
    for ci, recs in enumerate(tr['results']):
        for rec in recs:
            sts = [p[1] for p in parts if p[0] == rec['id']]
            raised = rec['plan'] == 'raise'
            want = FAIL if raised else rec['plan'][1]
            if not rec['known']:
                if sts or rec['resp'] != FAIL or rec['state'] != FAIL:
                    return 'unknown-operation', f'{rec} reports {sts}'
                continue
            seq = ([rec['resp']] + sts) if rec['mode'] == 'queued' else (sts + [rec['resp']])
            if not legal_word(collapse(seq)) or sts[-1:] != [want]:
                if rec['mode'] == 'direct' and sts == [want] and rec['resp'] != want:
                    return 'direct-response-state', f'direct processing: response {ST[rec["resp"]]}, report {ST[want]}'
                return 'illegal-sequence', f'transaction {rec["id"]}: response {ST[rec["resp"]]}, reports {[ST[s] for s in sts]}'
            if rec['state'] != want:
                return 'consumer-result', f'transaction {rec["id"]}: result {ST[rec["state"]]}, final state {ST[want]}'
            if rec['parts'] != sts:
                if rec['resp'] in COMPLETING:
                    if rec['parts'] not in ([], sts):
                        return 'consumer-result', f'transaction {rec["id"]}: result parts {rec["parts"]}'
                    continue     # whether the report overtook the response is up to the scheduler here
                return 'missing-parts', f'transaction {rec["id"]}: result parts {rec["parts"]}, reported {sts}'
    return None


def conc_model_case(rnd, tr):
    """requests in the order of their ids, each followed by a worker step -> model input / expected literal"""
    recs = sorted((rec for recs in tr['results'] for rec in recs), key=lambda r: r['resp_id'])
    hops, resps = [], []
    for rec in recs:
        out = 'Raises' if rec['plan'] == 'raise' else f'(Returns {ST[rec["plan"][1]]})'
        hops.append(f'HReq (mkReq {"true" if rec["known"] else "false"} {"true" if rec["mode"] == "direct" else "false"} '
                    f'{out} 0 {rec["kind"]})')
        hops.append('HFinish')
    parts = [p for rep in tr['reports'][0] for p in rep]
    grouped = [p for rec in recs for p in parts if p[0] == rec['resp_id']]
    wire = sorted((w[1] for w in tr['wire']), key=lambda r: r[1] if len(r) > 1 else -1)
    return f'(({tr["first_id"]})%Z, 0, [' + '; '.join(hops) + '])', f'({typed(wire, ZLL)}, {typed(grouped, ZLL)})'


# =============================================================================== run
def run(ctx):
    ctx.regenerate('gen_invocation_consts', 'Invocation/Gen_Consts.v')
    gen = ctx.impl('gen_invocation_consts', {})
    cap = gen.get('recent_cap', 50)
    qcap = gen.get('queue_cap', 10)
    proof_ok = ctx.prove()
    if not proof_ok:
        ctx.broken('theorem', 'Props/C09.v', ctx.proof_error)
    rng = ctx.rng

    # ---------------------------------------------------------------- consumer
    ccases = gen_cons_exhaustive(rng, PINNED_CAP, loads=(0, 2, PINNED_CAP - 4) if not ctx.thorough else (0, 1, 3, 7, PINNED_CAP - 4, PINNED_CAP - 1))
    ccases += gen_cons_boundary(rng, PINNED_CAP)
    ccases += [gen_cons_random(rng, 4) for _ in range(ctx.n(400, 4000))]
    ccases += [gen_cons_malformed(rng) for _ in range(ctx.n(250, 2500))]
    # ---------------------------------------------------------------- provider
    classes = ['seq'] * ctx.n(60, 500) + ['interleaved'] * ctx.n(60, 600) + ['burst'] * ctx.n(5, 40)
    pcases = [gen_prov_case(rng, c, qcap) for c in classes]
    # device reboots: ids start again while the consumers have seen the old transactions 1..n (their own and each other's);
    # after restart() the same ids are used by new invocations with other final states, one of them held back at the gate
    nrb = ctx.n(2, 6)
    pre, classes_pre = [], []
    for k in range(nrb):
        first = FIN if k % 2 == 0 else FAIL
        second = FINMOD if k % 2 == 0 else CNC
        if k == 0:
            pre.append([x for j in range(4) for x in (['req', (j + 1) % 2, rng.randrange(7), True, 'queued', ['ret', first], 0], ['finish'])])
            classes_pre.append('before-reboot')
        pre.append('reboot')
        kind = rng.randrange(7)
        pre.append([['req', 0, kind, True, 'queued', ['ret', second], 1],
                    ['req', 1, rng.randrange(7), True, 'direct', ['ret', second], 1],
                    ['req', 1, (kind + 1) % 7, True, 'queued', ['ret', second], 2],
                    ['finish'], ['finish'],
                    ['req', 0, rng.randrange(7), True, 'direct', ['ret', first if first != FIN else FINMOD], 3],
                    ['req', 1, rng.randrange(7), True, 'queued', 'raise', 3], ['finish']])
        classes_pre.append('after-reboot')
    pcases = pre + pcases
    classes = classes_pre + classes
    conc = {'rounds': [gen_conc_round(rng, rng.randint(3, 5), rng.randint(4, 7)) for _ in range(ctx.n(3, 14))]}

    scen = gen_sched_scenarios(rng, ctx.thorough)
    impl = ctx.impl('c09_impl', {'cons': [c['events'] for c in ccases], 'prov': pcases, 'conc': conc,
                                 'sched': {'limit': ctx.n(300, 3000),
                                           'scenarios': [{'calls': sc['calls'], 'reports': sc['reports']} for sc in scen]}},
                    timeout=ctx.n(400, 3000))
    ctx.log(f'implementation run finished at {time.time() - ctx.t0:.1f}s')
    if impl.get('_crash'):
        ctx.broken('correspondence', 'implementation run', impl['stderr'])
        return ctx.finish('implementation run crashed', [], [])

    # consumer: oracle + correspondence
    hist = {}
    for c, ob in zip(ccases, impl['cons']):
        key = f'{c["class"]}:{c["shape"]}'
        hist[key] = hist.get(key, 0) + 1
        bad = oracle_cons(c, ob, PINNED_CAP)
        if bad:
            clause, why = bad
            ctx.fail(f'consumer stream: {why}', {'stream': 'cons', 'clause': clause},
                     {'stream': 'cons', 'case': {'events': c['events'], 'txs': c['txs']}, 'impl_trace': ob,
                      'oracle': {'verdict': 'fail', 'clause': clause, 'why': why}})
    lits = [(lit_cons(c['events']), lit_cons_obs(ob)) for c, ob in zip(ccases, impl['cons'])]
    mism, err = ctx.coq_mism('cons', HEADER, 'cons_eqb', 'run_cons', lits, shard=150, deps=DEPS)
    if err:
        ctx.broken('correspondence', 'cons (coq evaluation)', err)
    if mism:
        i = mism[0]
        model = ctx.coq_eval(HEADER, f'run_cons {lits[i][0]}')
        ctx.broken('correspondence', 'cons', {'disagreements': len(mism), 'first_case': ccases[i]['events'],
                                              'impl_trace': impl['cons'][i], 'model_trace': model[-2500:]})
    ctx.log(f'consumer stream compared at {time.time() - ctx.t0:.1f}s')
    overflow = sum(1 for c, ob in zip(ccases, impl['cons']) if c['txs'] and any(p for p in ob['pend']))
    hist['left_pending_beyond_bound'] = overflow
    hist['report_before_response'] = sum(1 for c in ccases if c['txs'] and c['events'] and c['events'][0][0] == 'rep')
    ctx.count('cons', len(ccases), [json.dumps(ob, sort_keys=True) for ob in impl['cons']], histogram=hist)
    ctx.sample({'stream': 'cons', 'events': ccases[3]['events'], 'observed': impl['cons'][3]})

    # schedules: every interleaving of the calling thread(s) with the notification thread at the granularity of lock
    # acquisitions and accesses to buffer / table; each run is judged by the same oracle on the sequence of its critical
    # sections, and compared with the model run on that sequence (the model's atomic steps ARE the critical sections)
    shist = {'scenarios': len(scen), 'schedules': 0, 'exploration_cut': 0, 'accesses_without_lock': 0,
             'report_section_before_response': 0, 'max_schedules_per_scenario': 0}
    slits, sruns = [], []
    for sc, res in zip(scen, impl['sched']):
        shist['schedules'] += len(res['runs'])
        shist['exploration_cut'] += not res['complete']
        shist['max_schedules_per_scenario'] = max(shist['max_schedules_per_scenario'], len(res['runs']))
        for r in res['runs']:
            lin = linearise(r['order'])
            shist['accesses_without_lock'] += len(r['unlocked'])
            shist['report_section_before_response'] += bool(lin and lin[0][0] == 'rep')
            bad = oracle_cons({'events': lin, 'txs': sc['txs']}, r['obs'], PINNED_CAP)
            if bad:
                clause, why = bad
                ctx.fail(f'schedule stream ({sc["shape"]}): {why}; schedule {r["choices"]}: {" ".join(r["trace"])[:600]}',
                         {'stream': 'sched', 'clause': clause},
                         {'stream': 'sched', 'case': {'calls': sc['calls'], 'reports': sc['reports'], 'choices': r['choices'],
                                                      'txs': sc['txs']},
                          'impl_trace': r, 'critical_sections': lin,
                          'oracle': {'verdict': 'fail', 'clause': clause, 'why': why}})
            slits.append((lit_cons(lin), lit_cons_obs(r['obs'])))
            sruns.append((sc, r, lin))
    mism, err = ctx.coq_mism('sched', HEADER, 'cons_eqb', 'run_cons', slits, shard=200, deps=DEPS)
    if err:
        ctx.broken('correspondence', 'sched (coq evaluation)', err)
    if mism:
        sc, r, lin = sruns[mism[0]]
        model = ctx.coq_eval(HEADER, f'run_cons {slits[mism[0]][0]}')
        ctx.broken('correspondence', 'sched', {'disagreements': len(mism), 'scenario': {'calls': sc['calls'], 'reports': sc['reports']},
                                               'schedule': r['choices'], 'trace': r['trace'], 'critical_sections': lin,
                                               'impl_trace': r['obs'], 'model_trace': model[-2000:]})
    ctx.count('sched', len(slits), [json.dumps([lin, r['obs']], sort_keys=True) for _, r, lin in sruns], histogram=shist)
    if sruns:
        ctx.sample({'stream': 'sched', 'calls': sruns[1][0]['calls'], 'reports': sruns[1][0]['reports'],
                    'schedule': sruns[1][1]['trace'], 'observed': sruns[1][1]['obs']})
    ctx.log(f'schedule stream compared at {time.time() - ctx.t0:.1f}s')

    # provider: oracle + correspondence
    traces = impl['prov']['traces']
    qcap_impl = impl['prov']['queue_cap']
    if len(traces) != len([c for c in pcases if c != 'reboot']):
        ctx.broken('correspondence', 'prov', f'the run stopped after {len(traces)} of {len(pcases)} cases: '
                                             f'{traces[-1]["aborted"] if traces else "?"}')
    phist = {'reboots_with_restart': len(impl['prov'].get('reboots', [])),
             'restarts_with_new_manager': sum(c['new_manager'] for rb in impl['prov'].get('reboots', []) for c in rb['consumers']),
             'requests': 0, 'direct': 0, 'queued': 0, 'unknown': 0, 'raise': 0, 'returns_fail': 0, 'real_handler': 0,
             'faults_queue_full': 0, 'finish_ops': 0}
    for k in KINDS:
        phist['kind_' + k] = 0
    for cls, tr in zip(classes, traces):
        for ev in tr['events']:
            if ev[0] == 'finish':
                phist['finish_ops'] += 1
                continue
            phist['requests'] += 1
            phist['kind_' + KINDS[ev[2]]] += 1
            phist['unknown'] += not ev[3]
            phist[ev[4]] += 1
            phist['real_handler'] += ev[5] == 'real'
            if ev[7]:
                phist['raise'] += ev[7][0] == 'raise'
                phist['returns_fail'] += ev[7][0] != 'raise' and ev[7][0][1] == FAIL
        phist['faults_queue_full'] += sum(1 for r in tr['resps'] if r == [0])
        bad = oracle_prov(tr, qcap_impl)
        if bad:
            clause, why = bad
            if clause == 'harness':
                ctx.broken('correspondence', 'prov (stepping the worker)', why)
                continue
            ctx.fail(f'provider stream ({cls}): {why}', {'stream': 'prov', 'clause': clause},
                     {'stream': 'prov', 'case': {'ops': [e[:7] for e in tr['events']]}, 'impl_trace': tr,
                      'oracle': {'verdict': 'fail', 'clause': clause, 'why': why}})
    plits = [(lit_prov_case(tr), lit_prov_obs(tr)) for tr in traces]
    mism, err = ctx.coq_mism('prov', HEADER, 'prov2_eqb', 'run_prov2', [(a, f'({b}, true)') for a, b in plits],
                             shard=60, deps=DEPS)
    if err:
        ctx.broken('correspondence', 'prov (coq evaluation)', err)
    if mism:
        # which half disagrees: the observation (correspondence) or the boolean twin of the theorem (model-level witness)
        sub = [plits[i] for i in mism]
        obs_mism, err2 = ctx.coq_mism('prov_obs', HEADER, 'prov_eqb', 'run_prov', sub, shard=60, deps=DEPS)
        if err2:
            ctx.broken('correspondence', 'prov (coq evaluation)', err2)
        if len(obs_mism) < len(mism):
            j = [i for k, i in enumerate(mism) if k not in obs_mism][0]
            ctx.broken('theorem', 'check_prov (boolean twin of C09_legal_sequence) is false on the model',
                       {'cases': len(mism) - len(obs_mism), 'first_case': [e[:7] for e in traces[j]['events']]})
        if obs_mism:
            i = mism[obs_mism[0]]
            model = ctx.coq_eval(HEADER, f'run_prov {plits[i][0]}')
            ctx.broken('correspondence', 'prov', {'disagreements': len(obs_mism), 'first_case': [e[:7] for e in traces[i]['events']],
                                                  'impl_trace': {k: traces[i][k] for k in ('first_id', 'mv0', 'events', 'resps', 'reports', 'versions', 'pcounts')},
                                                  'model_trace': model[-2500:]})
    ctx.log(f'provider stream compared at {time.time() - ctx.t0:.1f}s')
    ctx.count('prov', len(traces), [json.dumps([t['events'], t['resps'], t['reports']]) for t in traces], histogram=phist)
    if traces:
        ctx.sample({'stream': 'prov', 'ops': [e[:7] for e in traces[0]['events']], 'responses': traces[0]['resps'],
                    'reports': traces[0]['reports'], 'result_handles': traces[0]['futures']})

    # concurrent consumers
    chist = {'rounds': 0, 'threads': 0, 'calls': 0, 'lock_checked_accesses': 0}
    clits = []
    for rnd, tr in zip(conc['rounds'], impl['conc']):
        chist['rounds'] += 1
        chist['threads'] += len(rnd)
        chist['calls'] += sum(len(c) for c in rnd)
        chist['lock_checked_accesses'] += tr['lock_trace']['accesses']
        bad = oracle_conc(rnd, tr)
        if bad:
            clause, why = bad
            if clause == 'harness':
                ctx.broken('correspondence', 'conc (threads)', why)
                continue
            ctx.fail(f'concurrent stream: {why}', {'stream': 'conc', 'clause': clause},
                     {'stream': 'conc', 'case': {'round': rnd}, 'impl_trace': tr,
                      'oracle': {'verdict': 'fail', 'clause': clause, 'why': why}})
            continue
        clits.append(conc_model_case(rnd, tr))
    if clits:
        mism, err = ctx.coq_mism('conc', HEADER, 'lite_eqb', 'run_prov_lite', clits, shard=10, deps=DEPS)
        if err:
            ctx.broken('correspondence', 'conc (coq evaluation)', err)
        if mism:
            ctx.broken('correspondence', 'conc', {'disagreements': len(mism), 'first_case': clits[mism[0]][0][:1500],
                                                  'impl': clits[mism[0]][1][:1500]})
    ctx.count('conc', len(impl['conc']), [json.dumps(t['results']) for t in impl['conc']], histogram=chist)

    if ctx.thorough:
        hits = ctx.gate_grep(['Invocation', 'Common'])
        if hits:
            ctx.broken('theorem', 'grep gate', hits)
        ctx.coqchk('SDC.Props.C09')
    return ctx.finish(
        rule='provider: request / finish schedules (sequential, interleaved, bursts beyond the queue length) for all seven request '
             'kinds through the real service clients, direct and queued, real role-provider handlers and handlers forced to return '
             'each final state or to raise, unknown handles; the responses, every OperationInvokedReport part (from the wire log), '
             'MdibVersion and the number of parts after every step are compared with the model (vm_compute) and judged by the '
             'oracle.  consumer: the real OperationsManager driven with real parsed messages in every position of the response '
             'among the 1-3 reports of every legal shape, with foreign parts up to and beyond the buffer bound, random '
             'multi-transaction interleavings and malformed sequences; completions, pending table and buffer compared with the '
             'model.  concurrent: 3-5 consumer threads, ids / lock discipline / per-transaction legality by the oracle, outputs '
             'compared with the model in id order.  schedules: call_operation and on_operation_invoked_report in real threads '
             'under an explicit scheduler (hooked lock, buffer and table) that enumerates every interleaving at the granularity of '
             'lock acquisitions and shared-state accesses, for every legal shape and every grouping of its parts into report '
             'messages; each schedule judged by the oracle on, and compared with the model run on, the sequence of its critical '
             'sections.  distinct = distinct implementation traces',
        assumptions=['handlers return a final state (ExecuteResult contract) - other outcomes are only exercised in the model',
                     'the caller keeps the result handle alive (the manager holds a weak reference)',
                     'reports of one transaction reach a subscriber in the order they were sent (one worker thread, synchronous '
                     'delivery); only the position of the response among them varies',
                     'a request that finds the queue full is refused, never answered Wait and forgotten (translator probe of '
                     'handle_operation_request on a full queue -> sco_full_queue_loses_wait, part of gen_ok; the stepping harness counts '
                     'real enqueues with queue.unfinished_tasks, not responses); '
                     'a request is refused with a SOAP fault when the worker queue holds sco_queue_cap operations for the whole '
                     'put timeout (C09_refused_only_when_full); the harness lets that timeout elapse at once',
                     'one model step = one critical section under _transactions_lock: checked by the translator (every buffer / '
                     'table access with the lock held -> consumer_state_under_lock, part of gen_ok) and by the schedule stream',
                     'at most recent_cap report parts arrive between the first report of a transaction and its response '
                     '(C09_overflow_refuted shows the bound is sharp)'],
        trusted_base=['translator harness/impl/gen_invocation_consts.py (live objects, probes of handle_operation_request and '
                      'call_operation with stubs, syntax tree of generate_transaction_id)',
                      'correspondence harness harness/impl/c09_impl.py + c09_lib.py (handler wrapper with a gate, notification '
                      'counter around the worker\'s set service, wire-log parser; queue.put timeout elapses at once)',
                      'harness/world.py loop-back transport',
                      'model evaluated inside Coq with vm_compute on generated case files'],
        not_modelled=['OperationDefinitionBase.check_timeout / timeout handlers (switched off while stepping the worker)',
                      'weak reference to the result handle ("client gave up")',
                      'SOAP fault details of a refused request',
                      'reordering of the reports of one transaction among themselves'])


def replay(ctx, rep):
    stream = rep.get('stream')
    if stream == 'cons':
        ev = rep['case']['events']
        impl = ctx.impl('c09_impl', {'cons': [ev]})
        print('implementation:', json.dumps(impl.get('cons', impl)))
        print('model:', ctx.coq_eval(HEADER, f'run_cons {lit_cons(ev)}')[-2000:])
    elif stream == 'sched':
        c = rep['case']
        impl = ctx.impl('c09_impl', {'sched': {'limit': 3000, 'scenarios': [{'calls': c['calls'], 'reports': c['reports']}]}})
        runs = impl['sched'][0]['runs']
        hit = [r for r in runs if r['choices'] == c['choices']] or runs[:1]
        for r in hit:
            lin = linearise(r['order'])
            print('schedule:', r['choices'], ' '.join(r['trace']))
            print('implementation:', json.dumps(r['obs']))
            print('model on the critical sections:', ctx.coq_eval(HEADER, f'run_cons {lit_cons(lin)}')[-1500:])
            print('oracle:', oracle_cons({'events': lin, 'txs': {int(k): tuple(v) for k, v in c['txs'].items()}}, r['obs'], 50))
    elif stream == 'prov':
        impl = ctx.impl('c09_impl', {'prov': [rep['case']['ops']]})
        print('implementation:', json.dumps(impl.get('prov', impl))[:6000])
        tr = impl['prov']['traces'][0]
        print('model:', ctx.coq_eval(HEADER, f'run_prov {lit_prov_case(tr)}')[-2500:])
        print('oracle:', oracle_prov(tr, impl['prov']['queue_cap']))
    else:
        print(json.dumps(rep, indent=1)[:5000])
    return 0
