"""C02 - MDIB version counters are monotonic, gap-free and referentially consistent."""
import mdibcheck
import mdibgen

FILES = ('70041_MDIB_Final.xml', 'mdib_two_mds.xml')


def run(ctx):
    if not ctx.prove():
        ctx.broken('theorem', 'Props/C02.v', ctx.proof_error)
    # stream `versions`: biased to several operations on related objects inside one transaction
    pairs = mdibcheck.run_histories(ctx, 'versions', ctx.n(72, 900), ctx.n(10, 40), consumer=False,
                                    weights={'state': 4, 'ctx': 2, 'location': 1, 'descr': 6, 'reject': 1, 'abort': 1,
                                             'delstate': 1},
                                    iface_mix=0.45, mdib_files=FILES)
    nfail = mdibcheck.judge(ctx, 'versions', pairs, [mdibgen.oracle_provider], {'C02'})
    mism = mdibcheck.model_correspondence(ctx, 'versions', pairs, FILES)
    if mism and not nfail:
        # search: more histories of the same mix, judged by the oracle only
        more = mdibcheck.run_histories(ctx, 'versions-search', ctx.n(150, 600), ctx.n(12, 40), consumer=False,
                                       weights={'state': 3, 'ctx': 2, 'location': 1, 'descr': 8, 'reject': 1, 'abort': 1},
                                       iface_mix=0.45, mdib_files=FILES)
        mdibcheck.judge(ctx, 'versions-search', more, [mdibgen.oracle_provider], {'C02'})
    ctx.count('versions', len(pairs), [repr(r['trace']) for _, r in pairs], histogram=mdibcheck.op_histogram(pairs))
    if pairs:
        c, r = pairs[0]
        ctx.sample({'stream': 'versions', 'ops': c['ops'][:4], 'first_steps': [
            {'res': s['res'], 'ver': s['prov']['ver'], 'states': s['prov']['states']['set'][:3],
             'descrs': s['prov']['descrs']['set'][:3]} for s in r['trace'][:4]]})
    if ctx.thorough:
        hits = ctx.gate_grep(['Mdib', 'Common'])
        if hits:
            ctx.broken('theorem', 'grep gate', hits)
        ctx.coqchk('SDC.Props.C02')
    return ctx.finish(
        rule='histories also contain empty transactions of every kind (empty body, get_state + unget_state, every call refused), API calls that are refused and handled inside the body (the refused statement must leave nothing of itself), re-creation of context state handles through add_state, reseq operations that change only the InstanceId, and the same transaction on the same handle set repeated; '
             'crafted scenario histories (several delete / re-create cycles of one descriptor / context state handle with '
             'updates in between, entities read early and written after other commits on the same object through state, '
             'context and descriptor transactions, aborted re-creations, root descriptors, context descriptors with several '
             'states) followed by random tails, plus random transaction histories (state / context / location / descriptor '
             'transactions through the classic and the entity interface, several operations on related objects in one '
             'transaction in both orders, delete + re-create, rejected calls, aborts) on a real ProviderMdib (single- and '
             'two-MDS file); after every transaction the changed entries of the three tables and MdibVersion are compared '
             'with the Coq model and judged by the oracle (gap-free MdibVersion, no version decrease incl. across '
             'delete/re-create, content change => version increase, state<->descriptor consistency, parents exist, the '
             'remembered versions of removed handles are never forgotten, never lower, and equal the version at removal); distinct = distinct implementation traces',
        assumptions=['payloads are opaque tokens (hash of the semantic value without version / association attributes)',
                     'the tutorial role providers\' commit hooks are detached (library semantics only)',
                     'single writer (exclusion of concurrent writers is C04/C07)'],
        trusted_base=['harness/mdibrun.py canonical snapshots, harness/mdibmodel.py translation of traces into model terms',
                      'model evaluated inside Coq with vm_compute'],
        not_modelled=['theorems cover MdibVersion for every transaction kind and the version counters / referential '
                      'consistency for state transactions; for context and descriptor transactions these are decided by '
                      'the model correspondence and the oracle (no theorem yet)'])
