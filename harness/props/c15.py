"""C15 - UDP retransmission envelope + own message ids ignored (DESIGN.md section 4, C15)."""
import json
import subprocess

from lib import NAT, Raw, coqlit

HEADER = ('From Coq Require Import List ZArith Bool.\nImport ListNotations.\n'
          'From SDC Require Import Wsd.Udp.\nOpen Scope Z_scope.')


def oracle_envelope(params, line):
    """Direct transcription of the Coq statement [envelope] on one implementation trace."""
    init, repeat, mn, mx, upper = params
    head, tail = line.split('|')
    d0, g = (int(x) for x in head.split())
    ents = [tuple(int(y) for y in e.split(':')) for e in tail.split()]
    ts = [e[0] for e in ents]
    if len(ts) != 1 + repeat:
        return f'{len(ts)} transmissions instead of {1 + repeat}'
    if [e[1] for e in ents] != list(range(1, repeat + 2)):
        return 'repeat counters are not 1..repeat+1'
    if not (0 <= ts[0] <= init * 1000):
        return f'first transmission delayed by {ts[0]} us > {init} ms'
    gaps = [b - a for a, b in zip(ts, ts[1:])]
    if gaps and not (mn * 1000 <= gaps[0] < mx * 1000):
        return f'first gap {gaps[0]} us outside [{mn},{mx}) ms'
    for k in range(len(gaps) - 1):
        want = min(2 * gaps[k], upper * 1000)
        if gaps[k + 1] != want:
            return f'gap {k + 2} is {gaps[k + 1]} us, expected min(2*{gaps[k]}, {upper * 1000}) = {want}'
    if any(x > upper * 1000 for x in gaps):
        return 'a gap exceeds the upper delay'
    return None


def gen_dedup(rng, n, cap_choices):
    cases = []
    for _ in range(n):
        cap = rng.choice(cap_choices)
        ids = list(range(1, rng.randint(2, cap + 4)))
        evs = []
        for _ in range(rng.randint(3, 3 * cap + 6)):
            evs.append([rng.choice(['out', 'in', 'in']), rng.choice(ids)])
        cases.append((cap, evs))
    return cases


def run(ctx):
    ctx.regenerate('gen_wsd_params', 'Wsd/Gen_Params.v')
    proof_ok = ctx.prove()
    if not proof_ok:
        ctx.broken('theorem', 'Props/C15.v', ctx.proof_error)

    # ---------------------------------------------------------------- stream 1: exhaustive schedule grid
    dd_cases = gen_dedup(ctx.rng, ctx.n(60, 600), [1, 2, 3, 5])
    # group dedup cases per cap (one impl call each)
    impl = ctx.impl('c15_impl', {'cap': 3, 'dedup': []})
    if impl.get('_crash'):
        ctx.broken('correspondence', 'schedule-grid', impl['stderr'])
        return ctx.finish('implementation run crashed', [], [])
    exe, log = ctx.ocaml_driver('Extract/Extract_Wsd_Udp.v', 'wsd_udp_model', 'driver_c15')
    if exe is None:
        ctx.broken('correspondence', 'extraction/driver build', log[-1500:])
    n_bad_model = 0
    for name in ('unicast', 'multicast'):
        r = impl[name]
        lines = r['lines']
        if not r['draws_ok']:
            ctx.broken('correspondence', f'{name}: random draws', 'the code no longer draws randint(0, init) and '
                       'randrange(min, max) exactly once each, in this order')
        # oracle on every implementation trace
        first_fail = None
        nfail = 0
        for ln in lines:
            why = oracle_envelope(r['params'], ln)
            if why:
                nfail += 1
                if first_fail is None:
                    first_fail = (ln, why)
        if first_fail:
            ln, why = first_fail
            ctx.fail(f'{name} schedule violates the envelope for {nfail} of {len(lines)} draws; first: {ln!r}: {why}',
                     {'stream': 'schedule', 'params': name, 'clause': why.split(' ')[0]},
                     {'stream': f'schedule-{name}', 'case': {'params': r['params'], 'draws': ln.split('|')[0].split()},
                      'impl_trace': ln, 'oracle': {'verdict': 'fail', 'clause': why}})
        # model on the same grid (extracted OCaml)
        if exe:
            out = subprocess.run([exe] + [str(x) for x in r['params']], capture_output=True, text=True, timeout=300)
            mlines = out.stdout.splitlines()
            model = [m.rsplit(' ', 1)[0] for m in mlines]
            n_bad_model += sum(1 for m in mlines if m.endswith('BAD'))
            diffs = [i for i, (a, b) in enumerate(zip(lines, model)) if a.strip() != b.strip()]
            if len(lines) != len(model):
                diffs = diffs or [min(len(lines), len(model))]
            if diffs:
                i = diffs[0]
                ctx.broken('correspondence', f'schedule-{name}',
                           {'disagreements': len(diffs), 'first': {'impl': lines[i] if i < len(lines) else None,
                                                                   'model': model[i] if i < len(model) else None}})
            ctx.count(f'schedule-{name}', len(lines), lines, exhaustive=True, params=r['params'])
            ctx.sample({'stream': f'schedule-{name}', 'draws+queue(us:repeat)': lines[len(lines) // 2]})
    if n_bad_model:
        ctx.broken('theorem', 'check_envelope twin', f'model violates the envelope on {n_bad_model} draws of the grid')
    if not impl.get('dropped_when_stopped'):
        ctx.broken('correspondence', 'stopped-sender', 'a message was queued although the sender is stopped')

    # ---------------------------------------------------------------- stream 2: known message ids
    by_cap = {}
    for cap, evs in dd_cases:
        by_cap.setdefault(cap, []).append(evs)
    # one long run with the real capacity (read by the translator) crossing the eviction boundary
    gp = (ctx.cov.get('generated') and (open('/verif/coq/Wsd/Gen_Params.v').read())) or ''
    import re
    m = re.search(r'known_ids_cap : nat := (\d+)%nat', gp)
    real_cap = int(m.group(1)) if m else 200
    long_evs = [['out', 1]] + [['in', 1000 + i] for i in range(real_cap - 1)] + [['in', 1]] + \
               [['in', 5000]] + [['in', 1]] + [['in', 1000]]
    by_cap.setdefault(real_cap, []).append(long_evs)
    cases = []
    n_evict = 0
    for cap, evl in by_cap.items():
        r = ctx.impl('c15_impl', {'cap': cap, 'dedup': evl})
        if r.get('_crash'):
            ctx.broken('correspondence', 'dedup', r['stderr'])
            continue
        for evs, res in zip(evl, r['dedup']):
            inp = (NAT(cap), [Raw(f'(Ev{"Out" if k == "out" else "In"} {i})') for k, i in evs])
            exp = (res['mem'], res['acted'])
            cases.append((coqlit(inp), coqlit(exp), cap, evs, res))
            # oracle: an id is never acted on while it is in the memory (own ids included)
            mem = []
            for (k, i), acted in zip(evs, res['acted']):
                if acted and i in mem:
                    ctx.fail(f'message id {i} acted on although remembered (cap={cap})',
                             {'stream': 'dedup', 'clause': 'acted-while-known'},
                             {'stream': 'dedup', 'case': {'cap': cap, 'events': evs}, 'impl_trace': res})
                    break
                if k == 'in' and not acted and i not in mem:
                    ctx.fail(f'new message id {i} was not handed to the discovery handler (cap={cap})',
                             {'stream': 'dedup', 'clause': 'new-id-dropped'},
                             {'stream': 'dedup', 'case': {'cap': cap, 'events': evs}, 'impl_trace': res})
                    break
                if k == 'out' or acted:
                    mem = ([i] + mem)[:cap]
                    if len(mem) == cap:
                        n_evict += 1
    mism, err = ctx.coq_mism('dedup', HEADER,
                             'prod_eqb zl_eqb (list_eqb Bool.eqb)',
                             'fun c => drun (fst c) [] (snd c)',
                             [(a, b) for a, b, *_ in cases])
    if err:
        ctx.broken('correspondence', 'dedup (coq evaluation)', err)
    for i in mism[:1]:
        _, _, cap, evs, res = cases[i]
        ctx.broken('correspondence', 'dedup', {'disagreements': len(mism), 'first': {'cap': cap, 'events': evs, 'impl': res}})
    ctx.count('dedup', len(cases), [(c[2], tuple(map(tuple, c[3]))) for c in cases], at_capacity_steps=n_evict)
    ctx.sample({'stream': 'dedup', 'cap': cases[0][2], 'events': cases[0][3], 'impl': cases[0][4]} if cases else None)

    # ---------------------------------------------------------------- stream 3: the send loop (actual transmissions)
    # the real _run_send on a virtual clock; several messages in flight, enqueued at different times
    sl_cases = []
    for _ in range(ctx.n(120, 1500)):
        k = ctx.rng.choice([1, 2, 2, 3, 4])
        inj = []
        for j in range(k):
            pname = ctx.rng.choice(['UNICAST_REPEAT_PARAMS', 'MULTICAST_REPEAT_PARAMS'])
            P = impl['unicast' if pname.startswith('UNI') else 'multicast']['params']
            inj.append({'id': f'm{j}', 'params': pname, 'at_ms': 0 if j == 0 else ctx.rng.choice([0, 5, 37, 120, 333, 800, 1500]),
                        'd0': ctx.rng.randint(0, P[0]), 'g': ctx.rng.randint(P[2], P[3] - 1)})
        sl_cases.append(inj)
    r = ctx.impl('c15_impl', {'cap': 3, 'dedup': [], 'sendloop': sl_cases})
    if r.get('_crash'):
        ctx.broken('correspondence', 'sendloop', r['stderr'][-800:])
    else:
        late_hist = {}
        for inj, res in zip(sl_cases, r['sendloop']):
            idle, busy = (min(x, 250000) for x in res['raster_us'])
            why = None
            due = {(i, rep): t for i, rep, t, _at, _empty in res['enqueued']}
            # a transmission goes out at the first poll at or after its scheduled time: the loop polls every `busy`
            # seconds while the queue holds something and every `idle` seconds while it is empty
            latest = {(i, rep): (max(t, at + idle) if empty else t) + 2 * busy + 1000 for i, rep, t, at, empty in res['enqueued']}
            got = {}
            for i, rep, t in res['sent']:
                got.setdefault((i, rep), []).append(t)
            if res['error']:
                why = f'the send loop failed: {res["error"]}'
            elif res['left']:
                why = f'{res["left"]} queue entries were never transmitted'
            else:
                for key, t_due in sorted(due.items()):
                    ts = got.get(key, [])
                    if len(ts) != 1:
                        why = f'transmission {key[1]} of message {key[0]} was sent {len(ts)} times'
                        break
                    late = ts[0] - t_due
                    late_hist[min(late // 10000, 30)] = late_hist.get(min(late // 10000, 30), 0) + 1
                    if late < 0 or ts[0] > latest[key]:
                        why = (f'transmission {key[1]} of message {key[0]} was due at {t_due} us but went out at {ts[0]} us '
                               f'({late} us late; the send raster allows it until {latest[key]} us)')
                        break
                if not why and set(got) - set(due):
                    why = f'transmissions that were never enqueued: {sorted(set(got) - set(due))[:3]}'
            if why:
                ctx.fail(f'send loop with {len(inj)} message(s) in flight: {why}',
                         {'stream': 'sendloop', 'clause': why.split(' ')[0] + ' ' + why.split(' ')[1]},
                         {'stream': 'sendloop', 'case': {'messages': inj}, 'impl_trace': res,
                          'oracle': {'verdict': 'fail', 'clause': 'every enqueued transmission goes out once, not before and at most one '
                                                                   'send-raster step after its scheduled time'}})
        ctx.count('sendloop', len(sl_cases), [json.dumps(x, sort_keys=True) for x in sl_cases],
                  messages_in_flight={str(k): sum(1 for c in sl_cases if len(c) == k) for k in (1, 2, 3, 4)},
                  lateness_histogram_10ms={str(k): v for k, v in sorted(late_hist.items())})
        if sl_cases:
            ctx.sample({'stream': 'sendloop', 'messages': sl_cases[0], 'impl': r['sendloop'][0]})

    if ctx.thorough:
        hits = ctx.gate_grep(['Wsd', 'Common', 'Props/C15.v'] if False else ['Wsd', 'Common'])
        if hits:
            ctx.broken('theorem', 'grep gate', hits)
        ctx.coqchk('SDC.Props.C15')
    return ctx.finish(
        rule='schedule: the full grid of both random draws (d0 in 0..init, g in min..max-1) for the unicast and '
             'multicast parameter sets with random/time rebound, every queue entry compared with the extracted model '
             'and judged by the envelope oracle; distinct = distinct queue contents. dedup: random Out/In event lists '
             'over small capacities plus one run across the real capacity; distinct = distinct (cap, events). sendloop: '
             'the real _run_send on a virtual clock with 1-4 messages in flight, enqueued at different times; every actual '
             'transmission is compared with the queue entry it belongs to (oracle only, no model).',
        assumptions=['time.time() is constant during one call of _repeated_enqueue_msg (virtual clock)',
                     'float arithmetic on send times is exact to 1 us for the value ranges involved (times are rounded to us)',
                     'PriorityQueue returns entries in send_time order'],
        trusted_base=['translator harness/impl/gen_wsd_params.py (constants and deque maxlen read from the source)',
                      'extraction: ExtrOcamlBasic only, no Extract Constant/Inductive of our own; ocaml/driver_c15.ml + zutil.inc',
                      'correspondence harness harness/impl/c15_impl.py (rebinds networkingthread.random/time, builds '
                      'NetworkingThread without sockets via object.__new__)'],
        not_modelled=['UDP sockets; the send loop (_run_send) is not modelled in Coq: its transmissions are judged by the sendloop oracle against the queue entries (10 ms raster)', 'XML parsing of incoming datagrams (real parser is used, not modelled)'])
