"""C15 - UDP retransmission envelope + own message ids ignored (DESIGN.md section 4, C15)."""
import collections
import json
import subprocess
import time

from lib import NAT, Raw, coqlit

HEADER = ('From Coq Require Import List ZArith Bool.\nImport ListNotations.\n'
          'From SDC Require Import Wsd.Udp.\nOpen Scope Z_scope.')


def oracle_envelope(params, line):
    """Direct transcription of the Coq statement [envelope] on one implementation trace."""
    init, repeat, mn, mx, upper = params
    head, tail = line.split('|')
    d0, g = (int(x) for x in head.split())
    ents = [tuple(int(y) for y in e.split(':')) for e in tail.split()]
    ts = [e[0] for e in ents]
    if len(ts) != 1 + repeat:
        return f'{len(ts)} transmissions instead of {1 + repeat}'
    if [e[1] for e in ents] != list(range(1, repeat + 2)):
        return 'repeat counters are not 1..repeat+1'
    if not (0 <= ts[0] <= init * 1000):
        return f'first transmission delayed by {ts[0]} us > {init} ms'
    gaps = [b - a for a, b in zip(ts, ts[1:])]
    if gaps and not (mn * 1000 <= gaps[0] < mx * 1000):
        return f'first gap {gaps[0]} us outside [{mn},{mx}) ms'
    for k in range(len(gaps) - 1):
        want = min(2 * gaps[k], upper * 1000)
        if gaps[k + 1] != want:
            return f'gap {k + 2} is {gaps[k + 1]} us, expected min(2*{gaps[k]}, {upper * 1000}) = {want}'
    if any(x > upper * 1000 for x in gaps):
        return 'a gap exceeds the upper delay'
    return None


def gen_dedup(rng, n, cap_choices):
    cases = []
    for _ in range(n):
        cap = rng.choice(cap_choices)
        ids = list(range(1, rng.randint(2, cap + 4)))
        evs = []
        for _ in range(rng.randint(3, 3 * cap + 6)):
            evs.append([rng.choice(['out', 'in', 'in']), rng.choice(ids)])
        cases.append((cap, evs))
    return cases



# ---------------------------------------------------------------------------------------------- stream 4: the node
# The real WSDiscovery + the real NetworkingThread inside a discrete-event simulation (harness/impl/c15_sim.py).
MULTICAST_KINDS = ('Hello', 'Bye', 'Probe', 'Resolve')            # to the multicast group, multicast parameter set
UNICAST_KINDS = ('ProbeMatches', 'ResolveMatches')                # to the requester, unicast parameter set
NODE_DELAYS = [0, 0, 3, 20, 60, 150, 400, 900, 1600, 2600]
SCOPE = ['http://s.example/a']
OP_TO_COQ = {'pub': 'OpPublish', 'clear': 'OpClearService', 'clear_local': 'OpClearLocal', 'clear_remote': 'OpClearRemote',
             'search': 'OpSearch', 'search_multi': 'OpSearch', 'found': 'OpFound', 'restart': 'OpStop', 'stop': 'OpStop'}


def local_epr(i):
    return f'urn:uuid:11111111-0000-0000-0000-{i:012d}'


def peer_epr(i):
    return f'urn:uuid:22222222-0000-0000-0000-{i:012d}'


def gen_peer_msg(rng):
    r = rng.random()
    if r < 0.28:
        return {'kind': 'probe', 'types': rng.choice([None, ['Dev'], ['Dev'], ['Other'], ['Nope']])}
    if r < 0.5:
        return {'kind': 'resolve', 'epr': rng.choice([local_epr(0), local_epr(1), local_epr(2), peer_epr(9)])}
    svc = {'epr': peer_epr(rng.randint(0, 3)), 'types': rng.choice([['Dev'], ['Dev'], None]),
           'scopes': rng.choice([SCOPE, SCOPE, None]), 'xaddrs': rng.choice([['http://10.0.0.9:1/x'], ['http://10.0.0.9:1/x'], None]),
           'mdv': rng.randint(1, 3)}
    if r < 0.68:
        return {'kind': 'hello', 'svc': svc}
    if r < 0.86:
        more = [dict(svc, epr=peer_epr(rng.randint(0, 3)), xaddrs=None)] if rng.random() < 0.3 else []
        return {'kind': 'probematches', 'matches': [svc] + more}
    if r < 0.93:
        return {'kind': 'resolvematches', 'svc': svc}
    return {'kind': 'bye', 'epr': peer_epr(rng.randint(0, 3))}


def gen_node_case(rng, seed):
    """one scenario: API calls of every kind and datagrams of peers, at short distances, so that operations hit the
    node while own messages are in flight (every own multicast transmission is looped back by the simulation)"""
    cap = rng.choice([None, None, None, 2, 3, 5, 8])
    ops, sent = [], []
    mid = 0
    first = True
    for _ in range(rng.randint(3, 9)):
        d = 0 if first else rng.choice(NODE_DELAYS)
        r = 0.0 if first else rng.random()
        first = False
        if r < 0.2:
            ops.append([d, 'pub', rng.randint(0, 2), rng.choice([['Dev'], ['Dev'], ['Dev', 'Other'], ['Other']]), SCOPE,
                        rng.random() < 0.8])
        elif r < 0.27:
            ops.append([d, 'clear', rng.randint(0, 2)])
        elif r < 0.32:
            ops.append([d, 'clear_local'])
        elif r < 0.44:
            ops.append([d, 'clear_remote'])
        elif r < 0.53:
            ops.append([d, 'search', rng.choice([None, ['Dev']]), rng.choice([0.2, 0.6, 1.3]), rng.choice([0.1, 0.5, 3])])
        elif r < 0.56:
            ops.append([d, 'search_multi', rng.choice([[['Dev']], [['Dev'], ['Other']]]), 0.3, rng.choice([0.2, 1])])
        elif r < 0.6:
            ops.append([d, 'found'])
        elif r < 0.66:
            ops.append([d, 'restart', rng.choice([0, 50, 400])])
        else:
            if sent and rng.random() < 0.25:           # a peer repeats a datagram (same message id)
                ops.append([d, 'in'] + rng.choice(sent))
            else:
                mid += 1
                x = [mid, rng.randint(0, 2), gen_peer_msg(rng)]
                sent.append(x)
                ops.append([d, 'in'] + x)
                if cap is not None and rng.random() < 0.3:     # a burst of foreign messages pushes own ids out of a small memory
                    for _ in range(rng.randint(1, cap + 1)):
                        mid += 1
                        ops.append([rng.choice([0, 3, 20]), 'in', mid, rng.randint(0, 2), {'kind': 'bye', 'epr': peer_epr(8)}])
    return {'seed': seed, 'cap': cap, 'ops': ops, 'tail_ms': rng.choice([2700, 2700, 900, 100])}


def oracle_node(sc, res, P, real_cap):
    """The property evaluated directly on the trace of one simulated node.  Returns (failures, stats);
    a failure is (what, clause, kind, detail)."""
    fails = []
    stats = collections.Counter()
    idle, busy = (min(x, 250000) for x in res['raster_us'])
    group = res['multicast']
    # the requester of an answer = the sender of the datagram it relates to, as handed to handle_received_message
    # (a peer, or the node itself when one of its own Probes was handled after its id had left a small memory)
    peer_of = {h['id']: h['from'] for h in res['handled']}
    tx_by = {}
    for x in res['tx']:
        tx_by.setdefault(x['id'], []).append(x)
    if res['error']:
        fails.append((f'the node failed: {res["error"]}', 'node-error', None, None))
    if res['left']:
        fails.append((f'{res["left"]} queue entries were never transmitted although stop() joined the send thread',
                      'never-transmitted', None, None))
    out_ids = set()
    for o in res['outs']:
        out_ids.add(o['id'])
        kind = o['kind']
        if kind in MULTICAST_KINDS:
            want_set, want_to = 'M', group
        elif kind in UNICAST_KINDS:
            want_set, want_to = 'U', peer_of.get(o['relates'])
        else:
            fails.append((f'outgoing message of unknown kind {kind!r}', 'unknown-kind', kind, o))
            continue
        stats[f'{kind}:{o["pset"]}:{"group" if o["to"] == group else "unicast"}'] += 1
        cast = 'multicast' if want_set == 'M' else 'unicast answer'
        if o['to'] != want_to:
            fails.append((f'{kind} ({cast}) is addressed to {o["to"]}, expected {want_to}', 'destination', kind, o))
            continue
        if o['pset'] != want_set:
            names = {'M': 'MULTICAST_REPEAT_PARAMS', 'U': 'UNICAST_REPEAT_PARAMS', 'other': f'an unnamed parameter object {o["pvals"]}'}
            fails.append((f'{kind} ({cast} to {o["to"][0]}:{o["to"][1]}) is scheduled with {names[o["pset"]]}: '
                          f'{len(o["entries"])} transmissions instead of 1 + {P[want_set][1]} ({names[want_set]})',
                          'parameter-set', kind, o))
            continue
        if o['stopping']:
            # schedule_stop() has been called: _repeated_enqueue_msg drops the message.  Fine for an answer that the reader
            # thread produces while stop() waits for the threads; the messages of an API call (the Byes of stop()) must go out
            if o['thread'] == 'app':
                fails.append((f'{kind} of an API call is dropped because the send thread was already told to stop', 'dropped-at-stop', kind, o))
            stats['dropped-while-stopping'] += 1
            continue
        dr = o['draws']
        if len(dr) != 2 or dr[0][0] != 'randint' or dr[1][0] != 'randrange':
            fails.append((f'{kind}: the schedule does not draw randint + randrange once each: {dr}', 'draws', kind, o))
            continue
        line = f'{dr[0][3]} {dr[1][3]} | ' + ' '.join(f'{t}:{r}' for t, r in o['entries'])
        why = oracle_envelope(P[want_set], line)
        if why:
            fails.append((f'{kind} ({cast}): queue entries {line!r}: {why}', 'envelope ' + why.split(' ')[0], kind, o))
            continue
        txs = tx_by.get(o['id'], [])
        stats[f'transmissions={len(txs)}'] += 1
        if len(txs) != 1 + P[want_set][1]:
            fails.append((f'{kind} ({cast}) was transmitted {len(txs)} times instead of 1 + {P[want_set][1]}',
                          'transmission-count', kind, {'out': o, 'tx': txs}))
            continue
        if any(x['dest'] != o['to'] for x in txs) or len({x['h'] for x in txs}) != 1:
            fails.append((f'{kind}: the retransmissions differ in destination or content', 'retransmission-differs', kind,
                          {'out': o, 'tx': txs}))
            continue
        wake = o['sender_wake'] if o['sender_wake'] is not None else o['t'] + idle
        for (rel, _rep), x in zip(o['entries'], txs):
            due = o['t'] + rel
            latest = max(due, min(wake, o['t'] + idle)) + 2 * busy + 1000
            stats['late_10ms=' + str(min((x['t'] - due) // 10000, 12))] += 1
            if x['t'] < due or x['t'] > latest:
                fails.append((f'{kind}: a transmission due at {due} us went out at {x["t"]} us (allowed until {latest} us)',
                              'transmission-time', kind, {'out': o, 'tx': txs}))
                break
    stray = sorted({x['id'] for x in res['tx'] if x['id'] not in out_ids}, key=str)
    if stray:
        fails.append((f'datagrams were sent that no add_outbound_message call announced: ids {stray[:3]}', 'stray-transmission', None, None))
    # ---- own messages are ignored when multicast loops them back (while the id is among the last cap ids)
    cap = sc['cap'] or real_cap
    mem, last_op = [], None
    for k, e in enumerate(res['events']):
        if e[0] == 'op':
            if e[1] != 'in':
                last_op = e[1]
        elif e[0] == 'restart':
            mem = []
        elif e[0] == 'out':
            mem = ([e[1]] + mem)[:cap]
        else:
            _, i, acted, own = e
            if acted and i in mem:
                what = ('own message' if own else 'already handled message') + \
                       f' {i} is handed to handle_received_message although it is among the last {cap} ids' + \
                       (f' (last operation before: {last_op})' if last_op else '')
                fails.append((what, 'own-message-handled' if own else 'acted-while-known', None, {'event_index': k, 'after_op': last_op}))
                break
            if not acted and i not in mem:
                fails.append((f'new message id {i} was not handed to the discovery handler', 'new-id-dropped', None, {'event_index': k}))
                break
            if own:
                stats['own-loopback:' + ('ignored' if not acted else 'handled-after-eviction') + ':after-' + str(last_op)] += 1
            else:
                stats['foreign:' + ('handled' if acted else 'duplicate-ignored')] += 1
            if acted:
                mem = ([i] + mem)[:cap]
    for st in res['steps']:
        stats[f'in-flight-at:{st["op"]}:{min(st["own_in_flight"], 3)}'] += 1
    return fails, stats


API_OPS = ['OpPublish', 'OpClearService', 'OpClearLocal', 'OpClearRemote', 'OpSearch', 'OpFound', 'OpStop']   # order of Udp.v api_op


def node_events_to_model(events):
    """event log of the simulation -> request tokens of ocaml/driver_c15.ml (node mode) + the observed handler flags"""
    evs, acted = [], []
    for e in events:
        if e[0] == 'op':
            if e[1] == 'in':          # the driver injecting a datagram of a peer: not an operation of the node
                continue
            evs.append(f'p{API_OPS.index(OP_TO_COQ[e[1]])}')
            acted.append(0)
        elif e[0] == 'restart':
            evs.append('r')
            acted.append(0)
        elif e[0] == 'out':
            evs.append(f'o{e[1]}')
            acted.append(0)
        else:
            evs.append(f'i{e[1]}')
            acted.append(int(bool(e[2])))
    return evs, acted


def model_node(exe, lines):
    out = subprocess.run([exe, 'node'], input='\n'.join(lines) + '\n', capture_output=True, text=True, timeout=300)
    if out.returncode != 0:
        return None, (out.stderr or out.stdout)[-600:]
    return out.stdout.splitlines(), None


def run_node_stream(ctx, P, real_cap, exe):
    n = ctx.n(220, 2500)
    cases = [gen_node_case(ctx.rng, ctx.rng.randint(1, 10 ** 9)) for _ in range(n)]
    r = ctx.impl('c15_impl', {'cap': 3, 'dedup': [], 'grid': False, 'node': cases}, timeout=1200)
    if r.get('_crash'):
        ctx.broken('correspondence', 'node', r['stderr'][-1200:])
        return
    stats = collections.Counter()
    kind_cases, dd_cases = {}, []
    for sc, res in zip(cases, r['node']):
        fails, st = oracle_node(sc, res, P, real_cap)
        stats.update(st)
        for op in sc['ops']:
            stats['op:' + (op[1] if op[1] != 'in' else 'in-' + op[4]['kind'])] += 1
        stats['cap:' + str(sc['cap'] or 'real')] += 1
        for what, clause, kind, detail in fails:
            ctx.fail('node: ' + what, {'stream': 'node', 'clause': clause, 'kind': kind},
                     {'stream': 'node', 'case': sc, 'oracle': {'verdict': 'fail', 'clause': clause, 'detail': detail},
                      'impl_trace': {'outs': [{k: o[k] for k in ('id', 't', 'kind', 'to', 'pset', 'relates', 'draws', 'entries')}
                                               for o in res['outs']],
                                     'events': res['events'], 'handled': res['handled'], 'steps': res['steps'],
                                     'known': res['known']}})
        if res['unexpected_draws']:
            ctx.broken('correspondence', 'node: random draws', f'draws outside add_outbound_message: {res["unexpected_draws"][:3]}')
        if res['notes']:
            ctx.broken('correspondence', 'node: harness', res['notes'])
        for o in res['outs']:
            dr = o['draws']
            if o['kind'] in MULTICAST_KINDS + UNICAST_KINDS and not o['stopping'] and len(dr) == 2:
                kind_cases.setdefault((o['kind'], dr[0][3], dr[1][3]), o['entries'])
                if kind_cases[(o['kind'], dr[0][3], dr[1][3])] != o['entries']:
                    ctx.broken('correspondence', 'node-kinds', f'{o["kind"]} with the same draws got two different schedules')
        evs, acted = node_events_to_model(res['events'])
        dd_cases.append((f'D {sc["cap"] or real_cap} ' + ' '.join(evs),
                         ' '.join(str(x) for x in res['known']) + ' | ' + ' '.join(str(x) for x in acted), sc, res))
    ctx.log(f'node: {len(cases)} scenarios simulated and judged at {time.time() - ctx.t0:.0f}s')
    # the extracted model on the same inputs: kind_schedule_us (Gen_Kinds table + Gen_Params constants) for every message,
    # drun (with the public operations and restarts as events) for every event log
    keys = sorted(kind_cases)
    if exe:
        mk, err = model_node(exe, [f'K {k} {d0} {g}' for k, d0, g in keys])
        if err or len(mk) != len(keys):
            ctx.broken('correspondence', 'node-kinds (extracted model)', err or f'{len(mk)} answers for {len(keys)} requests')
        else:
            n_bad = sum(1 for m in mk if m.endswith('BAD'))
            if n_bad:
                ctx.broken('theorem', 'kind_count_ok twin', f'the model sends a message kind with the count of the other parameter set ({n_bad} cases)')
            diffs = [i for i, (key, m) in enumerate(zip(keys, mk))
                     if m.rsplit(' ', 1)[0].split() != [f'{t}:{i}' for t, i in kind_cases[key]]]
            for i in diffs[:1]:
                ctx.broken('correspondence', 'node-kinds', {'disagreements': len(diffs), 'first': {'kind,d0,g': keys[i], 'impl': kind_cases[keys[i]], 'model': mk[i]}})
        md, err = model_node(exe, [a for a, _, _, _ in dd_cases])
        if err or len(md) != len(dd_cases):
            ctx.broken('correspondence', 'node-dedup (extracted model)', err or f'{len(md)} answers for {len(dd_cases)} requests')
        else:
            diffs = [i for i, (c, m) in enumerate(zip(dd_cases, md)) if m.split() != c[1].split()]
            for i in diffs[:1]:
                _, exp, sc, res = dd_cases[i]
                ctx.broken('correspondence', 'node-dedup', {'disagreements': len(diffs), 'first': {'case': sc, 'events': res['events'],
                                                                                                  'impl (memory | handled)': exp, 'model': md[i]}})
    ctx.log(f'node: model evaluated at {time.time() - ctx.t0:.0f}s')

    def sub(prefix):
        return {k[len(prefix):]: v for k, v in sorted(stats.items()) if k.startswith(prefix)}
    hist = {'messages_kind:set:destination': {k: v for k, v in sorted(stats.items()) if k.split(':')[0] in MULTICAST_KINDS + UNICAST_KINDS},
            'operations': sub('op:'), 'memory_capacity': sub('cap:'), 'transmissions_per_message': sub('transmissions='),
            'lateness_10ms': sub('late_10ms='), 'own_loopbacks': sub('own-loopback:'), 'foreign_datagrams': sub('foreign:'),
            'own_messages_in_flight_at_operation': sub('in-flight-at:'), 'dropped_while_stopping': stats['dropped-while-stopping']}
    ctx.count('node', len(cases), [json.dumps(c, sort_keys=True) for c in cases], **hist)
    ctx.count('node-kinds', len(keys), keys)
    for name in ('messages_kind:set:destination', 'operations', 'own_loopbacks', 'own_messages_in_flight_at_operation',
                 'transmissions_per_message', 'foreign_datagrams', 'memory_capacity'):
        ctx.log(f'node {name}: {json.dumps(hist[name])}')
    if cases:
        ctx.sample({'stream': 'node', 'case': cases[0], 'events': r['node'][0]['events'],
                    'outs': [[o['kind'], o['pset'], o['to'], o['entries']] for o in r['node'][0]['outs']]})


def run(ctx):
    ctx.regenerate('gen_wsd_params', 'Wsd/Gen_Params.v')
    ctx.regenerate('gen_wsd_kinds', 'Wsd/Gen_Kinds.v')
    proof_ok = ctx.prove()
    if not proof_ok:
        ctx.broken('theorem', 'Props/C15.v', ctx.proof_error)

    # ---------------------------------------------------------------- stream 1: exhaustive schedule grid
    dd_cases = gen_dedup(ctx.rng, ctx.n(60, 600), [1, 2, 3, 5])
    # group dedup cases per cap (one impl call each)
    impl = ctx.impl('c15_impl', {'cap': 3, 'dedup': []})
    if impl.get('_crash'):
        ctx.broken('correspondence', 'schedule-grid', impl['stderr'])
        return ctx.finish('implementation run crashed', [], [])
    exe, log = ctx.ocaml_driver('Extract/Extract_Wsd_Udp.v', 'wsd_udp_model', 'driver_c15')
    if exe is None:
        ctx.broken('correspondence', 'extraction/driver build', log[-1500:])
    n_bad_model = 0
    for name in ('unicast', 'multicast'):
        r = impl[name]
        lines = r['lines']
        if not r['draws_ok']:
            ctx.broken('correspondence', f'{name}: random draws', 'the code no longer draws randint(0, init) and '
                       'randrange(min, max) exactly once each, in this order')
        # oracle on every implementation trace
        first_fail = None
        nfail = 0
        for ln in lines:
            why = oracle_envelope(r['params'], ln)
            if why:
                nfail += 1
                if first_fail is None:
                    first_fail = (ln, why)
        if first_fail:
            ln, why = first_fail
            ctx.fail(f'{name} schedule violates the envelope for {nfail} of {len(lines)} draws; first: {ln!r}: {why}',
                     {'stream': 'schedule', 'params': name, 'clause': why.split(' ')[0]},
                     {'stream': f'schedule-{name}', 'case': {'params': r['params'], 'draws': ln.split('|')[0].split()},
                      'impl_trace': ln, 'oracle': {'verdict': 'fail', 'clause': why}})
        # model on the same grid (extracted OCaml)
        if exe:
            out = subprocess.run([exe] + [str(x) for x in r['params']], capture_output=True, text=True, timeout=300)
            mlines = out.stdout.splitlines()
            model = [m.rsplit(' ', 1)[0] for m in mlines]
            n_bad_model += sum(1 for m in mlines if m.endswith('BAD'))
            diffs = [i for i, (a, b) in enumerate(zip(lines, model)) if a.strip() != b.strip()]
            if len(lines) != len(model):
                diffs = diffs or [min(len(lines), len(model))]
            if diffs:
                i = diffs[0]
                ctx.broken('correspondence', f'schedule-{name}',
                           {'disagreements': len(diffs), 'first': {'impl': lines[i] if i < len(lines) else None,
                                                                   'model': model[i] if i < len(model) else None}})
            ctx.count(f'schedule-{name}', len(lines), lines, exhaustive=True, params=r['params'])
            ctx.sample({'stream': f'schedule-{name}', 'draws+queue(us:repeat)': lines[len(lines) // 2]})
    if n_bad_model:
        ctx.broken('theorem', 'check_envelope twin', f'model violates the envelope on {n_bad_model} draws of the grid')
    if not impl.get('dropped_when_stopped'):
        ctx.broken('correspondence', 'stopped-sender', 'a message was queued although the sender is stopped')

    ctx.log(f'schedule grid done at {time.time() - ctx.t0:.0f}s')
    # ---------------------------------------------------------------- stream 2: known message ids
    by_cap = {}
    for cap, evs in dd_cases:
        by_cap.setdefault(cap, []).append(evs)
    # one long run with the real capacity (read by the translator) crossing the eviction boundary
    gp = (ctx.cov.get('generated') and (open('/verif/coq/Wsd/Gen_Params.v').read())) or ''
    import re
    m = re.search(r'known_ids_cap : nat := (\d+)%nat', gp)
    real_cap = int(m.group(1)) if m else 200
    long_evs = [['out', 1]] + [['in', 1000 + i] for i in range(real_cap - 1)] + [['in', 1]] + \
               [['in', 5000]] + [['in', 1]] + [['in', 1000]]
    by_cap.setdefault(real_cap, []).append(long_evs)
    cases = []
    n_evict = 0
    for cap, evl in by_cap.items():
        r = ctx.impl('c15_impl', {'cap': cap, 'dedup': evl, 'grid': False})
        if r.get('_crash'):
            ctx.broken('correspondence', 'dedup', r['stderr'])
            continue
        for evs, res in zip(evl, r['dedup']):
            inp = (NAT(cap), [Raw(f'(Ev{"Out" if k == "out" else "In"} {i})') for k, i in evs])
            exp = (res['mem'], res['acted'])
            cases.append((coqlit(inp), coqlit(exp), cap, evs, res))
            # oracle: an id is never acted on while it is in the memory (own ids included)
            mem = []
            for (k, i), acted in zip(evs, res['acted']):
                if acted and i in mem:
                    ctx.fail(f'message id {i} acted on although remembered (cap={cap})',
                             {'stream': 'dedup', 'clause': 'acted-while-known'},
                             {'stream': 'dedup', 'case': {'cap': cap, 'events': evs}, 'impl_trace': res})
                    break
                if k == 'in' and not acted and i not in mem:
                    ctx.fail(f'new message id {i} was not handed to the discovery handler (cap={cap})',
                             {'stream': 'dedup', 'clause': 'new-id-dropped'},
                             {'stream': 'dedup', 'case': {'cap': cap, 'events': evs}, 'impl_trace': res})
                    break
                if k == 'out' or acted:
                    mem = ([i] + mem)[:cap]
                    if len(mem) == cap:
                        n_evict += 1
    mism, err = ctx.coq_mism('dedup', HEADER,
                             'prod_eqb zl_eqb (list_eqb Bool.eqb)',
                             'fun c => drun (fst c) [] (snd c)',
                             [(a, b) for a, b, *_ in cases])
    if err:
        ctx.broken('correspondence', 'dedup (coq evaluation)', err)
    for i in mism[:1]:
        _, _, cap, evs, res = cases[i]
        ctx.broken('correspondence', 'dedup', {'disagreements': len(mism), 'first': {'cap': cap, 'events': evs, 'impl': res}})
    ctx.count('dedup', len(cases), [(c[2], tuple(map(tuple, c[3]))) for c in cases], at_capacity_steps=n_evict)
    ctx.sample({'stream': 'dedup', 'cap': cases[0][2], 'events': cases[0][3], 'impl': cases[0][4]} if cases else None)

    ctx.log(f'dedup done at {time.time() - ctx.t0:.0f}s')
    # ---------------------------------------------------------------- stream 3: the send loop (actual transmissions)
    # the real _run_send on a virtual clock; several messages in flight, enqueued at different times
    sl_cases = []
    for _ in range(ctx.n(120, 1500)):
        k = ctx.rng.choice([1, 2, 2, 3, 4])
        inj = []
        for j in range(k):
            pname = ctx.rng.choice(['UNICAST_REPEAT_PARAMS', 'MULTICAST_REPEAT_PARAMS'])
            P = impl['unicast' if pname.startswith('UNI') else 'multicast']['params']
            inj.append({'id': f'm{j}', 'params': pname, 'at_ms': 0 if j == 0 else ctx.rng.choice([0, 5, 37, 120, 333, 800, 1500]),
                        'd0': ctx.rng.randint(0, P[0]), 'g': ctx.rng.randint(P[2], P[3] - 1)})
        # a message enqueued by another thread WHILE a datagram is handed to the socket (d0 = 0: its first entry is
        # due at the clock value of the transmission in progress), and sleeps that overshoot to exactly a due time
        if ctx.rng.random() < 0.5:
            pname = ctx.rng.choice(['UNICAST_REPEAT_PARAMS', 'MULTICAST_REPEAT_PARAMS'])
            P = impl['unicast' if pname.startswith('UNI') else 'multicast']['params']
            inj.append({'id': 'x', 'params': pname, 'at_ms': 0, 'at_send': ctx.rng.randint(1, 6),
                        'd0': ctx.rng.choice([0, 0, 0, 1, ctx.rng.randint(0, P[0])]), 'g': ctx.rng.randint(P[2], P[3] - 1)})
        if ctx.rng.random() < 0.6:
            inj[0]['snap'] = True
        sl_cases.append(inj)
    r = ctx.impl('c15_impl', {'cap': 3, 'dedup': [], 'grid': False, 'sendloop': sl_cases})
    if r.get('_crash'):
        ctx.broken('correspondence', 'sendloop', r['stderr'][-800:])
    else:
        late_hist = {}
        for inj, res in zip(sl_cases, r['sendloop']):
            idle, busy = (min(x, 250000) for x in res['raster_us'])
            why = None
            due = {(i, rep): t for i, rep, t, _at, _empty in res['enqueued']}
            # a transmission goes out at the first poll at or after its scheduled time: the loop polls every `busy`
            # seconds while the queue holds something and every `idle` seconds while it is empty
            latest = {(i, rep): (max(t, at + idle) if empty else t) + 2 * busy + 1000 for i, rep, t, at, empty in res['enqueued']}
            got = {}
            for i, rep, t in res['sent']:
                got.setdefault((i, rep), []).append(t)
            if res['error']:
                why = f'the send loop failed: {res["error"]}'
            elif res['left']:
                why = f'{res["left"]} queue entries were never transmitted'
            else:
                for key, t_due in sorted(due.items()):
                    ts = got.get(key, [])
                    if len(ts) != 1:
                        why = f'transmission {key[1]} of message {key[0]} was sent {len(ts)} times'
                        break
                    late = ts[0] - t_due
                    late_hist[min(late // 10000, 30)] = late_hist.get(min(late // 10000, 30), 0) + 1
                    if late < 0 or ts[0] > latest[key]:
                        why = (f'transmission {key[1]} of message {key[0]} was due at {t_due} us but went out at {ts[0]} us '
                               f'({late} us late; the send raster allows it until {latest[key]} us)')
                        break
                if not why and set(got) - set(due):
                    why = f'transmissions that were never enqueued: {sorted(set(got) - set(due))[:3]}'
            if why:
                ctx.fail(f'send loop with {len(inj)} message(s) in flight: {why}',
                         {'stream': 'sendloop', 'clause': why.split(' ')[0] + ' ' + why.split(' ')[1]},
                         {'stream': 'sendloop', 'case': {'messages': inj}, 'impl_trace': res,
                          'oracle': {'verdict': 'fail', 'clause': 'every enqueued transmission goes out once, not before and at most one '
                                                                   'send-raster step after its scheduled time'}})
        # the same runs against the Coq model of the loop (Wsd/SendLoop.v): the events the real loop saw - enqueues
        # and polls with the clock value, exact float order - are replayed by `srun`; transmissions (clock, due time)
        # in order and the due times left in the queue must agree
        m_cases = []
        for inj, res in zip(sl_cases, r['sendloop']):
            evs = res.get('events') or []
            if res['error'] or any(e[1] is None for e in evs) or len(evs) > 400:
                continue
            inp = [Raw(f'(Put ({e[1]}, {e[2]}))') if e[0] == 'P' else Raw(f'(Tick {e[1]})') for e in evs]
            m_cases.append((coqlit(inp), coqlit((Raw('(' + coqlit([tuple(x) for x in res['sent_x']]) + ' : list (Z * Z))'), Raw('(' + coqlit(res['left_x']) + ' : list Z)'))), inj, res))
        m_cases = m_cases[:ctx.n(60, 600)]
        mism, err = ctx.coq_mism('sendloop', 'From Coq Require Import List ZArith Bool.\nImport ListNotations.\n'
                                 'From SDC Require Import Wsd.SendLoop.\nOpen Scope Z_scope.',
                                 'prod_eqb (list_eqb (prod_eqb Z.eqb Z.eqb)) zl_eqb', 'fun es => observe (srun es)',
                                 [(a_, b_) for a_, b_, *_ in m_cases], shard=40, deps=('Wsd/SendLoop.vo',))
        if err:
            ctx.broken('correspondence', 'sendloop (coq evaluation)', err)
        for i in mism[:1]:
            ctx.broken('correspondence', 'sendloop model', {'disagreements': len(mism), 'first': {'messages': m_cases[i][2],
                                                                                                  'impl': m_cases[i][3]}})
        ctx.count('sendloop-model', len(m_cases), [c[0] for c in m_cases],
                  events_per_case_max=max((len(c[3]['events']) for c in m_cases), default=0),
                  transmissions=sum(len(c[3]['sent_x']) for c in m_cases))
        ctx.count('sendloop', len(sl_cases), [json.dumps(x, sort_keys=True) for x in sl_cases],
                  messages_in_flight={str(k): sum(1 for c in sl_cases if len(c) == k) for k in (1, 2, 3, 4, 5)},
                  enqueued_during_a_transmission=sum(1 for c in sl_cases if any(x.get('at_send') for x in c)),
                  sleeps_overshoot_to_due_time=sum(1 for c in sl_cases if c[0].get('snap')),
                  lateness_histogram_10ms={str(k): v for k, v in sorted(late_hist.items())})
        if sl_cases:
            ctx.sample({'stream': 'sendloop', 'messages': sl_cases[0], 'impl': r['sendloop'][0]})

    # ---------------------------------------------------------------- stream 4: the whole node (kinds, own ids)
    ctx.log(f'sendloop done at {time.time() - ctx.t0:.0f}s')
    run_node_stream(ctx, impl['params'], real_cap, exe)

    if ctx.thorough:
        hits = ctx.gate_grep(['Wsd', 'Common', 'Props/C15.v'] if False else ['Wsd', 'Common'])
        if hits:
            ctx.broken('theorem', 'grep gate', hits)
        ctx.coqchk('SDC.Props.C15')
    return ctx.finish(
        rule='schedule: the full grid of both random draws (d0 in 0..init, g in min..max-1) for the unicast and '
             'multicast parameter sets with random/time rebound, every queue entry compared with the extracted model '
             'and judged by the envelope oracle; distinct = distinct queue contents. dedup: random Out/In event lists '
             'over small capacities plus one run across the real capacity; distinct = distinct (cap, events). sendloop: '
             'the real _run_send on a virtual clock with 1-4 messages in flight, enqueued at different times; every actual '
             'transmission is compared with the queue entry it belongs to (oracle only, no model). node: random scenarios '
             '(3-9 operations at distances of 0-2.6 s: publish_service, clear_service, clear_local_services, '
             'clear_remote_services, search_services, search_multiple_types, get_found_remote_services, stop+start, '
             'datagrams of peers of all six kinds incl. repeated ones and bursts) on the real WSDiscovery + the real '
             'NetworkingThread inside a discrete-event simulation (fake socket/selectors/threading/queue/time/random '
             'modules; every multicast transmission is looped back); for EVERY outgoing message the oracle checks '
             'destination and parameter set against its kind (Hello/Bye/Probe/Resolve: group + multicast set; '
             'ProbeMatches/ResolveMatches: requester + unicast set), the queue entries against the envelope of THAT set, '
             'the datagrams actually sent (count 1 + repeat, same destination and bytes, send raster), and for every '
             'datagram read that an id among the last cap registered ids is not handed to the handler (own ids after '
             'each operation); node-kinds / node-dedup: the same messages / event logs through the extracted model '
             '(kind table traced into Gen_Kinds.v; operations and restarts are events of the id-memory model); '
             'distinct = distinct scenarios resp. distinct (kind, d0, g).',
        assumptions=['time.time() is constant during one call of _repeated_enqueue_msg (virtual clock)',
                     'float arithmetic on send times is exact to 1 us for the value ranges involved (times are rounded to us)',
                     'PriorityQueue returns entries in send_time order',
                     'node stream: threads of the node interleave only where they block (sleep, queue get, select, join): '
                     'one thread runs at a time, so races inside a critical region are not explored',
                     'node stream: multicast loop-back delivers every own multicast datagram to the own multicast socket '
                     '(IP_MULTICAST_LOOP default), nothing is lost or reordered',
                     'a restart (stop + start) leaves no own transmission in flight: stop() joins the send thread and closes the sockets'],
        trusted_base=['translator harness/impl/gen_wsd_params.py (constants and deque maxlen read from the source)',
                      'translator harness/impl/gen_wsd_kinds.py (kind -> parameter set / destination table traced from the '
                      'real WSDiscovery with a recording networking thread; cross-checked by the node-kinds stream)',
                      'extraction: ExtrOcamlBasic only, no Extract Constant/Inductive of our own; ocaml/driver_c15.ml + zutil.inc',
                      'correspondence harness harness/impl/c15_impl.py (rebinds networkingthread.random/time, builds '
                      'NetworkingThread without sockets via object.__new__)',
                      'simulation harness/impl/c15_sim.py (lock-step scheduler, fake socket/selectors/threading/queue/time '
                      'modules for networkingthread.py, time/random for wsdimpl.py)'],
        not_modelled=['UDP sockets; the send loop (_run_send) is not modelled in Coq: its transmissions are judged by the sendloop and node oracles against the queue entries (10 ms raster)',
                      'XML parsing of incoming datagrams (real parser is used, not modelled)',
                      'the content of the discovery messages and the matching of Probe filters (C14)'])
