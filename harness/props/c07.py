"""C07 - Get responses are consistent snapshots under concurrent transactions."""


def run(ctx):
    ok_gen = ctx.regenerate('gen_conc_programs')
    proof_ok = ctx.prove()
    if not proof_ok:
        ctx.broken('theorem', 'Props/C07.v (C07_handlers_safe: a traced handler no longer builds its response inside one '
                              'critical section, or the commit no longer runs under the locks)', ctx.proof_error)
    kinds = ['metric', 'context', 'descr']
    res = ctx.impl('c07_impl', {'writer_kinds': kinds}, timeout=600)
    if res.get('_crash'):
        ctx.broken('correspondence', 'deterministic scheduler crashed', res['stderr'][-1000:])
        return ctx.finish('implementation run crashed', [], [])
    progs = res['programs']
    sched = res['schedules']
    for x in sched:
        if x.get('inconsistent') and x.get('point') == -1:
            ctx.fail(f'{x["handler"]}: after a {x["writer"]} (nothing was committed) the response states MdibVersion '
                     f'{x["response_version"]} but shows {x["inconsistent"]} (seen vs. value at that version)',
                     {'handler': x['handler'].replace('All', ''), 'clause': 'no-transaction write'},
                     {'stream': 'schedules', 'case': x})
        elif x.get('inconsistent'):
            ctx.fail(f'{x["handler"]}: a {x["writer"]} transaction committing at depth-0 point {x["point"]} of the handler makes '
                     f'the response state MdibVersion {x["response_version"]} but show {x["inconsistent"]} '
                     f'(seen vs. value at that version)',
                     {'handler': x['handler'].replace('All', '')},
                     {'stream': 'schedules', 'case': x, 'program': progs.get(x['handler'])})
        elif 'error' in x:
            ctx.fail(f'{x["handler"]}: request failed when a {x["writer"]} transaction was injected at point {x["point"]}: '
                     f'{x["error"][-200:]}', {'handler': x['handler'].replace('All', ''), 'clause': 'error'},
                     {'stream': 'schedules', 'case': x})
    ctx.count('schedules', len(sched), [(x['handler'], x['point'], x['writer']) for x in sched],
              handlers=sorted({x['handler'] for x in sched}),
              injection_points={k: v.get('yield_points') for k, v in progs.items() if k != 'commit'})
    ctx.count('programs', len(progs), [(k, tuple(v['program'])) for k, v in progs.items()],
              programs={k: v['program'] for k, v in progs.items()})
    ctx.sample({'stream': 'programs', 'GetMdState': progs.get('GetMdState'), 'commit': progs.get('commit')})
    if sched:
        ctx.sample({'stream': 'schedules', 'case': sched[len(sched) // 2]})
    if not proof_ok and not ctx.violations:
        # model-level search: a schedule of commit + the offending handler program that yields an inconsistent response
        hdr = ('From Coq Require Import List ZArith Bool.\nImport ListNotations.\n'
               'From SDC Require Import Conc.Model Conc.Gen_Programs.\nOpen Scope Z_scope.')
        out = ctx.coq_eval(hdr, 'map (fun p => prog_eqb p reader_prog) handler_programs')
        ctx.cov['model_search'] = out[-400:]
    if ctx.thorough:
        hits = ctx.gate_grep(['Conc', 'Common'])
        if hits:
            ctx.broken('theorem', 'grep gate', hits)
        ctx.coqchk('SDC.Props.C07')
    return ctx.finish(
        rule='programs: the lock-step program of every Get handler (with and without handle list) and of a commit, traced '
             'from the running code through a tracing re-entrant lock, a traced mdib_version_group and traced table '
             'accessors, normalised per critical section; schedules: a committing transaction (metric / context / '
             'descriptor) is injected at every point of every handler at which the handler thread does not hold the '
             'MDIB lock, and the parsed response (obtained through the real consumer client) is compared with the '
             'snapshot history of the version it states; distinct = distinct (handler, point, writer kind)',
        assumptions=['Python-level atomicity of a single table read', 'RLock / Lock provide mutual exclusion (re-entrant for RLock)',
                     'the MDIB content is abstracted to a token that changes with every commit'],
        trusted_base=['translator harness/impl/gen_conc_programs.py + tracer in harness/impl/c07_impl.py (the traced programs ARE '
                      'the model input)', 'loop-back transport (handlers run synchronously in the requesting thread)'],
        not_modelled=['serialisation after the critical section is safe only because it works on finished nodes / on state '
                      'objects that commits replace rather than mutate; reads during serialisation would show up as ReadContent '
                      'outside the section'])
