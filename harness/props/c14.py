"""C14 - WS-Discovery answers and records exactly what its matching rules prescribe (DESIGN.md section 4, C14)."""
import json
import re
import subprocess
import time
from collections import Counter

from lib import coqlit

HEADER = ('From Coq Require Import List NArith ZArith Bool.\nImport ListNotations.\n'
          'From SDC Require Import Location.Quote Location.Loc Wsd.Match Wsd.Gen_Match.\nOpen Scope N_scope.')
DEPS = ['Wsd/Gen_Match.vo']


# ----------------------------------------------------------------------------- encodings
def hx(text):
    return text.encode('utf-8').hex() or '-'


def hxo(text):
    return '~' if text is None else hx(text)


def blit(s):
    return '[' + '; '.join(str(x) for x in s.encode('utf-8')) + ']'


def oblit(s):
    return '(@None bytes)' if s is None else f'(Some {blit(s)})'


# ----------------------------------------------------------------------------- reference matcher (independent of urllib)
HEX = '0123456789abcdefABCDEF'


def ref_unquote(seg: str) -> bytes:
    """Percent-decoding to octets, written without urllib."""
    raw = seg.encode('utf-8')
    out = bytearray()
    i = 0
    while i < len(raw):
        if raw[i] == 0x25 and i + 2 < len(raw) and chr(raw[i + 1]) in HEX and chr(raw[i + 2]) in HEX:
            out.append(int(raw[i + 1:i + 3].decode(), 16))
            i += 3
        else:
            out.append(raw[i])
            i += 1
    return bytes(out)


def ascii_lower(s: str) -> str:
    return ''.join(chr(ord(ch) + 32) if 'A' <= ch <= 'Z' else ch for ch in s)


def ref_match_rfc(u1, u2) -> bool:
    """RFC 3986 rule of WS-Discovery on structured URIs: scheme and authority case-insensitively equal,
    path segment-wise prefix after percent-decoding."""
    if ascii_lower(u1['scheme']) != ascii_lower(u2['scheme']):
        return False
    if ascii_lower(u1['auth'] or '') != ascii_lower(u2['auth'] or ''):
        return False
    p1 = [ref_unquote(s) for s in u1['parts']]
    p2 = [ref_unquote(s) for s in u2['parts']]
    return len(p1) <= len(p2) and all(a == b for a, b in zip(p1, p2))


def render(u):
    return (u['scheme'] + ':' + ('' if u['auth'] is None else '//' + u['auth']) + '/'.join(u['parts']) +
            ('' if u['query'] is None else '?' + u['query']) + ('' if u['frag'] is None else '#' + u['frag']))


def py_split_agrees(u, text):
    """Does urllib.parse.urlsplit cut the rendered text into the components it was rendered from?"""
    import urllib.parse
    try:
        r = urllib.parse.urlsplit(text)
    except ValueError:
        return None
    return (r.scheme == ascii_lower(u['scheme']) and r.netloc == (u['auth'] or '') and r.path == '/'.join(u['parts']))


# ----------------------------------------------------------------------------- generators: scope pairs
SCHEMES = ['x', 'X', 'sdc.ctxt.loc', 'Sdc.Ctxt.Loc', 'http', 'HTTP', 'urn', 'a+b-c.d', 'y']
AUTHS = [None, None, None, None, 'host', 'HOST', 'Host:80', 'host:80', 'u@host', 'U@host', '', 'h', '[::1]', '[::1]:80']
BAD_AUTHS = ['[x', 'x]', '[1.2.3.4]', '[vz]', 'a℀b', 'é', 'É', 'a／b']
SEGS = ['a', 'A', 'b', 'abc', 'a%2Fb', 'a%2fb', '%61', '%41', '', 'a%20b', '%', '%zz', '%4', 'é', '%C3%A9', '%c3%a9', '.',
        '..', 'a;p', 'a=b', 'a&b', "a'b", '~', '%7E', 'a+b', 'a%2Bb', ':', 'a:b']
BAD_SEGS = ['%FF', '%FE', '%C3', '%E2%82', 'a%80']
MATCHBY = {}


def gen_uri(rng, hist):
    r = rng.random()
    auth = rng.choice(AUTHS)
    if r < 0.04:
        auth = rng.choice(BAD_AUTHS)
        hist['auth-odd'] += 1
    n = rng.choice([0, 1, 1, 2, 2, 2, 3, 4])
    segs = [rng.choice(BAD_SEGS) if rng.random() < 0.03 else rng.choice(SEGS) for _ in range(n)]
    absolute = rng.random() < 0.85 or auth is not None
    parts = ([''] if absolute and n else []) + segs
    if not parts:
        parts = [''] if rng.random() < 0.6 or auth is not None else ['', '']   # "" or "/"
    if rng.random() < 0.12:
        parts = parts + ['']                                                     # trailing slash
    if auth is None and len(parts) >= 3 and parts[0] == '' and parts[1] == '':
        parts = parts[1:]                                                        # would read as an authority
    if auth is not None and parts[0] != '':
        parts = [''] + parts
    u = {'scheme': rng.choice(SCHEMES), 'auth': auth, 'parts': parts,
         'query': rng.choice([None, None, None, 'q=1', 'fac=a&bed=b', '', 'a/b?c']),
         'frag': rng.choice([None, None, None, None, 'f', '', 'a/b'])}
    return u


def swap_case(s):
    return ''.join(ch.lower() if ch.isupper() else ch.upper() if ch.isascii() else ch for ch in s)


def recode(seg, rng):
    """Another spelling of the same octets (or of nearly the same)."""
    table = {'a': '%61', '%61': 'a', 'A': '%41', '%41': 'A', 'a%2Fb': 'a%2fb', 'a%2fb': 'a%2Fb', 'é': '%C3%A9',
             '%C3%A9': '%c3%a9', '%c3%a9': 'é', '~': '%7E', '%7E': '~', 'a+b': 'a%2Bb', 'a%20b': 'a%20b'}
    return table.get(seg, seg)


def gen_pair(rng, hist):
    u1 = gen_uri(rng, hist)
    r = rng.random()
    u2 = json.loads(json.dumps(u1))
    if r < 0.12:
        kind = 'identical'
    elif r < 0.3:
        kind = 'longer'
        u2['parts'] = u2['parts'] + [rng.choice(SEGS) for _ in range(rng.randint(1, 2))]
    elif r < 0.4:
        kind = 'shorter'
        u2['parts'] = u2['parts'][:-1] or ['']
    elif r < 0.52:
        kind = 'case'
        which = rng.choice(['scheme', 'auth', 'seg'])
        if which == 'scheme':
            u2['scheme'] = swap_case(u2['scheme'])
        elif which == 'auth' and u2['auth']:
            u2['auth'] = swap_case(u2['auth'])
        elif len(u2['parts']) > 1:
            i = rng.randrange(len(u2['parts']))
            u2['parts'][i] = swap_case(u2['parts'][i])
        kind += '-' + which
    elif r < 0.66:
        kind = 'recoded'
        u2['parts'] = [recode(s, rng) if rng.random() < 0.7 else s for s in u2['parts']]
        if rng.random() < 0.4:
            u2['parts'] = u2['parts'] + [rng.choice(SEGS)]
    elif r < 0.74:
        kind = 'slash-decoded'          # a%2Fb written as two segments: must NOT match
        parts = []
        for s in u2['parts']:
            parts.extend(s.split('%2F') if '%2F' in s else [s])
        u2['parts'] = parts
    elif r < 0.84:
        kind = 'seg-differs'
        if u2['parts']:
            i = rng.randrange(len(u2['parts']))
            u2['parts'][i] = rng.choice(SEGS + BAD_SEGS)
    elif r < 0.9:
        kind = 'query-differs'
        u2['query'] = rng.choice([None, 'other=1', ''])
        u2['frag'] = rng.choice([None, 'g'])
    elif r < 0.95:
        kind = 'auth-differs'
        u2['auth'] = rng.choice(AUTHS + BAD_AUTHS)
        if u2['auth'] is not None and u2['parts'][0] != '':
            u2['parts'] = [''] + u2['parts']
        if u2['auth'] is None and len(u2['parts']) >= 3 and u2['parts'][0] == '' and u2['parts'][1] == '':
            u2['parts'] = u2['parts'][1:]
    else:
        kind = 'unrelated'
        u2 = gen_uri(rng, hist)
    if rng.random() < 0.25:
        u1, u2 = u2, u1
        kind += '/swapped'
    r = rng.random()
    if r < 0.45:
        mb, mk = None, 'none'
    elif r < 0.5:
        mb, mk = '', 'empty'
    elif r < 0.68:
        mb, mk = MATCHBY['uri'], 'rfc3986'
    elif r < 0.74:
        mb, mk = MATCHBY[rng.choice(['ldap', 'uuid'])], 'ldap/uuid'
    elif r < 0.93:
        mb, mk = MATCHBY['strcmp'], 'strcmp'
    else:
        mb, mk = rng.choice([v for v, lab in rules() if lab.startswith('unknown')]), 'unknown'
    hist['pair-' + kind.split('/')[0]] += 1
    hist['matchby-' + mk] += 1
    a, b = render(u1), render(u2)
    r = rng.random()
    if r < 0.03:                                        # text-level noise outside the structured space
        i = rng.randrange(len(a) + 1)
        a = a[:i] + rng.choice(['\t', ' ', '[', '#', '?', '//', ':']) + a[i:]
        u1 = None
        hist['noise'] += 1
    malformed = False
    if rng.random() < 0.04:                             # a text that is no well-formed URI, against itself or anything else
        a = rng.choice(MALFORMED_TEXTS)
        if rng.random() < 0.6:
            b = a
        if rng.random() < 0.3:
            a, b = b, a
        u1 = u2 = None
        malformed = True
        hist['malformed-identical' if a == b else 'malformed-vs-other'] += 1
    return {'mb': mb, 'a': a, 'b': b, 'u1': u1, 'u2': u2, 'kind': kind, 'mk': mk, 'malformed': malformed}



# ----------------------------------------------------------------------------- matching rules (every MatchBy shape)
def rules():
    """(MatchBy value, label).  Labels starting with 'unknown' name URIs the node does not implement."""
    u, s = MATCHBY['uri'], MATCHBY['strcmp']
    host_up = lambda x: x.replace('http://docs.oasis-open.org', 'HTTP://DOCS.OASIS-OPEN.ORG')   # noqa: E731
    return [(None, 'none'), ('', 'empty'), (u, 'rfc3986'), (MATCHBY['ldap'], 'ldap'), (MATCHBY['uuid'], 'uuid'), (s, 'strcmp'),
            ('http://example.org/discovery/own-rule', 'unknown:other'), (u.upper(), 'unknown:rfc-upper'),
            (s.upper(), 'unknown:strcmp-upper'), (host_up(u), 'unknown:rfc-mixed-case'), (host_up(s), 'unknown:strcmp-mixed-case'),
            (u + '/', 'unknown:rfc-suffix'), (s[:-1], 'unknown:strcmp-prefix'), ('strcmp0', 'unknown:bare-word')]


def rule_kind(mb):
    """Which rule a MatchBy value selects, read off the WS-Discovery URIs (not off the code)."""
    if mb is None or mb == '' or mb in (MATCHBY['uri'], MATCHBY['ldap'], MATCHBY['uuid']):
        return 'rfc'
    return 'strcmp' if mb == MATCHBY['strcmp'] else 'unknown'


def pick_rule(rng, p_unknown=0.4):
    rs = rules()
    if rng.random() < p_unknown:
        return rng.choice([r for r in rs if r[1].startswith('unknown')])
    return rng.choice([r for r in rs if not r[1].startswith('unknown')])


# texts that are no well-formed URIs (unbalanced brackets, bracketed host that is no IPv6 / IPvFuture literal)
MALFORMED_TEXTS = ['http://[::1/x', 'x://[1.2.3.4]/a', 'x://[vz]/a', 'http://[x/a', 'x://a]/b']


# ----------------------------------------------------------------------------- generators: services + filter
def gen_filter_case(rng, hist):
    """Some services and one (types, scopes) filter for _is_scope_in_list / matches_filter / filter_services.
    The requested scope list is often VERBATIM what a service has, under every rule."""
    base = gen_pair(rng, Counter())
    pool = {base['a']: base['u1'], base['b']: base['u2']}
    x = gen_uri(rng, Counter())
    pool[render(x)] = x
    if rng.random() < 0.4:
        pool[rng.choice(MALFORMED_TEXTS)] = 'malformed'
    texts = list(pool)
    svcs = []
    for i in range(rng.choice([1, 2, 2, 3])):
        sc = None if rng.random() < 0.1 else [rng.choice(texts) for _ in range(rng.choice([0, 1, 1, 2, 2, 3]))]
        svcs.append({'epr': f'e{i}', 'types': [rng.choice(TYPES) for _ in range(rng.choice([0, 1, 2]))],
                     'scopes': None if sc is None else {'mb': pick_rule(rng, 0.2)[0], 'text': sc}})
    r = rng.random()
    tgt = rng.choice(svcs)
    types = None if r < 0.5 else [t for t in tgt['types'] if rng.random() < 0.8] if r < 0.85 else \
        [rng.choice(TYPES) for _ in range(rng.choice([0, 1, 2]))]
    with_sc = [s for s in svcs if s['scopes'] and s['scopes']['text']]
    r = rng.random()
    if r < 0.08:
        scopes, shape = None, 'no-scopes'
    else:
        mb, _ = pick_rule(rng)
        if r < 0.14 or not with_sc:
            text, shape = ([], 'empty-list') if r < 0.14 else ([rng.choice(texts) for _ in range(rng.choice([1, 2]))], 'pool')
        else:
            have = rng.choice(with_sc)['scopes']['text']
            if r < 0.5:
                text, shape = list(have), 'verbatim-list'
            elif r < 0.62:
                text, shape = [h for h in have if rng.random() < 0.6] or have[:1], 'verbatim-subset'
            elif r < 0.72:
                text, shape = list(reversed(have)) + have[:1], 'verbatim-reordered-dup'
            elif r < 0.82:
                text, shape = list(have) + [rng.choice(texts)], 'verbatim-plus-one'
            else:
                text, shape = [rng.choice(texts) for _ in range(rng.choice([1, 2, 3]))], 'pool'
        scopes = {'mb': mb, 'text': text}
    hist['shape-' + shape] += 1
    return {'svcs': svcs, 'types': types, 'scopes': scopes, 'pool': pool}


def ident_class(svcs, scopes, malformed=()):
    """How much of the requested scope list is textually identical to what one service has (measured on the case)."""
    if scopes is None:
        return 'no-scopes'
    req = scopes['text']
    if not req:
        return 'empty-list'
    lists = [s['scopes']['text'] if isinstance(s['scopes'], dict) else s['scopes'] for s in svcs if s['scopes'] is not None]
    mal = '+malformed' if any(u in malformed for u in req) else ''
    if any(req == have for have in lists):
        return 'identical-list' + mal
    if any(all(u in have for u in req) for have in lists):
        return 'all-verbatim' + mal
    if any(u in have for u in req for have in lists):
        return 'some-verbatim' + mal
    return 'none-verbatim' + mal


def rule_label(mb):
    return next((lab for v, lab in rules() if v == mb), 'unknown:other')

# ----------------------------------------------------------------------------- generators: message sequences
NS = ['http://ns1', 'http://ns2']
TYPES = [[NS[0], 'T1'], [NS[0], 'T2'], [NS[1], 'T1'], [NS[0], 't1']]
SCOPE_URIS = [
    {'scheme': 'x', 'auth': None, 'parts': ['', 'a'], 'query': None, 'frag': None},
    {'scheme': 'x', 'auth': None, 'parts': ['', 'a', 'b'], 'query': None, 'frag': None},
    {'scheme': 'X', 'auth': None, 'parts': ['', 'a'], 'query': 'q=1', 'frag': None},
    {'scheme': 'x', 'auth': None, 'parts': ['', 'A'], 'query': None, 'frag': None},
    {'scheme': 'x', 'auth': 'Host', 'parts': ['', 'a'], 'query': None, 'frag': None},
    {'scheme': 'x', 'auth': 'host', 'parts': ['', 'a', 'c%2Fd'], 'query': None, 'frag': None},
    {'scheme': 'x', 'auth': None, 'parts': ['', '%61', 'b', ''], 'query': None, 'frag': None},
    {'scheme': 'sdc.ctxt.loc', 'auth': None, 'parts': ['', 'sdc.ctxt.loc.detail', 'H%2F%2F%2FP%2F%2FB'], 'query': 'fac=H&poc=P&bed=B',
     'frag': None},
    {'scheme': 'sdc.mds.pkp', 'auth': None, 'parts': ['1.2.840.10004.20701.1.1'], 'query': None, 'frag': None},
]
SCOPE_TEXT = {render(u): u for u in SCOPE_URIS}
# schema-valid (xs:anyURI) scope texts a remote device can really send: lossy-decoding twins and an authority urlsplit rejects
ODD_URIS = [{'scheme': 'x', 'auth': None, 'parts': ['', '%FF'], 'query': None, 'frag': None},
            {'scheme': 'x', 'auth': None, 'parts': ['', '%FE'], 'query': None, 'frag': None}]
SCOPE_TEXT.update({render(u): u for u in ODD_URIS})
MALFORMED_SCOPES = ['x://[1.2.3.4]/a', 'x://[vz]/a']       # schema-valid xs:anyURI, rejected by urlsplit
ODD_SCOPES = [render(u) for u in ODD_URIS] + MALFORMED_SCOPES


def gen_scope_list(rng, allow_odd=True, p_odd=0.04):
    n = rng.choice([0, 1, 1, 2, 3])
    out = [rng.choice(list(SCOPE_TEXT)) for _ in range(n)]
    if allow_odd and rng.random() < p_odd:
        out.insert(rng.randint(0, len(out)), rng.choice(ODD_SCOPES))
    return out


def gen_svc(rng, epr, hist, mdv=None):
    r = rng.random()
    types = None if r < 0.1 else [rng.choice(TYPES) for _ in range(rng.choice([0, 1, 1, 2]))]
    # the Scopes element of an announcement may carry a MatchBy attribute of its own (it plays no role for the table)
    scopes = None if rng.random() < 0.2 else {'mb': pick_rule(rng, 0.3)[0] if rng.random() < 0.25 else None,
                                              'text': gen_scope_list(rng, p_odd=0.08)}
    r = rng.random()
    xaddrs = None if r < 0.12 else [f'http://10.0.0.{rng.randint(1, 3)}:{rng.randint(1, 3)}/x' for _ in range(rng.choice([0, 1, 1, 2, 3]))]
    mdv = rng.choice([0, 1, 1, 2, 2, 3, 4, 5, 4294967295]) if mdv is None else mdv
    return {'epr': epr, 'types': types, 'scopes': scopes, 'xaddrs': xaddrs, 'mdv': mdv}


def gen_filter(rng):
    types = None if rng.random() < 0.4 else [rng.choice(TYPES) for _ in range(rng.choice([0, 1, 1, 2]))]
    if rng.random() < 0.35:
        scopes = None
    else:
        r = rng.random()
        mb = None if r < 0.5 else '' if r < 0.55 else MATCHBY['uri'] if r < 0.7 else MATCHBY['strcmp'] if r < 0.9 else \
            pick_rule(rng, 0.7)[0]
        scopes = {'mb': mb, 'text': gen_scope_list(rng)}
    return types, scopes


def gen_verbatim_filter(rng, ptypes, pscopes):
    """A filter whose scope list is verbatim (all of / part of) what a service offers, under any rule."""
    r = rng.random()
    text = list(pscopes) if r < 0.6 else [x for x in pscopes if rng.random() < 0.6] or list(pscopes[:1]) if r < 0.85 else \
        list(reversed(pscopes))
    types = None if rng.random() < 0.5 else [x for x in ptypes if rng.random() < 0.7]
    return types, {'mb': pick_rule(rng, 0.45)[0], 'text': text}


def gen_bye(rng, epr, aps, hist, mdv='random'):
    """A Bye with any of its optional parts: AppSequence header, MetadataVersion, Types, Scopes, XAddrs."""
    m = {'kind': 'bye', 'epr': epr, 'appseq': aps, 'mdv': None, 'types': None, 'scopes': None, 'xaddrs': None}
    if mdv != 'random':
        m['mdv'] = mdv
    elif rng.random() < 0.6:
        m['mdv'] = rng.choice([0, 1, 1, 2, 2, 3, 4, 5, 4294967295])
    if rng.random() < 0.35:
        m['types'] = [rng.choice(TYPES) for _ in range(rng.choice([0, 1, 2]))]
    if rng.random() < 0.35:
        m['scopes'] = {'mb': pick_rule(rng, 0.3)[0] if rng.random() < 0.3 else None, 'text': gen_scope_list(rng)}
    if rng.random() < 0.35:
        m['xaddrs'] = [f'http://10.0.0.{rng.randint(1, 3)}:{rng.randint(1, 3)}/x' for _ in range(rng.choice([0, 1, 2]))]
    for k_ in ('mdv', 'types', 'scopes', 'xaddrs', 'appseq'):
        hist[f'bye-{k_}-' + ('absent' if m[k_] is None else 'present')] += 1
    return m


def gen_iid(rng):
    """AppSequence/@InstanceId: xs:unsignedInt, 0 is legal (devices without a boot counter)."""
    return rng.choice([0, 0, 1, 2, 3, 4294967295])


def decorate_aps(rng, m, hist, allow):
    """The other attributes of an AppSequence header (MessageNumber incl. 0, optional SequenceId) + statistics."""
    if 'appseq' not in m:
        return m
    if m['appseq'] is not None:
        m['aps_msgno'] = rng.choice([0, 1, 1, 7, 4294967295])
        m['aps_seqid'] = rng.choice([None, None, 'urn:uuid:seq-1'])
    hist[f"appseq:{m['kind']}:" + ('absent,option-' + ('on' if allow else 'off') if m['appseq'] is None else
                                   'iid-0' if m['appseq'] == 0 else 'iid-large' if m['appseq'] > 1000 else 'iid-small')] += 1
    return m


def gen_announce(rng, epr, mdv, hist, allow=False):
    """Hello / ProbeMatches / ResolveMatches that is acted on, announcing epr with the given version."""
    aps = None if allow and rng.random() < 0.3 else gen_iid(rng)
    strip = [t for t in ('Types', 'XAddrs') if rng.random() < 0.2]
    k = rng.random()
    if k < 0.5:
        return {'kind': 'hello', 'appseq': aps, 'svc': gen_svc(rng, epr, hist, mdv), 'strip': strip}
    if k < 0.75:
        return {'kind': 'resolvematches', 'appseq': aps, 'strip': strip, 'match': gen_svc(rng, epr, hist, mdv)}
    return {'kind': 'probematches', 'appseq': aps, 'strip': strip, 'matches': [gen_svc(rng, epr, hist, mdv)]}


def gen_seq(rng, hist):
    cap = rng.choice([2, 3, 5, 200, 200])
    allow = rng.random() < 0.35               # module option allow_missing_app_sequence (default off)
    hist['option-allow_missing_app_sequence-' + ('on' if allow else 'off')] += 1
    remote_eprs = ['urn:uuid:r1', 'urn:uuid:r2', 'urn:uuid:r3']
    local_eprs = ['urn:uuid:l1', 'urn:uuid:l2', 'urn:uuid:l3']
    events = []
    next_mid = 1
    used = []
    published = []
    pub_info = {}
    iid = 10
    announced = {}              # remote epr -> scope texts of its latest generated announcement

    def note_announced(m):
        for sv in ([m['svc']] if m['kind'] == 'hello' else m['matches'] if m['kind'] == 'probematches' else
                   [m['match']] if m['kind'] == 'resolvematches' and m['match'] else []):
            if sv['scopes'] and sv['scopes']['text']:
                announced[sv['epr']] = (sv['types'] or [], sv['scopes']['text'])

    if rng.random() < 0.3:
        # one epoch change of a remote service: announced with a version, Bye (carrying a lower / equal / higher / no
        # MetadataVersion and any other optional part), announced again with a restarted version
        epr = rng.choice(remote_eprs)
        hi = rng.choice([2, 3, 4, 5, 4294967295])
        rel = rng.choice(['lower', 'lower', 'equal', 'higher', 'absent'])
        bye_v = {'lower': rng.choice([0, 1, hi - 1]), 'equal': hi, 'higher': min(hi + 1, 4294967295), 'absent': None}[rel]
        lo = rng.choice([0, 1, 1, hi - 1, hi])
        plan = [gen_announce(rng, epr, hi, hist, allow), gen_bye(rng, epr, None if rng.random() < 0.5 else gen_iid(rng), hist, bye_v),
                gen_announce(rng, epr, lo, hist, allow)]
        hist['epoch-scenario:bye-mdv-' + rel] += 1
        for m in plan:
            if rng.random() < 0.25:
                events.append(['found', None, None])
            note_announced(m)
            decorate_aps(rng, m, hist, allow)
            hist['msg-' + m['kind']] += 1
            events.append(['in', next_mid, m])
            used.append(next_mid)
            next_mid += 1
        events.append(['found', None, None])
    for _ in range(rng.randint(3, 14)):
        r = rng.random()
        if r < 0.16:
            epr = rng.choice(local_eprs)
            iid += 1
            sc = None if rng.random() < 0.15 else {'mb': None, 'text': gen_scope_list(rng, p_odd=0.2)}
            events.append(['pub', epr, [rng.choice(TYPES) for _ in range(rng.choice([0, 1, 2, 2]))], sc,
                           [f'http://127.0.0.1:{rng.randint(1, 3)}/p' for _ in range(rng.choice([0, 1, 2]))], iid])
            if epr not in published:
                published.append(epr)
            pub_info[epr] = (events[-1][2], None if sc is None else sc['text'])
            hist['ev-pub'] += 1
        elif r < 0.2 and published:
            epr = rng.choice(published)
            published.remove(epr)
            pub_info.pop(epr, None)
            events.append(['clear', epr])
            hist['ev-clear'] += 1
        elif r < 0.25:
            events.append(['loop', rng.randint(0, max(0, len(events)))])
            hist['ev-loop'] += 1
        elif r < 0.31:
            t, s = gen_filter(rng)
            if announced and rng.random() < 0.5:
                t, s = gen_verbatim_filter(rng, *announced[rng.choice(sorted(announced))])
                hist['found-verbatim'] += 1
            events.append(['found', t, s])
            hist['ev-found'] += 1
        else:
            if used and rng.random() < 0.15:
                mid = rng.choice(used[-4:])
                hist['mid-duplicate'] += 1
            else:
                mid = next_mid
                next_mid += 1
            used.append(mid)
            aps = None if rng.random() < 0.15 else gen_iid(rng)
            k = rng.random()
            epr = rng.choice(remote_eprs + (['', 'urn:uuid:l1'] if rng.random() < 0.1 else []))
            strip = [t for t in ('Types', 'XAddrs') if rng.random() < 0.3]
            if k < 0.3:
                m = {'kind': 'hello', 'appseq': aps, 'svc': gen_svc(rng, epr, hist), 'strip': strip}
            elif k < 0.42:
                m = gen_bye(rng, epr, aps, hist)
            elif k < 0.62:
                t, s = gen_filter(rng)
                with_sc = sorted(e for e, (_, sc_) in pub_info.items() if sc_)
                if with_sc and rng.random() < 0.45:
                    # the scope list is verbatim what a published service has, under any rule (also unsupported ones)
                    odd = [e for e in with_sc if any(x in MALFORMED_SCOPES for x in pub_info[e][1])]
                    t, s = gen_verbatim_filter(rng, *pub_info[rng.choice(odd if odd and rng.random() < 0.6 else with_sc)])
                    if odd and rng.random() < 0.5:
                        s['mb'] = pick_rule(rng, 0.0)[0]        # a supported rule: a malformed scope must not match itself
                    hist['probe-verbatim'] += 1
                elif pub_info and rng.random() < 0.55:
                    # ask for (part of) what a published service offers: types subset, scopes that are prefixes / re-spellings
                    ptypes, pscopes = pub_info[rng.choice(sorted(pub_info))]
                    t = None if rng.random() < 0.3 else [x for x in ptypes if rng.random() < 0.7]
                    if pscopes and rng.random() < 0.7:
                        pick = [x for x in pscopes if rng.random() < 0.7 and x in SCOPE_TEXT]
                        text = []
                        for x in pick:
                            u = json.loads(json.dumps(SCOPE_TEXT[x]))
                            if len(u['parts']) > 2 and rng.random() < 0.5:
                                u['parts'] = u['parts'][:-1]
                            if rng.random() < 0.3:
                                u['scheme'] = swap_case(u['scheme'])
                            u['query'] = None
                            SCOPE_TEXT.setdefault(render(u), u)
                            text.append(render(u))
                        mbs = rng.choice([None, None, '', MATCHBY['uri'], MATCHBY['strcmp']])
                        if mbs == MATCHBY['strcmp']:
                            text = pick
                        s = {'mb': mbs, 'text': text}
                    else:
                        s = None if rng.random() < 0.5 else s
                m = {'kind': 'probe', 'types': t, 'scopes': s}
            elif k < 0.77:
                m = {'kind': 'probematches', 'appseq': aps, 'strip': strip,
                     'matches': [gen_svc(rng, rng.choice(remote_eprs), hist) for _ in range(rng.choice([0, 1, 1, 2, 3]))]}
            elif k < 0.87:
                m = {'kind': 'resolve', 'epr': rng.choice(published) if published and rng.random() < 0.5 else
                     rng.choice(local_eprs + remote_eprs)}
            elif k < 0.97:
                m = {'kind': 'resolvematches', 'appseq': aps, 'strip': strip,
                     'match': None if rng.random() < 0.1 else gen_svc(rng, epr, hist)}
            else:
                m = {'kind': 'other'}
            hist['msg-' + m['kind']] += 1
            note_announced(m)
            decorate_aps(rng, m, hist, allow)
            events.append(['in', mid, m])
    hist[f'cap-{cap}'] += 1
    return {'cap': cap, 'allow': allow, 'events': events}


# ----------------------------------------------------------------------------- rendering for the extracted model
def types_tok(ts):
    return ' '.join([str(len(ts))] + [f'{hx(a)} {hx(b)}' for a, b in ts])


def strs_tok(xs):
    return ' '.join([str(len(xs))] + [hx(x) for x in xs])


def svc_tok(s):
    """A service as announced in a message: absent Types / XAddrs read as empty lists."""
    sc = '~' if s['scopes'] is None else strs_tok(s['scopes']['text'])
    return f"{hx(s['epr'])} {types_tok(s['types'] or [])} {sc} {strs_tok(s['xaddrs'] or [])} {s['mdv']}"


def sf_tok(sc):
    return '~' if sc is None else f"sf {hxo(sc['mb'])} {strs_tok(sc['text'])}"


def aps_tok(a):
    return '~' if a is None else str(a)


def msg_tok(m):
    k = m['kind']
    if k == 'hello':
        return f"hello {aps_tok(m['appseq'])} {svc_tok(m['svc'])}"
    if k == 'bye':
        sc = '~' if m.get('scopes') is None else strs_tok(m['scopes']['text'])
        return (f"bye {hx(m['epr'])} {aps_tok(m.get('appseq'))} {aps_tok(m.get('mdv'))} {types_tok(m.get('types') or [])} {sc} "
                f"{strs_tok(m.get('xaddrs') or [])}")
    if k == 'probe':
        return f"probe {'~' if m['types'] is None else types_tok(m['types'])} {sf_tok(m['scopes'])}"
    if k == 'probematches':
        return ' '.join([f"pm {aps_tok(m['appseq'])} {len(m['matches'])}"] + [svc_tok(s) for s in m['matches']])
    if k == 'resolve':
        return f"resolve {hx(m['epr'])}"
    if k == 'resolvematches':
        return f"rm {aps_tok(m['appseq'])} {'~' if m['match'] is None else svc_tok(m['match'])}"
    return 'other'


def ev_tok(ev):
    if ev[0] == 'pub':
        _, epr, types, scopes, xaddrs, iid = ev
        sc = '~' if scopes is None else strs_tok(scopes['text'])
        return f'pub {hx(epr)} {types_tok(types)} {sc} {strs_tok(xaddrs)} {iid}'
    if ev[0] == 'clear':
        return f'clear {hx(ev[1])}'
    if ev[0] == 'in':
        return f'in {ev[1]} {msg_tok(ev[2])}'
    if ev[0] == 'loop':
        return f'loop {ev[1]}'
    return f"found {'~' if ev[1] is None else types_tok(ev[1])} {sf_tok(ev[2])}"


def csvc_tok(s):
    """A service as canonicalised by c14_impl (svc_canon)."""
    sc = '~' if s['scopes'] is None else strs_tok(s['scopes'])
    return f"{hx(s['epr'])} {types_tok(s['types'])} {sc} {strs_tok(s['xaddrs'])} {s['mdv']} {s['iid']}"


def out_tok(o):
    k = o['kind']
    if k == 'Hello':
        return 'H ' + csvc_tok(o['svc'])
    if k == 'Bye':
        return 'B ' + hx(o['epr'])
    if k == 'ProbeMatches':
        return ' , '.join('PM ' + csvc_tok(m) for m in o['matches'])
    if k == 'ResolveMatches':
        return 'RM ' + csvc_tok(o['svc'])
    if k == 'Resolve':
        return 'R ' + hx(o['epr'])
    return '?' + k


def trace_line(c, tr):
    parts = []
    for ev, st in zip(c['events'], tr['steps']):
        if ev[0] == 'found':
            parts.append('FE' if not isinstance(st['note'], dict) else 'F' + ''.join(' ' + hx(e) for e in st['note']['found']))
        else:
            parts.append(' , '.join(out_tok(o) for o in st['outs']))
    line = ''.join(p + ' ; ' for p in parts)
    tbl = lambda keys, svcs: ' , '.join(f'{hx(k_)} = {csvc_tok(s)}' for k_, s in zip(keys, svcs))  # noqa: E731
    return (line + 'REMOTE ' + tbl(tr['remote_keys'], tr['remote']) + ' ; LOCAL ' +
            tbl([s['epr'] for s in tr['local']], tr['local']) + ' ; KNOWN' + ''.join(f' {x}' for x in tr['known']))


# ----------------------------------------------------------------------------- oracles on implementation traces
def scope_ref_match(mb, my, other):
    """Reference verdict for scope texts of the sequence pools (None = not decidable by the reference)."""
    if mb in (None, '', MATCHBY['uri'], MATCHBY['ldap'], MATCHBY['uuid']):
        if my in MALFORMED_SCOPES or other in MALFORMED_SCOPES:
            return False                      # not a well-formed URI: matches nothing
        if my not in SCOPE_TEXT or other not in SCOPE_TEXT:
            return None
        return ref_match_rfc(SCOPE_TEXT[my], SCOPE_TEXT[other])
    if mb == MATCHBY['strcmp']:
        return my == other
    return False


def ref_matches(svc_types, svc_scopes, types, scopes, sref=None):
    sref = sref or scope_ref_match
    if types is not None:
        for t in types:
            if not any(t[0] == u[0] and t[1] == u[1] for u in svc_types):
                return False
    if scopes is not None:
        for uri in scopes['text']:
            if svc_scopes is None:
                return False
            verdicts = [sref(scopes['mb'], uri, e) for e in svc_scopes]
            if any(v is True for v in verdicts):
                continue
            if any(v is None for v in verdicts):
                return None
            return False
    return True


def oracle_seq(ctx, c, tr, stats):
    cap = c['cap']
    allow = bool(c.get('allow'))

    def acted_on(m_):
        """An announcement is acted on iff it has an AppSequence (any InstanceId, 0 included) or the option is on."""
        return m_.get('appseq') is not None or allow
    mem = []                    # newest first, as the statement says: recently seen ids the node remembers
    n_sent = 0
    local = {}                  # epr -> (types, scopes text|None, xaddrs, mdv)
    ann = {}                    # epr -> versions announced since the last Bye (of acted-on messages)
    ann_full = {}               # epr -> [(version, types, scopes)] announced since the last Bye
    before_bye = {}             # epr -> highest version recorded when its last Bye arrived

    def note_ann(svc):
        if svc['epr'] not in ann and svc['epr'] in before_bye:
            pre = before_bye.pop(svc['epr'])
            stats['first-announcement-after-bye:version-' + ('lower' if svc['mdv'] < pre else 'equal' if svc['mdv'] == pre
                                                             else 'higher') + '-than-before-the-bye'] += 1
        ann.setdefault(svc['epr'], []).append(svc['mdv'])
        ann_full.setdefault(svc['epr'], []).append(
            (svc['mdv'], tuple(tuple(t) for t in (svc['types'] or [])), tuple((svc['scopes'] or {}).get('text') or [])))
    sent_msgs = []

    def remember(i):
        nonlocal mem
        mem = ([i] + mem)[:cap]

    def fail(what, clause, k):
        ctx.fail(what, {'stream': 'sequence', 'clause': clause},
                 {'stream': 'sequence', 'case': c, 'event_index': k, 'impl_trace': tr,
                  'oracle': {'verdict': 'fail', 'clause': clause}})

    for k, (ev, st) in enumerate(zip(c['events'], tr['steps'])):
        outs = st['outs']
        acted = None
        m = None
        if ev[0] == 'pub':
            _, epr, types, scopes, xaddrs, iid = ev
            mdv = local[epr][3] + 1 if epr in local else 1
            local[epr] = (types, None if scopes is None else scopes['text'], xaddrs, mdv)
        elif ev[0] == 'clear':
            local.pop(ev[1], None)
        elif ev[0] == 'in':
            mid, m = ev[1], ev[2]
            if st['note']:
                stats['invalid-message'] += 1
                m = None
            else:
                acted = mid not in mem
                if acted:
                    remember(mid)
        elif ev[0] == 'loop':
            if ev[1] < len(sent_msgs):
                own = -(ev[1] + 1)
                acted = own not in mem
                if acted:
                    remember(own)
                    m = sent_msgs[ev[1]]
                    stats['own-message-acted-after-eviction'] += 1
                else:
                    stats['own-message-ignored'] += 1
        # ---- dedup clause: a remembered id is not acted on
        if acted is False:
            stats['duplicate-dropped'] += 1
            if outs or (k > 0 and st['remote_brief'] != tr['steps'][k - 1]['remote_brief']):
                fail(f'message id {ev[1]} acted on although it is among the remembered ids (cap={cap})', 'acted-while-known', k)
        # ---- what an acted-on message must cause
        if acted and m is not None:
            kind = m['kind']
            if kind == 'probe':
                stats['probe'] += 1
                want = []
                undecided = False
                for epr, (types, scopes, xaddrs, mdv) in local.items():
                    v = ref_matches(types, scopes, m['types'], m['scopes'])
                    if v is None:
                        undecided = True
                    elif v:
                        want.append(epr)
                got = [mm['epr'] for o in outs if o['kind'] == 'ProbeMatches' for mm in o['matches']]
                if undecided:
                    stats['probe-out-of-reference'] += 1
                else:
                    if m['scopes'] is not None and m['scopes']['text']:
                        stats['probe-judged: ' + ident_class([{'scopes': v_[1]} for v_ in local.values()], m['scopes'],
                                                             MALFORMED_SCOPES) + ' x ' + rule_label(m['scopes']['mb']) +
                              (' -> answered' if want else ' -> silent')] += 1
                    if want:
                        stats['probe-answered'] += 1
                    if got != want:
                        fail(f'Probe (types={m["types"]}, scopes={m["scopes"]}) answered with {got}, the matching published '
                             f'services are {want}', 'probe-exact', k)
                    for o in outs:
                        if o['kind'] != 'ProbeMatches' or len(o['matches']) != 1 or o['multicast'] or \
                                o['to'] != ['10.0.0.9', 4000 + (ev[1] % 7)] or not str(o['relates_to']).endswith(f'{ev[1]:012d}'):
                            fail(f'unexpected answer to a Probe: {o}', 'probe-answer-shape', k)
                        else:
                            mm = o['matches'][0]
                            t, s, x, v = local[mm['epr']]
                            if (mm['types'], mm['scopes'], mm['xaddrs'], mm['mdv']) != ([list(q) for q in t], s, x, v):
                                fail(f'ProbeMatch does not describe the published service: {mm} vs {local[mm["epr"]]}',
                                     'probe-answer-content', k)
            elif kind == 'resolve':
                stats['resolve'] += 1
                got = [o['svc']['epr'] for o in outs if o['kind'] == 'ResolveMatches']
                want = [m['epr']] if m['epr'] in local else []
                if want:
                    stats['resolve-answered'] += 1
                if got != want or any(o['kind'] != 'ResolveMatches' for o in outs):
                    fail(f'Resolve for {m["epr"]!r} answered with {outs}; published: {sorted(local)}', 'resolve-only-published', k)
            else:
                if any(o['kind'] in ('ProbeMatches', 'ResolveMatches') for o in outs):
                    fail(f'{kind} message answered with {outs}', 'unsolicited-answer', k)
                if kind in ('hello', 'probematches', 'resolvematches'):
                    stats[f'announcement:{kind}:' + ('acted-on' if acted_on(m) else 'ignored') + ',appseq-' +
                          ('absent' if m.get('appseq') is None else 'iid-0' if m['appseq'] == 0 else 'iid-nonzero')] += 1
                if kind == 'hello' and acted_on(m) and m['svc']['epr']:
                    note_ann(m['svc'])
                elif kind == 'probematches' and acted_on(m):
                    for s in m['matches']:
                        if s['epr']:
                            note_ann(s)
                elif kind == 'resolvematches' and acted_on(m) and m['match'] is not None and m['match']['epr']:
                    note_ann(m['match'])
                elif kind == 'bye':
                    # "since its last Bye", literally: an acted-on Bye for the endpoint reference ends the history,
                    # whatever else it carries (AppSequence or not, any MetadataVersion, Types, Scopes, XAddrs)
                    rec = max(ann[m['epr']]) if m['epr'] in ann else None
                    v = m.get('mdv')
                    stats['bye:' + ('no-entry' if rec is None else 'entry') + ',mdv-' +
                          ('absent' if v is None else 'n/a' if rec is None else 'lower' if v < rec else 'equal' if v == rec
                           else 'higher') + ('' if all(m.get(x) is None for x in ('types', 'scopes', 'xaddrs')) else ',extras')] += 1
                    if rec is not None:
                        before_bye[m['epr']] = rec
                    ann.pop(m['epr'], None)
                    ann_full.pop(m['epr'], None)
        # ---- table clause after every event: per epr the highest version since its last Bye
        want_tbl = sorted((e, max(v)) for e, v in ann.items())
        got_tbl = sorted((e, v) for e, v in st['remote_brief'])
        if want_tbl != got_tbl:
            fail(f'after event {k} the table holds {got_tbl}, highest versions announced since the last Bye are {want_tbl}',
                 'table-max-version', k)
            return
        # ---- ... and the entry IS an announcement of that version: its types and scopes were announced with the highest
        # version (an outdated announcement must not leak into the entry; equal versions may merge)
        for e, types, scopes in st.get('remote_content', []):
            top = [a for a in ann_full.get(e, []) if a[0] == max(ann[e])]
            tt = tuple(tuple(t) for t in types)
            if tt not in [a[1] for a in top] or tuple(scopes) not in [a[2] for a in top]:
                fail(f'after event {k} the entry of {e} (version {max(ann[e])}) has types {types} / scopes {scopes}, which no '
                     f'announcement with that version carried: {top}', 'table-entry-content', k)
                return
        # ---- client-side query: exactly the entries of the table (as observed) that match under the requested rule
        if ev[0] == 'found' and isinstance(st['note'], dict):
            want, undecided = [], False
            for e, types, scopes in st.get('remote_content', []):
                v = ref_matches(types, scopes, ev[1], ev[2])
                undecided = undecided or v is None
                if v:
                    want.append(e)
            if undecided:
                stats['found-out-of-reference'] += 1
            else:
                stats['found-judged'] += 1
                if ev[2] is not None and ev[2]['text']:
                    stats['found-judged: ' + ident_class([{'scopes': sc_} for _, _, sc_ in st['remote_content']], ev[2],
                                                         MALFORMED_SCOPES) + ' x ' + rule_label(ev[2]['mb'])] += 1
                if st['note']['found'] != want:
                    fail(f'get_found_remote_services(types={ev[1]}, scopes={ev[2]}) returns {st["note"]["found"]}, the entries '
                         f'matching under the requested rule are {want}', 'found-exact', k)
        # own messages created by this event, for later loop-backs
        for o in outs:
            n_sent += 1
            remember(-n_sent)
            if o['kind'] == 'Hello':
                s = o['svc']
                sent_msgs.append({'kind': 'hello', 'appseq': o['appseq'], 'svc': {
                    'epr': s['epr'], 'types': s['types'], 'scopes': None if s['scopes'] is None else {'mb': None, 'text': s['scopes']},
                    'xaddrs': s['xaddrs'], 'mdv': s['mdv']}})
            elif o['kind'] == 'Bye':
                sent_msgs.append({'kind': 'bye', 'epr': o['epr']})
            elif o['kind'] == 'ProbeMatches':
                sent_msgs.append({'kind': 'probematches', 'appseq': o['appseq'], 'matches': [
                    {'epr': s['epr'], 'types': s['types'], 'scopes': None if s['scopes'] is None else {'mb': None, 'text': s['scopes']},
                     'xaddrs': s['xaddrs'], 'mdv': s['mdv']} for s in o['matches']]})
            elif o['kind'] == 'ResolveMatches':
                s = o['svc']
                sent_msgs.append({'kind': 'resolvematches', 'appseq': o['appseq'], 'match': {
                    'epr': s['epr'], 'types': s['types'], 'scopes': None if s['scopes'] is None else {'mb': None, 'text': s['scopes']},
                    'xaddrs': s['xaddrs'], 'mdv': s['mdv']}})
            else:
                sent_msgs.append({'kind': 'resolve', 'epr': o['epr']})
    if tr['known'] != mem:
        fail(f'remembered ids {tr["known"]} differ from the last {cap} ids seen/sent {mem}', 'id-memory', len(c['events']))


# ----------------------------------------------------------------------------- run
def run(ctx):
    ctx.regenerate('gen_wsd_params', 'Wsd/Gen_Params.v')
    if not ctx.regenerate('gen_wsd_match', 'Wsd/Gen_Match.v'):
        return ctx.finish('translator failed', [], [])
    MATCHBY.update(ctx.impl('gen_wsd_match', {})['matchby'])
    if not ctx.prove():
        ctx.broken('theorem', 'Props/C14.v', ctx.proof_error)
    t0 = time.time()
    hist = Counter()
    pairs = [gen_pair(ctx.rng, hist) for _ in range(ctx.n(5000, 150000))]
    # fixed witnesses (DESIGN / test_discovery.test_scope_match shapes and the two deviations found)
    pairs[:0] = [{'mb': None, 'a': 'http://[x/a', 'b': 'http://h/a', 'u1': None, 'u2': None, 'kind': 'witness', 'mk': 'none'},
                 {'mb': None, 'a': 'x:/%FF', 'b': 'x:/%FE', 'kind': 'witness', 'mk': 'none',
                  'u1': {'scheme': 'x', 'auth': None, 'parts': ['', '%FF'], 'query': None, 'frag': None},
                  'u2': {'scheme': 'x', 'auth': None, 'parts': ['', '%FE'], 'query': None, 'frag': None}}]
    shist = Counter()
    seqs = [gen_seq(ctx.rng, shist) for _ in range(ctx.n(600, 12000))]
    fhist = Counter()
    filters = [gen_filter_case(ctx.rng, fhist) for _ in range(ctx.n(2500, 60000))]
    impl = ctx.impl('c14_impl', {'pairs': [{'mb': p['mb'], 'a': p['a'], 'b': p['b']} for p in pairs], 'seqs': seqs,
                                 'filters': [{k_: c[k_] for k_ in ('svcs', 'types', 'scopes')} for c in filters],
                                 'scope_pool': list(SCOPE_TEXT) + MALFORMED_SCOPES},
                    timeout=2400)
    if impl.get('_crash'):
        ctx.broken('correspondence', 'implementation run', impl['stderr'])
        return ctx.finish('implementation run crashed', [], [])
    ctx.log(f'implementation run: {time.time() - t0:.1f}s for {len(pairs)} pairs + {len(filters)} filter cases + {len(seqs)} sequences')
    exe, log = ctx.ocaml_driver('Extract/Extract_Wsd_Match.v', 'wsd_match_model', 'driver_c14')
    if exe is None:
        ctx.broken('correspondence', 'extraction/driver build', log[-1500:])

    def model(lines):
        out = subprocess.run([exe], input='\n'.join(lines) + '\n', capture_output=True, text=True, timeout=3000)
        got = out.stdout.splitlines()
        if out.returncode != 0 or len(got) != len(lines):
            return None, (out.stderr or out.stdout)[-800:]
        return got, None

    # ------------------------------------------------------------------ stream 1: scope pairs
    lines, wants, idx, coq = [], [], [], []
    verdicts, pair_ident = Counter(), Counter()
    n_oom_split = n_oom_lower = n_oom_utf8 = n_ref = 0
    for i, (p, r) in enumerate(zip(pairs, impl['pairs'])):
        res = r['res']
        verdicts[f"{p['mk']}:{res}"] += 1
        if p['a'] == p['b']:
            pair_ident[('malformed' if p.get('malformed') else 'well-formed or noise') + ' x ' + rule_label(p['mb']) + f' -> {res}'] += 1
        rfc = p['mk'] in ('none', 'empty', 'rfc3986', 'ldap/uuid')
        # ---- oracle: the statement evaluated directly
        if isinstance(res, str):
            ctx.fail(f'match_scope({p["a"]!r}, {p["b"]!r}, {p["mb"]!r}) raised ({res}): a scope that is not a well-formed URI '
                     f'must simply not match',
                     {'stream': 'pairs', 'clause': 'total', 'result': res},
                     {'stream': 'pairs', 'case': {k_: p[k_] for k_ in ('mb', 'a', 'b')}, 'impl_trace': r,
                      'oracle': {'verdict': 'fail', 'clause': 'match_scope returns a verdict'}})
        elif p['mk'] == 'strcmp':
            if res != int(p['a'] == p['b']):
                ctx.fail(f'strcmp0 matching of {p["a"]!r} and {p["b"]!r} says {res}', {'stream': 'pairs', 'clause': 'strcmp-exact'},
                         {'stream': 'pairs', 'case': {k_: p[k_] for k_ in ('mb', 'a', 'b')}, 'impl_trace': r})
        elif p['mk'] == 'unknown':
            if res != 0:
                ctx.fail(f'unknown MatchBy {p["mb"]!r} matched', {'stream': 'pairs', 'clause': 'unknown-matchby'},
                         {'stream': 'pairs', 'case': {k_: p[k_] for k_ in ('mb', 'a', 'b')}, 'impl_trace': r})
        elif p.get('malformed'):
            if res != 0:
                ctx.fail(f'{p["a"]!r} / {p["b"]!r}: one of them is no well-formed URI, yet match_scope says {res} under MatchBy={p["mb"]!r}',
                         {'stream': 'pairs', 'clause': 'malformed-matches-nothing'},
                         {'stream': 'pairs', 'case': {k_: p[k_] for k_ in ('mb', 'a', 'b')}, 'impl_trace': r})
        elif p['u1'] is not None and p['u2'] is not None:
            ag1, ag2 = py_split_agrees(p['u1'], p['a']), py_split_agrees(p['u2'], p['b'])
            if ag1 is None or ag2 is None:
                pass                                            # urlsplit raised: reported above
            elif not (ag1 and ag2):
                n_oom_split += 1                                # renderer and urlsplit disagree about the split
            elif r['split'] != ['ok', 'ok']:
                n_oom_lower += 1                                # non-ASCII authority (unicode lower())
            else:
                n_ref += 1
                want = int(ref_match_rfc(p['u1'], p['u2']))
                if res != want:
                    ctx.fail(f'RFC 3986 matching of {p["a"]!r} against {p["b"]!r}: code says {res}, scheme/authority '
                             f'case-insensitively + decoded segment-wise prefix says {want}',
                             {'stream': 'pairs', 'clause': 'rfc3986-spec', 'expected': want,
                              'lossy_decode': not r['clean']},
                             {'stream': 'pairs', 'case': {k_: p[k_] for k_ in ('mb', 'a', 'b', 'u1', 'u2')}, 'impl_trace': r,
                              'oracle': {'verdict': 'fail', 'clause': 'C14_rfc3986_spec'}})
        # ---- model comparison on the texts
        if rfc and 'nonascii-netloc' in r['split']:
            continue
        badl = [t for t, v in zip((p['a'], p['b']), r['split']) if v == 'bad']
        lines.append(f"M 1 {hxo(p['mb'])} {hx(p['a'])} {hx(p['b'])} {len(badl)}" + ''.join(' ' + hx(t) for t in badl))
        wants.append('2' if isinstance(res, str) else str(res))
        idx.append(i)
        if len(coq) < ctx.n(150, 600):
            coq.append((f'(({"[" + "; ".join(blit(t) for t in badl) + "]"} : list bytes), {oblit(p["mb"])}, {blit(p["a"])}, {blit(p["b"])})',
                        f'{wants[-1]}%N'))
    if exe:
        got, err = model(lines)
        if err:
            ctx.broken('correspondence', 'pairs (extracted model run)', err)
        else:
            diffs = [j for j, (w, g) in enumerate(zip(wants, got)) if w != g]
            if diffs:
                p = pairs[idx[diffs[0]]]
                ctx.broken('correspondence', 'pairs', {'disagreements': len(diffs), 'of': len(lines),
                                                       'first': {'case': {k_: p[k_] for k_ in ('mb', 'a', 'b')},
                                                                 'impl': wants[diffs[0]], 'model': got[diffs[0]]}})
    mism, err = ctx.coq_mism('pairs', HEADER, 'N.eqb',
                             "fun c => let '(badl, mb, a, b) := c in run_match match_consts true badl mb a b", coq, deps=DEPS, shard=80)
    if err:
        ctx.broken('correspondence', 'pairs (coq evaluation)', err)
    for j in mism[:1]:
        ctx.broken('correspondence', 'pairs (inside Coq)', {'disagreements': len(mism), 'first': coq[j]})
    ctx.count('pairs', len(pairs), [(p['mb'], p['a'], p['b']) for p in pairs], compared_with_model=len(lines),
              also_evaluated_inside_coq=len(coq), judged_by_reference_matcher=n_ref,
              out_of_model={'renderer_vs_urlsplit_split_differs': n_oom_split, 'non_ascii_authority': n_oom_lower,
                            'skipped_for_model_non_ascii_authority': len(pairs) - len(lines)},
              verdicts=dict(sorted(verdicts.items())), identical_text_x_rule=dict(sorted(pair_ident.items())),
              generator_histogram=dict(sorted(hist.items())))
    k_ = next((i for i, r in enumerate(impl['pairs']) if r['res'] == 1 and pairs[i]['kind'].startswith('recoded')), 0)
    ctx.sample({'stream': 'pairs', 'case': {x: pairs[k_][x] for x in ('mb', 'a', 'b', 'kind')}, 'impl': impl['pairs'][k_]})
    ctx.log(f'pairs compared, t={time.time() - t0:.1f}s')

    # ------------------------------------------------------------------ stream 1b: services x filter
    # _is_scope_in_list / matches_filter / filter_services; the requested scope list is mostly verbatim what a service has
    lines, wants, idx, coq = [], [], [], []
    xhist, fstats = Counter(), Counter()

    def qn_lit(t):
        return f'({blit(t[0])}, {blit(t[1])})'

    def lst(xs, ty):
        return f'([{"; ".join(xs)}] : list {ty})'

    for i, (c, r) in enumerate(zip(filters, impl['filters'])):
        pool = c['pool']
        sc = c['scopes']
        ic = ident_class(c['svcs'], sc, [t for t, u in pool.items() if u == 'malformed'])
        lab = 'n/a' if sc is None else rule_label(sc['mb'])
        kind = 'n/a' if sc is None else rule_kind(sc['mb'])
        xhist[f'{ic} x {lab}'] += 1

        def sref(mb, uri, entry, pool=pool, split=r['split']):
            """Reference verdict for one requested scope against one scope of a service (None: not decidable here)."""
            k = rule_kind(mb)
            if k == 'strcmp':
                return uri == entry
            if k == 'unknown':
                return False
            if pool.get(uri) == 'malformed' or pool.get(entry) == 'malformed':
                return False                                     # not a well-formed URI: matches nothing, not even itself
            u1, u2 = pool.get(uri), pool.get(entry)
            if not isinstance(u1, dict) or not isinstance(u2, dict):
                return None
            if py_split_agrees(u1, uri) is not True or py_split_agrees(u2, entry) is not True:
                return None
            if split[uri] != 'ok' or split[entry] != 'ok':
                return None
            return ref_match_rfc(u1, u2)

        def ffail(what, clause, c=c, r=r, kind=kind, ic=ic):
            ctx.fail(what, {'stream': 'filters', 'clause': clause, 'rule': kind, 'identical': ic.split('+')[0]},
                     {'stream': 'filters', 'case': {k_: c[k_] for k_ in ('svcs', 'types', 'scopes')}, 'impl_trace': r,
                      'oracle': {'verdict': 'fail', 'clause': clause}})

        exp_m = []
        for j, sv in enumerate(c['svcs']):
            have = None if sv['scopes'] is None else sv['scopes']['text']
            types_ok = c['types'] is None or all(any(t == u for u in sv['types']) for t in c['types'])
            for k_, u in enumerate(sc['text'] if sc else []):
                vs = [] if have is None else [sref(sc['mb'], u, e) for e in have]
                want = True if any(v is True for v in vs) else None if any(v is None for v in vs) else False
                got = r['in_list'][j][k_]
                if got == 2:
                    ffail(f'_is_scope_in_list({u!r}, {sc["mb"]!r}, {have}) raised', 'filter-total')
                elif want is None:
                    fstats['scope-in-list out of reference'] += 1
                else:
                    fstats['scope-in-list judged'] += 1
                    if got != int(want):
                        ffail(f'_is_scope_in_list({u!r}, MatchBy={sc["mb"]!r}, {have}) = {got}; under the requested rule '
                              f'({kind}) the answer is {int(want)}', 'scope-in-list')
            m = ref_matches(sv['types'], have, c['types'], sc, sref)
            exp_m.append(m)
            got = r['matches'][j]
            if got == 2:
                ffail(f'matches_filter raised for service {sv}', 'filter-total')
            elif m is not None and got != int(m):
                ffail(f'matches_filter(service types={sv["types"]} scopes={have}, types={c["types"]}, scopes={sc}) = {got}; the '
                      f'service offers all requested types and matches all requested scopes under the requested rule: {m}',
                      'matches-filter')
            # matches_filter is the conjunction of its parts
            if got != 2 and 2 not in r['in_list'][j] and got != int(types_ok and all(r['in_list'][j])):
                ffail(f'matches_filter = {got} although types_ok={types_ok} and the scope verdicts are {r["in_list"][j]}',
                      'matches-filter-consistent')
        if r['kept'] is None:
            ffail('filter_services raised', 'filter-total')
        else:
            if r['kept'] != [sv['epr'] for sv, g in zip(c['svcs'], r['matches']) if g == 1]:
                ffail(f'filter_services keeps {r["kept"]}, matches_filter says {r["matches"]}', 'filter-services-consistent')
            if all(m is not None for m in exp_m):
                fstats['case judged by the reference'] += 1
                fstats['... with a non-empty answer'] += int(any(exp_m))
                want = [sv['epr'] for sv, m in zip(c['svcs'], exp_m) if m]
                if r['kept'] != want:
                    ffail(f'filter_services(types={c["types"]}, scopes={sc}) keeps {r["kept"]}, the services matching under the '
                          f'requested rule ({kind}) are {want}', 'filter-services')
            else:
                fstats['case out of reference'] += 1
        # ---- model comparison
        if kind == 'rfc' and 'nonascii-netloc' in r['split'].values():
            fstats['skipped for the model: non-ASCII authority'] += 1
            continue
        badl = [t for t, v in r['split'].items() if v == 'bad']
        svs = [dict(sv, xaddrs=[], mdv=1) for sv in c['svcs']]
        lines.append(f"F 1 {strs_tok(badl)} {len(svs)} " + ' '.join(svc_tok(sv) for sv in svs) +
                     f" {'~' if c['types'] is None else types_tok(c['types'])} {sf_tok(sc)}")
        wants.append(' '.join(''.join(str(d) for d in row) + ':' + str(m) for row, m in zip(r['in_list'], r['matches'])) + ' |' +
                     (' E' if r['kept'] is None else ''.join(' ' + hx(e) for e in r['kept'])))
        idx.append(i)
        if len(coq) < ctx.n(60, 400):
            svl = [f"(mkService {blit(sv['epr'])} {lst([qn_lit(t) for t in sv['types']], 'qname')} " +
                   ('None' if sv['scopes'] is None else f"(Some {lst([blit(x) for x in sv['scopes']['text']], 'bytes')})") +
                   ' [] 1%Z 1%Z)' for sv in c['svcs']]
            tyl = '(None : option (list qname))' if c['types'] is None else \
                f"(Some {lst([qn_lit(t) for t in c['types']], 'qname')} : option (list qname))"
            sfl = '(None : option scopes_filter)' if sc is None else \
                f"(Some ({oblit(sc['mb'])}, {lst([blit(x) for x in sc['text']], 'bytes')}) : option scopes_filter)"
            per = lst([f"({lst([str(d) for d in row], 'N')}, {m})" for row, m in zip(r['in_list'], r['matches'])], '(list N * N)')
            kept = '(None : option (list bytes))' if r['kept'] is None else \
                f"(Some {lst([blit(e) for e in r['kept']], 'bytes')} : option (list bytes))"
            coq.append((f"({lst([blit(t) for t in badl], 'bytes')}, {lst(svl, 'Match.service')}, {tyl}, {sfl})", f'({per}, {kept})'))
    if exe:
        got, err = model(lines)
        if err:
            ctx.broken('correspondence', 'filters (extracted model run)', err)
        else:
            diffs = [j for j, (w, g) in enumerate(zip(wants, got)) if w.split() != g.split()]
            if diffs:
                c = filters[idx[diffs[0]]]
                ctx.broken('correspondence', 'filters', {'disagreements': len(diffs), 'of': len(lines),
                                                         'first': {'case': {k_: c[k_] for k_ in ('svcs', 'types', 'scopes')},
                                                                   'impl': wants[diffs[0]], 'model': got[diffs[0]]}})
    mism, err = ctx.coq_mism('filters', HEADER,
                             'prod_eqb (list_eqb (prod_eqb (list_eqb N.eqb) N.eqb)) (option_eqb (list_eqb bytes_eqb))',
                             "fun c => let '(badl, svs, ty, sf) := c in run_filter match_consts true badl svs ty sf", coq, deps=DEPS,
                             shard=30)
    if err:
        ctx.broken('correspondence', 'filters (coq evaluation)', err)
    for j in mism[:1]:
        ctx.broken('correspondence', 'filters (inside Coq)', {'disagreements': len(mism), 'first': coq[j]})
    ctx.count('filters', len(filters), [json.dumps({k_: c[k_] for k_ in ('svcs', 'types', 'scopes')}, sort_keys=True) for c in filters],
              compared_with_model=len(lines), also_evaluated_inside_coq=len(coq),
              requested_scopes_identical_text_x_rule=dict(sorted(xhist.items())),
              oracle_statistics=dict(sorted(fstats.items())), generator_histogram=dict(sorted(fhist.items())),
              verdicts={'matches_filter': dict(sorted(Counter(m for r in impl['filters'] for m in r['matches']).items())),
                        'services_kept': dict(sorted(Counter(-1 if r['kept'] is None else len(r['kept'])
                                                             for r in impl['filters']).items()))})
    k_ = next((i for i, c in enumerate(filters) if c['scopes'] and rule_kind(c['scopes']['mb']) == 'unknown' and
               ident_class(c['svcs'], c['scopes']).startswith('identical-list')), 0)
    ctx.sample({'stream': 'filters', 'case': {x: filters[k_][x] for x in ('svcs', 'types', 'scopes')}, 'impl': impl['filters'][k_]})
    ctx.log(f'filters compared, t={time.time() - t0:.1f}s')

    # ------------------------------------------------------------------ stream 2: message sequences
    stats = Counter()
    lines, wants = [], []
    for c, tr in zip(seqs, impl['seqs']):
        for ev, st in zip(c['events'], tr['steps']):
            if isinstance(st['note'], str) and st['note'].startswith('raise') and not (ev[0] == 'found'):
                stats['api-raise:' + ev[0]] += 1
            if ev[0] == 'found' and not isinstance(st['note'], dict):
                ctx.fail(f'get_found_remote_services({ev[1]}, {ev[2]}) raised ({st["note"]}): a remote service with a scope that '
                         f'is not a well-formed URI must simply not match',
                         {'stream': 'sequence', 'clause': 'filter-total'},
                         {'stream': 'sequence', 'case': c, 'impl_trace': tr})
        oracle_seq(ctx, c, tr, stats)
        # events whose datagram the schema rejects never reach the node: drop them for the model
        evs = [ev for ev, st in zip(c['events'], tr['steps'])
               if not (isinstance(st['note'], str) and st['note'].startswith('invalid-message'))]
        blob = json.dumps(evs)
        badl = [t for t, v in impl['pool_split'].items() if v == 'bad' and json.dumps(t)[1:-1] in blob]
        lines.append(f"S 1 {int(bool(c.get('allow')))} {c['cap']} {strs_tok(badl)} {len(evs)} " + ' '.join(ev_tok(ev) for ev in evs))
        tr2 = dict(tr, steps=[st for st in tr['steps'] if not (isinstance(st['note'], str) and st['note'].startswith('invalid-message'))])
        wants.append(trace_line({'events': evs}, tr2))
    if exe:
        got, err = model(lines)
        if err:
            ctx.broken('correspondence', 'sequences (extracted model run)', err)
        else:
            diffs = [j for j, (w, g) in enumerate(zip(wants, got)) if w.split() != g.split()]
            if diffs:
                j = diffs[0]
                w, g = wants[j].split(' ; '), got[j].split(' ; ')
                d = next((x for x in range(min(len(w), len(g))) if w[x].split() != g[x].split()), min(len(w), len(g)))
                ctx.broken('correspondence', 'sequences',
                           {'disagreements': len(diffs), 'of': len(lines),
                            'first': {'case': seqs[j], 'first_difference_at_step': d,
                                      'impl': w[d] if d < len(w) else None, 'model': g[d] if d < len(g) else None}})
    ctx.count('sequences', len(seqs), [json.dumps(c, sort_keys=True) for c in seqs],
              events=sum(len(c['events']) for c in seqs),
              oracle_statistics=dict(sorted((k_, v) for k_, v in stats.items() if ' x ' not in k_)),
              identical_text_x_rule=dict(sorted((k_, v) for k_, v in stats.items() if ' x ' in k_)),
              generator_histogram=dict(sorted(shist.items())),
              final_table_sizes=dict(sorted(Counter(len(tr['remote']) for tr in impl['seqs']).items())))
    ctx.sample({'stream': 'sequences', 'case': seqs[0], 'final_remote': impl['seqs'][0]['remote'], 'known': impl['seqs'][0]['known']})
    ctx.log(f'sequences compared, t={time.time() - t0:.1f}s')

    if ctx.thorough:
        hits = ctx.gate_grep(['Wsd', 'Location', 'Common'])
        if hits:
            ctx.broken('theorem', 'grep gate', hits)
        ctx.coqchk('SDC.Props.C14')
    return ctx.finish(
        rule='pairs: scope URIs rendered from structured components (scheme / authority pools with case variants, segment '
             'pool with encoded slashes, empty segments, trailing slashes, %-escapes in both cases, invalid escapes, dot '
             'segments, query / fragment) and a related second URI (longer, shorter, re-encoded, case-changed, ...), all '
             'MatchBy values, through the real match_scope; verdict compared with the extracted model on the texts and '
             'judged by an independent reference matcher on the components; texts that are no well-formed URIs against themselves '
             'and others.  filters: one to three services and a (types, scopes) filter whose scope list is mostly VERBATIM what a '
             'service has (whole list, subset, reordered, plus one), under every MatchBy shape (absent, empty, rfc3986, ldap, uuid, '
             'strcmp0 and eight unsupported URIs: foreign, upper-cased, mixed-case, prefix, suffix, bare word), with malformed scope '
             'texts, through the real _is_scope_in_list / matches_filter / filter_services; every verdict compared with the model '
             'and judged by the reference matcher under the rule the MatchBy value names (histogram identical text x rule).  '
             'sequences: publish / clear / incoming Hello, Bye (with / without AppSequence, MetadataVersion lower / equal / higher '
             'than the recorded one, Types, Scopes, XAddrs), Probe and client-side queries (scope lists verbatim what a published / '
             'announced service has, under every rule), ProbeMatches, Resolve, ResolveMatches (missing optional parts, Scopes with a '
             'MatchBy of their own, AppSequence with InstanceId 0 / small / 2^32-1, MessageNumber 0, with / without SequenceId, or absent '
             'with the module option allow_missing_app_sequence off and on, version 0 and 2^32-1, duplicate message ids, own messages looped back, small '
             'id memories; epoch scenarios announce - Bye - announce with a restarted version) through the real message factory, parser, NetworkingThread._run_q_read '
             'and WSDiscovery; every outbound message, the final tables and the id memory compared with the model; the oracle '
             're-computes the statement (highest version since the last acted-on Bye whatever that Bye carries, exact Probe answers '
             'and exact get_found_remote_services results under the requested rule, Resolve only if published, no action on '
             'remembered ids) from the event list alone.',
        assumptions=['a Python str is identified with its UTF-8 encoding',
                     'authorities with non-ASCII characters are out of model (unicode-aware lower(), NFKC check)',
                     'verdicts of the ipaddress / NFKC checks inside urlsplit are taken from Python (abstract bit)'],
        trusted_base=['translators harness/impl/gen_wsd_match.py (MatchBy URIs, module switches) and gen_wsd_params.py (id memory size)',
                      'extraction: ExtrOcamlBasic only; ocaml/driver_c14.ml + zutil.inc',
                      'correspondence harness harness/impl/c14_impl.py (WSDiscovery without start(), NetworkingThread built with '
                      'object.__new__, _repeated_enqueue_msg replaced by a recorder, random.randint rebound for instance ids)',
                      'urllib.parse of CPython 3.12 is modelled (Location/Quote.v), validated differentially only'],
        not_modelled=['callbacks (hello / bye / probe / resolve-match)', 'search_services timing loops', 'UDP sockets, retransmission (C15)',
                      'XML parsing and schema validation (the real parser is crossed, not modelled)',
                      'ldap / uuid matching rules of WS-Discovery (the code applies the RFC 3986 rule to them)'])


def replay(ctx, rep):
    """./check C14 --replay <file>: run the recorded case again on the implementation and print what it does."""
    stream, case = rep.get('stream'), rep.get('case')
    if not case or stream not in ('pairs', 'filters', 'sequence'):
        print(json.dumps(rep, indent=1)[:4000])
        return 0
    if stream == 'pairs':
        impl = ctx.impl('c14_impl', {'pairs': [{k_: case[k_] for k_ in ('mb', 'a', 'b')}]})
        now = impl.get('pairs', impl)
    elif stream == 'filters':
        impl = ctx.impl('c14_impl', {'filters': [case]})
        now = impl.get('filters', impl)
    else:
        impl = ctx.impl('c14_impl', {'seqs': [case]})
        now = impl.get('seqs', impl)
    print(f'stream {stream}; case: {json.dumps(case)[:3000]}')
    print('implementation now:', json.dumps(now)[:4000])
    print('recorded          :', json.dumps(rep.get('impl_trace'))[:4000])
    return 0
