"""C14 - WS-Discovery answers and records exactly what its matching rules prescribe (DESIGN.md section 4, C14)."""
import json
import re
import subprocess
import time
from collections import Counter

from lib import coqlit

HEADER = ('From Coq Require Import List NArith ZArith Bool.\nImport ListNotations.\n'
          'From SDC Require Import Location.Quote Location.Loc Wsd.Match Wsd.Gen_Match.\nOpen Scope N_scope.')
DEPS = ['Wsd/Gen_Match.vo']


# ----------------------------------------------------------------------------- encodings
def hx(text):
    return text.encode('utf-8').hex() or '-'


def hxo(text):
    return '~' if text is None else hx(text)


def blit(s):
    return '[' + '; '.join(str(x) for x in s.encode('utf-8')) + ']'


def oblit(s):
    return '(@None bytes)' if s is None else f'(Some {blit(s)})'


# ----------------------------------------------------------------------------- reference matcher (independent of urllib)
HEX = '0123456789abcdefABCDEF'


def ref_unquote(seg: str) -> bytes:
    """Percent-decoding to octets, written without urllib."""
    raw = seg.encode('utf-8')
    out = bytearray()
    i = 0
    while i < len(raw):
        if raw[i] == 0x25 and i + 2 < len(raw) and chr(raw[i + 1]) in HEX and chr(raw[i + 2]) in HEX:
            out.append(int(raw[i + 1:i + 3].decode(), 16))
            i += 3
        else:
            out.append(raw[i])
            i += 1
    return bytes(out)


def ascii_lower(s: str) -> str:
    return ''.join(chr(ord(ch) + 32) if 'A' <= ch <= 'Z' else ch for ch in s)


def ref_match_rfc(u1, u2) -> bool:
    """RFC 3986 rule of WS-Discovery on structured URIs: scheme and authority case-insensitively equal,
    path segment-wise prefix after percent-decoding."""
    if ascii_lower(u1['scheme']) != ascii_lower(u2['scheme']):
        return False
    if ascii_lower(u1['auth'] or '') != ascii_lower(u2['auth'] or ''):
        return False
    p1 = [ref_unquote(s) for s in u1['parts']]
    p2 = [ref_unquote(s) for s in u2['parts']]
    return len(p1) <= len(p2) and all(a == b for a, b in zip(p1, p2))


def render(u):
    return (u['scheme'] + ':' + ('' if u['auth'] is None else '//' + u['auth']) + '/'.join(u['parts']) +
            ('' if u['query'] is None else '?' + u['query']) + ('' if u['frag'] is None else '#' + u['frag']))


def py_split_agrees(u, text):
    """Does urllib.parse.urlsplit cut the rendered text into the components it was rendered from?"""
    import urllib.parse
    try:
        r = urllib.parse.urlsplit(text)
    except ValueError:
        return None
    return (r.scheme == ascii_lower(u['scheme']) and r.netloc == (u['auth'] or '') and r.path == '/'.join(u['parts']))


# ----------------------------------------------------------------------------- generators: scope pairs
SCHEMES = ['x', 'X', 'sdc.ctxt.loc', 'Sdc.Ctxt.Loc', 'http', 'HTTP', 'urn', 'a+b-c.d', 'y']
AUTHS = [None, None, None, None, 'host', 'HOST', 'Host:80', 'host:80', 'u@host', 'U@host', '', 'h', '[::1]', '[::1]:80']
BAD_AUTHS = ['[x', 'x]', '[1.2.3.4]', '[vz]', 'a℀b', 'é', 'É', 'a／b']
SEGS = ['a', 'A', 'b', 'abc', 'a%2Fb', 'a%2fb', '%61', '%41', '', 'a%20b', '%', '%zz', '%4', 'é', '%C3%A9', '%c3%a9', '.',
        '..', 'a;p', 'a=b', 'a&b', "a'b", '~', '%7E', 'a+b', 'a%2Bb', ':', 'a:b']
BAD_SEGS = ['%FF', '%FE', '%C3', '%E2%82', 'a%80']
MATCHBY = {}


def gen_uri(rng, hist):
    r = rng.random()
    auth = rng.choice(AUTHS)
    if r < 0.04:
        auth = rng.choice(BAD_AUTHS)
        hist['auth-odd'] += 1
    n = rng.choice([0, 1, 1, 2, 2, 2, 3, 4])
    segs = [rng.choice(BAD_SEGS) if rng.random() < 0.03 else rng.choice(SEGS) for _ in range(n)]
    absolute = rng.random() < 0.85 or auth is not None
    parts = ([''] if absolute and n else []) + segs
    if not parts:
        parts = [''] if rng.random() < 0.6 or auth is not None else ['', '']   # "" or "/"
    if rng.random() < 0.12:
        parts = parts + ['']                                                     # trailing slash
    if auth is None and len(parts) >= 3 and parts[0] == '' and parts[1] == '':
        parts = parts[1:]                                                        # would read as an authority
    if auth is not None and parts[0] != '':
        parts = [''] + parts
    u = {'scheme': rng.choice(SCHEMES), 'auth': auth, 'parts': parts,
         'query': rng.choice([None, None, None, 'q=1', 'fac=a&bed=b', '', 'a/b?c']),
         'frag': rng.choice([None, None, None, None, 'f', '', 'a/b'])}
    return u


def swap_case(s):
    return ''.join(ch.lower() if ch.isupper() else ch.upper() if ch.isascii() else ch for ch in s)


def recode(seg, rng):
    """Another spelling of the same octets (or of nearly the same)."""
    table = {'a': '%61', '%61': 'a', 'A': '%41', '%41': 'A', 'a%2Fb': 'a%2fb', 'a%2fb': 'a%2Fb', 'é': '%C3%A9',
             '%C3%A9': '%c3%a9', '%c3%a9': 'é', '~': '%7E', '%7E': '~', 'a+b': 'a%2Bb', 'a%20b': 'a%20b'}
    return table.get(seg, seg)


def gen_pair(rng, hist):
    u1 = gen_uri(rng, hist)
    r = rng.random()
    u2 = json.loads(json.dumps(u1))
    if r < 0.12:
        kind = 'identical'
    elif r < 0.3:
        kind = 'longer'
        u2['parts'] = u2['parts'] + [rng.choice(SEGS) for _ in range(rng.randint(1, 2))]
    elif r < 0.4:
        kind = 'shorter'
        u2['parts'] = u2['parts'][:-1] or ['']
    elif r < 0.52:
        kind = 'case'
        which = rng.choice(['scheme', 'auth', 'seg'])
        if which == 'scheme':
            u2['scheme'] = swap_case(u2['scheme'])
        elif which == 'auth' and u2['auth']:
            u2['auth'] = swap_case(u2['auth'])
        elif len(u2['parts']) > 1:
            i = rng.randrange(len(u2['parts']))
            u2['parts'][i] = swap_case(u2['parts'][i])
        kind += '-' + which
    elif r < 0.66:
        kind = 'recoded'
        u2['parts'] = [recode(s, rng) if rng.random() < 0.7 else s for s in u2['parts']]
        if rng.random() < 0.4:
            u2['parts'] = u2['parts'] + [rng.choice(SEGS)]
    elif r < 0.74:
        kind = 'slash-decoded'          # a%2Fb written as two segments: must NOT match
        parts = []
        for s in u2['parts']:
            parts.extend(s.split('%2F') if '%2F' in s else [s])
        u2['parts'] = parts
    elif r < 0.84:
        kind = 'seg-differs'
        if u2['parts']:
            i = rng.randrange(len(u2['parts']))
            u2['parts'][i] = rng.choice(SEGS + BAD_SEGS)
    elif r < 0.9:
        kind = 'query-differs'
        u2['query'] = rng.choice([None, 'other=1', ''])
        u2['frag'] = rng.choice([None, 'g'])
    elif r < 0.95:
        kind = 'auth-differs'
        u2['auth'] = rng.choice(AUTHS + BAD_AUTHS)
        if u2['auth'] is not None and u2['parts'][0] != '':
            u2['parts'] = [''] + u2['parts']
        if u2['auth'] is None and len(u2['parts']) >= 3 and u2['parts'][0] == '' and u2['parts'][1] == '':
            u2['parts'] = u2['parts'][1:]
    else:
        kind = 'unrelated'
        u2 = gen_uri(rng, hist)
    if rng.random() < 0.25:
        u1, u2 = u2, u1
        kind += '/swapped'
    r = rng.random()
    if r < 0.45:
        mb, mk = None, 'none'
    elif r < 0.5:
        mb, mk = '', 'empty'
    elif r < 0.68:
        mb, mk = MATCHBY['uri'], 'rfc3986'
    elif r < 0.74:
        mb, mk = MATCHBY[rng.choice(['ldap', 'uuid'])], 'ldap/uuid'
    elif r < 0.93:
        mb, mk = MATCHBY['strcmp'], 'strcmp'
    else:
        mb, mk = rng.choice(['http://example.org/other', MATCHBY['uri'] + '/', MATCHBY['strcmp'].upper()]), 'unknown'
    hist['pair-' + kind.split('/')[0]] += 1
    hist['matchby-' + mk] += 1
    a, b = render(u1), render(u2)
    r = rng.random()
    if r < 0.03:                                        # text-level noise outside the structured space
        i = rng.randrange(len(a) + 1)
        a = a[:i] + rng.choice(['\t', ' ', '[', '#', '?', '//', ':']) + a[i:]
        u1 = None
        hist['noise'] += 1
    return {'mb': mb, 'a': a, 'b': b, 'u1': u1, 'u2': u2, 'kind': kind, 'mk': mk}


# ----------------------------------------------------------------------------- generators: message sequences
NS = ['http://ns1', 'http://ns2']
TYPES = [[NS[0], 'T1'], [NS[0], 'T2'], [NS[1], 'T1'], [NS[0], 't1']]
SCOPE_URIS = [
    {'scheme': 'x', 'auth': None, 'parts': ['', 'a'], 'query': None, 'frag': None},
    {'scheme': 'x', 'auth': None, 'parts': ['', 'a', 'b'], 'query': None, 'frag': None},
    {'scheme': 'X', 'auth': None, 'parts': ['', 'a'], 'query': 'q=1', 'frag': None},
    {'scheme': 'x', 'auth': None, 'parts': ['', 'A'], 'query': None, 'frag': None},
    {'scheme': 'x', 'auth': 'Host', 'parts': ['', 'a'], 'query': None, 'frag': None},
    {'scheme': 'x', 'auth': 'host', 'parts': ['', 'a', 'c%2Fd'], 'query': None, 'frag': None},
    {'scheme': 'x', 'auth': None, 'parts': ['', '%61', 'b', ''], 'query': None, 'frag': None},
    {'scheme': 'sdc.ctxt.loc', 'auth': None, 'parts': ['', 'sdc.ctxt.loc.detail', 'H%2F%2F%2FP%2F%2FB'], 'query': 'fac=H&poc=P&bed=B',
     'frag': None},
    {'scheme': 'sdc.mds.pkp', 'auth': None, 'parts': ['1.2.840.10004.20701.1.1'], 'query': None, 'frag': None},
]
SCOPE_TEXT = {render(u): u for u in SCOPE_URIS}
# schema-valid (xs:anyURI) scope texts a remote device can really send: lossy-decoding twins and an authority urlsplit rejects
ODD_URIS = [{'scheme': 'x', 'auth': None, 'parts': ['', '%FF'], 'query': None, 'frag': None},
            {'scheme': 'x', 'auth': None, 'parts': ['', '%FE'], 'query': None, 'frag': None}]
SCOPE_TEXT.update({render(u): u for u in ODD_URIS})
MALFORMED_SCOPES = ['x://[1.2.3.4]/a']
ODD_SCOPES = [render(u) for u in ODD_URIS] + MALFORMED_SCOPES


def gen_scope_list(rng, allow_odd=True):
    n = rng.choice([0, 1, 1, 2, 3])
    out = [rng.choice(list(SCOPE_TEXT)) for _ in range(n)]
    if allow_odd and rng.random() < 0.04:
        out.append(rng.choice(ODD_SCOPES))
    return out


def gen_svc(rng, epr, hist):
    r = rng.random()
    types = None if r < 0.1 else [rng.choice(TYPES) for _ in range(rng.choice([0, 1, 1, 2]))]
    scopes = None if rng.random() < 0.2 else {'mb': None, 'text': gen_scope_list(rng)}
    r = rng.random()
    xaddrs = None if r < 0.12 else [f'http://10.0.0.{rng.randint(1, 3)}:{rng.randint(1, 3)}/x' for _ in range(rng.choice([0, 1, 1, 2, 3]))]
    mdv = rng.choice([1, 1, 2, 2, 3, 4, 5, 4294967295])
    return {'epr': epr, 'types': types, 'scopes': scopes, 'xaddrs': xaddrs, 'mdv': mdv}


def gen_filter(rng):
    types = None if rng.random() < 0.4 else [rng.choice(TYPES) for _ in range(rng.choice([0, 1, 1, 2]))]
    if rng.random() < 0.35:
        scopes = None
    else:
        r = rng.random()
        mb = None if r < 0.5 else '' if r < 0.55 else MATCHBY['uri'] if r < 0.7 else MATCHBY['strcmp'] if r < 0.9 else \
            rng.choice([MATCHBY['ldap'], 'http://example.org/other'])
        scopes = {'mb': mb, 'text': gen_scope_list(rng)}
    return types, scopes


def gen_seq(rng, hist):
    cap = rng.choice([2, 3, 5, 200, 200])
    remote_eprs = ['urn:uuid:r1', 'urn:uuid:r2', 'urn:uuid:r3']
    local_eprs = ['urn:uuid:l1', 'urn:uuid:l2', 'urn:uuid:l3']
    events = []
    next_mid = 1
    used = []
    published = []
    pub_info = {}
    iid = 10
    for _ in range(rng.randint(3, 14)):
        r = rng.random()
        if r < 0.16:
            epr = rng.choice(local_eprs)
            iid += 1
            sc = None if rng.random() < 0.15 else {'mb': None, 'text': gen_scope_list(rng, allow_odd=rng.random() < 0.3)}
            events.append(['pub', epr, [rng.choice(TYPES) for _ in range(rng.choice([0, 1, 2, 2]))], sc,
                           [f'http://127.0.0.1:{rng.randint(1, 3)}/p' for _ in range(rng.choice([0, 1, 2]))], iid])
            if epr not in published:
                published.append(epr)
            pub_info[epr] = (events[-1][2], None if sc is None else sc['text'])
            hist['ev-pub'] += 1
        elif r < 0.2 and published:
            epr = rng.choice(published)
            published.remove(epr)
            pub_info.pop(epr, None)
            events.append(['clear', epr])
            hist['ev-clear'] += 1
        elif r < 0.25:
            events.append(['loop', rng.randint(0, max(0, len(events)))])
            hist['ev-loop'] += 1
        elif r < 0.31:
            t, s = gen_filter(rng)
            events.append(['found', t, s])
            hist['ev-found'] += 1
        else:
            if used and rng.random() < 0.15:
                mid = rng.choice(used[-4:])
                hist['mid-duplicate'] += 1
            else:
                mid = next_mid
                next_mid += 1
            used.append(mid)
            aps = None if rng.random() < 0.08 else rng.randint(1, 3)
            k = rng.random()
            epr = rng.choice(remote_eprs + (['', 'urn:uuid:l1'] if rng.random() < 0.1 else []))
            strip = [t for t in ('Types', 'XAddrs') if rng.random() < 0.3]
            if k < 0.3:
                m = {'kind': 'hello', 'appseq': aps, 'svc': gen_svc(rng, epr, hist), 'strip': strip}
            elif k < 0.42:
                m = {'kind': 'bye', 'epr': epr}
            elif k < 0.62:
                t, s = gen_filter(rng)
                if pub_info and rng.random() < 0.55:
                    # ask for (part of) what a published service offers: types subset, scopes that are prefixes / re-spellings
                    ptypes, pscopes = pub_info[rng.choice(sorted(pub_info))]
                    t = None if rng.random() < 0.3 else [x for x in ptypes if rng.random() < 0.7]
                    if pscopes and rng.random() < 0.7:
                        pick = [x for x in pscopes if rng.random() < 0.7 and x in SCOPE_TEXT]
                        text = []
                        for x in pick:
                            u = json.loads(json.dumps(SCOPE_TEXT[x]))
                            if len(u['parts']) > 2 and rng.random() < 0.5:
                                u['parts'] = u['parts'][:-1]
                            if rng.random() < 0.3:
                                u['scheme'] = swap_case(u['scheme'])
                            u['query'] = None
                            SCOPE_TEXT.setdefault(render(u), u)
                            text.append(render(u))
                        mbs = rng.choice([None, None, '', MATCHBY['uri'], MATCHBY['strcmp']])
                        if mbs == MATCHBY['strcmp']:
                            text = pick
                        s = {'mb': mbs, 'text': text}
                    else:
                        s = None if rng.random() < 0.5 else s
                m = {'kind': 'probe', 'types': t, 'scopes': s}
            elif k < 0.77:
                m = {'kind': 'probematches', 'appseq': aps, 'strip': strip,
                     'matches': [gen_svc(rng, rng.choice(remote_eprs), hist) for _ in range(rng.choice([0, 1, 1, 2, 3]))]}
            elif k < 0.87:
                m = {'kind': 'resolve', 'epr': rng.choice(published) if published and rng.random() < 0.5 else
                     rng.choice(local_eprs + remote_eprs)}
            elif k < 0.97:
                m = {'kind': 'resolvematches', 'appseq': aps, 'strip': strip,
                     'match': None if rng.random() < 0.1 else gen_svc(rng, epr, hist)}
            else:
                m = {'kind': 'other'}
            hist['msg-' + m['kind']] += 1
            events.append(['in', mid, m])
    hist[f'cap-{cap}'] += 1
    return {'cap': cap, 'events': events}


# ----------------------------------------------------------------------------- rendering for the extracted model
def types_tok(ts):
    return ' '.join([str(len(ts))] + [f'{hx(a)} {hx(b)}' for a, b in ts])


def strs_tok(xs):
    return ' '.join([str(len(xs))] + [hx(x) for x in xs])


def svc_tok(s):
    """A service as announced in a message: absent Types / XAddrs read as empty lists."""
    sc = '~' if s['scopes'] is None else strs_tok(s['scopes']['text'])
    return f"{hx(s['epr'])} {types_tok(s['types'] or [])} {sc} {strs_tok(s['xaddrs'] or [])} {s['mdv']}"


def sf_tok(sc):
    return '~' if sc is None else f"sf {hxo(sc['mb'])} {strs_tok(sc['text'])}"


def aps_tok(a):
    return '~' if a is None else str(a)


def msg_tok(m):
    k = m['kind']
    if k == 'hello':
        return f"hello {aps_tok(m['appseq'])} {svc_tok(m['svc'])}"
    if k == 'bye':
        return f"bye {hx(m['epr'])}"
    if k == 'probe':
        return f"probe {'~' if m['types'] is None else types_tok(m['types'])} {sf_tok(m['scopes'])}"
    if k == 'probematches':
        return ' '.join([f"pm {aps_tok(m['appseq'])} {len(m['matches'])}"] + [svc_tok(s) for s in m['matches']])
    if k == 'resolve':
        return f"resolve {hx(m['epr'])}"
    if k == 'resolvematches':
        return f"rm {aps_tok(m['appseq'])} {'~' if m['match'] is None else svc_tok(m['match'])}"
    return 'other'


def ev_tok(ev):
    if ev[0] == 'pub':
        _, epr, types, scopes, xaddrs, iid = ev
        sc = '~' if scopes is None else strs_tok(scopes['text'])
        return f'pub {hx(epr)} {types_tok(types)} {sc} {strs_tok(xaddrs)} {iid}'
    if ev[0] == 'clear':
        return f'clear {hx(ev[1])}'
    if ev[0] == 'in':
        return f'in {ev[1]} {msg_tok(ev[2])}'
    if ev[0] == 'loop':
        return f'loop {ev[1]}'
    return f"found {'~' if ev[1] is None else types_tok(ev[1])} {sf_tok(ev[2])}"


def csvc_tok(s):
    """A service as canonicalised by c14_impl (svc_canon)."""
    sc = '~' if s['scopes'] is None else strs_tok(s['scopes'])
    return f"{hx(s['epr'])} {types_tok(s['types'])} {sc} {strs_tok(s['xaddrs'])} {s['mdv']} {s['iid']}"


def out_tok(o):
    k = o['kind']
    if k == 'Hello':
        return 'H ' + csvc_tok(o['svc'])
    if k == 'Bye':
        return 'B ' + hx(o['epr'])
    if k == 'ProbeMatches':
        return ' , '.join('PM ' + csvc_tok(m) for m in o['matches'])
    if k == 'ResolveMatches':
        return 'RM ' + csvc_tok(o['svc'])
    if k == 'Resolve':
        return 'R ' + hx(o['epr'])
    return '?' + k


def trace_line(c, tr):
    parts = []
    for ev, st in zip(c['events'], tr['steps']):
        if ev[0] == 'found':
            parts.append('FE' if not isinstance(st['note'], dict) else 'F' + ''.join(' ' + hx(e) for e in st['note']['found']))
        else:
            parts.append(' , '.join(out_tok(o) for o in st['outs']))
    line = ''.join(p + ' ; ' for p in parts)
    tbl = lambda keys, svcs: ' , '.join(f'{hx(k_)} = {csvc_tok(s)}' for k_, s in zip(keys, svcs))  # noqa: E731
    return (line + 'REMOTE ' + tbl(tr['remote_keys'], tr['remote']) + ' ; LOCAL ' +
            tbl([s['epr'] for s in tr['local']], tr['local']) + ' ; KNOWN' + ''.join(f' {x}' for x in tr['known']))


# ----------------------------------------------------------------------------- oracles on implementation traces
def scope_ref_match(mb, my, other):
    """Reference verdict for scope texts of the sequence pools (None = not decidable by the reference)."""
    if mb in (None, '', MATCHBY['uri'], MATCHBY['ldap'], MATCHBY['uuid']):
        if my in MALFORMED_SCOPES or other in MALFORMED_SCOPES:
            return False                      # not a well-formed URI: matches nothing
        if my not in SCOPE_TEXT or other not in SCOPE_TEXT:
            return None
        return ref_match_rfc(SCOPE_TEXT[my], SCOPE_TEXT[other])
    if mb == MATCHBY['strcmp']:
        return my == other
    return False


def ref_matches(svc_types, svc_scopes, types, scopes):
    if types is not None:
        for t in types:
            if not any(t[0] == u[0] and t[1] == u[1] for u in svc_types):
                return False
    if scopes is not None:
        for uri in scopes['text']:
            if svc_scopes is None:
                return False
            verdicts = [scope_ref_match(scopes['mb'], uri, e) for e in svc_scopes]
            if any(v is True for v in verdicts):
                continue
            if any(v is None for v in verdicts):
                return None
            return False
    return True


def oracle_seq(ctx, c, tr, stats):
    cap = c['cap']
    mem = []                    # newest first, as the statement says: recently seen ids the node remembers
    n_sent = 0
    local = {}                  # epr -> (types, scopes text|None, xaddrs, mdv)
    ann = {}                    # epr -> versions announced since the last Bye (of acted-on messages)
    ann_full = {}               # epr -> [(version, types, scopes)] announced since the last Bye

    def note_ann(svc):
        ann.setdefault(svc['epr'], []).append(svc['mdv'])
        ann_full.setdefault(svc['epr'], []).append(
            (svc['mdv'], tuple(tuple(t) for t in (svc['types'] or [])), tuple((svc['scopes'] or {}).get('text') or [])))
    sent_msgs = []

    def remember(i):
        nonlocal mem
        mem = ([i] + mem)[:cap]

    def fail(what, clause, k):
        ctx.fail(what, {'stream': 'sequence', 'clause': clause},
                 {'stream': 'sequence', 'case': c, 'event_index': k, 'impl_trace': tr,
                  'oracle': {'verdict': 'fail', 'clause': clause}})

    for k, (ev, st) in enumerate(zip(c['events'], tr['steps'])):
        outs = st['outs']
        acted = None
        m = None
        if ev[0] == 'pub':
            _, epr, types, scopes, xaddrs, iid = ev
            mdv = local[epr][3] + 1 if epr in local else 1
            local[epr] = (types, None if scopes is None else scopes['text'], xaddrs, mdv)
        elif ev[0] == 'clear':
            local.pop(ev[1], None)
        elif ev[0] == 'in':
            mid, m = ev[1], ev[2]
            if st['note']:
                stats['invalid-message'] += 1
                m = None
            else:
                acted = mid not in mem
                if acted:
                    remember(mid)
        elif ev[0] == 'loop':
            if ev[1] < len(sent_msgs):
                own = -(ev[1] + 1)
                acted = own not in mem
                if acted:
                    remember(own)
                    m = sent_msgs[ev[1]]
                    stats['own-message-acted-after-eviction'] += 1
                else:
                    stats['own-message-ignored'] += 1
        # ---- dedup clause: a remembered id is not acted on
        if acted is False:
            stats['duplicate-dropped'] += 1
            if outs or (k > 0 and st['remote_brief'] != tr['steps'][k - 1]['remote_brief']):
                fail(f'message id {ev[1]} acted on although it is among the remembered ids (cap={cap})', 'acted-while-known', k)
        # ---- what an acted-on message must cause
        if acted and m is not None:
            kind = m['kind']
            if kind == 'probe':
                stats['probe'] += 1
                want = []
                undecided = False
                for epr, (types, scopes, xaddrs, mdv) in local.items():
                    v = ref_matches(types, scopes, m['types'], m['scopes'])
                    if v is None:
                        undecided = True
                    elif v:
                        want.append(epr)
                got = [mm['epr'] for o in outs if o['kind'] == 'ProbeMatches' for mm in o['matches']]
                if undecided:
                    stats['probe-out-of-reference'] += 1
                else:
                    if want:
                        stats['probe-answered'] += 1
                    if got != want:
                        fail(f'Probe (types={m["types"]}, scopes={m["scopes"]}) answered with {got}, the matching published '
                             f'services are {want}', 'probe-exact', k)
                    for o in outs:
                        if o['kind'] != 'ProbeMatches' or len(o['matches']) != 1 or o['multicast'] or \
                                o['to'] != ['10.0.0.9', 4000 + (ev[1] % 7)] or not str(o['relates_to']).endswith(f'{ev[1]:012d}'):
                            fail(f'unexpected answer to a Probe: {o}', 'probe-answer-shape', k)
                        else:
                            mm = o['matches'][0]
                            t, s, x, v = local[mm['epr']]
                            if (mm['types'], mm['scopes'], mm['xaddrs'], mm['mdv']) != ([list(q) for q in t], s, x, v):
                                fail(f'ProbeMatch does not describe the published service: {mm} vs {local[mm["epr"]]}',
                                     'probe-answer-content', k)
            elif kind == 'resolve':
                stats['resolve'] += 1
                got = [o['svc']['epr'] for o in outs if o['kind'] == 'ResolveMatches']
                want = [m['epr']] if m['epr'] in local else []
                if want:
                    stats['resolve-answered'] += 1
                if got != want or any(o['kind'] != 'ResolveMatches' for o in outs):
                    fail(f'Resolve for {m["epr"]!r} answered with {outs}; published: {sorted(local)}', 'resolve-only-published', k)
            else:
                if any(o['kind'] in ('ProbeMatches', 'ResolveMatches') for o in outs):
                    fail(f'{kind} message answered with {outs}', 'unsolicited-answer', k)
                if kind == 'hello' and m.get('appseq') is not None and m['svc']['epr']:
                    note_ann(m['svc'])
                elif kind == 'probematches' and m.get('appseq') is not None:
                    for s in m['matches']:
                        if s['epr']:
                            note_ann(s)
                elif kind == 'resolvematches' and m.get('appseq') is not None and m['match'] is not None and m['match']['epr']:
                    note_ann(m['match'])
                elif kind == 'bye':
                    ann.pop(m['epr'], None)
                    ann_full.pop(m['epr'], None)
        # ---- table clause after every event: per epr the highest version since its last Bye
        want_tbl = sorted((e, max(v)) for e, v in ann.items())
        got_tbl = sorted((e, v) for e, v in st['remote_brief'])
        if want_tbl != got_tbl:
            fail(f'after event {k} the table holds {got_tbl}, highest versions announced since the last Bye are {want_tbl}',
                 'table-max-version', k)
            return
        # ---- ... and the entry IS an announcement of that version: its types and scopes were announced with the highest
        # version (an outdated announcement must not leak into the entry; equal versions may merge)
        for e, types, scopes in st.get('remote_content', []):
            top = [a for a in ann_full.get(e, []) if a[0] == max(ann[e])]
            tt = tuple(tuple(t) for t in types)
            if tt not in [a[1] for a in top] or tuple(scopes) not in [a[2] for a in top]:
                fail(f'after event {k} the entry of {e} (version {max(ann[e])}) has types {types} / scopes {scopes}, which no '
                     f'announcement with that version carried: {top}', 'table-entry-content', k)
                return
        # own messages created by this event, for later loop-backs
        for o in outs:
            n_sent += 1
            remember(-n_sent)
            if o['kind'] == 'Hello':
                s = o['svc']
                sent_msgs.append({'kind': 'hello', 'appseq': o['appseq'], 'svc': {
                    'epr': s['epr'], 'types': s['types'], 'scopes': None if s['scopes'] is None else {'mb': None, 'text': s['scopes']},
                    'xaddrs': s['xaddrs'], 'mdv': s['mdv']}})
            elif o['kind'] == 'Bye':
                sent_msgs.append({'kind': 'bye', 'epr': o['epr']})
            elif o['kind'] == 'ProbeMatches':
                sent_msgs.append({'kind': 'probematches', 'appseq': o['appseq'], 'matches': [
                    {'epr': s['epr'], 'types': s['types'], 'scopes': None if s['scopes'] is None else {'mb': None, 'text': s['scopes']},
                     'xaddrs': s['xaddrs'], 'mdv': s['mdv']} for s in o['matches']]})
            elif o['kind'] == 'ResolveMatches':
                s = o['svc']
                sent_msgs.append({'kind': 'resolvematches', 'appseq': o['appseq'], 'match': {
                    'epr': s['epr'], 'types': s['types'], 'scopes': None if s['scopes'] is None else {'mb': None, 'text': s['scopes']},
                    'xaddrs': s['xaddrs'], 'mdv': s['mdv']}})
            else:
                sent_msgs.append({'kind': 'resolve', 'epr': o['epr']})
    if tr['known'] != mem:
        fail(f'remembered ids {tr["known"]} differ from the last {cap} ids seen/sent {mem}', 'id-memory', len(c['events']))


# ----------------------------------------------------------------------------- run
def run(ctx):
    ctx.regenerate('gen_wsd_params', 'Wsd/Gen_Params.v')
    if not ctx.regenerate('gen_wsd_match', 'Wsd/Gen_Match.v'):
        return ctx.finish('translator failed', [], [])
    MATCHBY.update(ctx.impl('gen_wsd_match', {})['matchby'])
    if not ctx.prove():
        ctx.broken('theorem', 'Props/C14.v', ctx.proof_error)
    t0 = time.time()
    hist = Counter()
    pairs = [gen_pair(ctx.rng, hist) for _ in range(ctx.n(5000, 150000))]
    # fixed witnesses (DESIGN / test_discovery.test_scope_match shapes and the two deviations found)
    pairs[:0] = [{'mb': None, 'a': 'http://[x/a', 'b': 'http://h/a', 'u1': None, 'u2': None, 'kind': 'witness', 'mk': 'none'},
                 {'mb': None, 'a': 'x:/%FF', 'b': 'x:/%FE', 'kind': 'witness', 'mk': 'none',
                  'u1': {'scheme': 'x', 'auth': None, 'parts': ['', '%FF'], 'query': None, 'frag': None},
                  'u2': {'scheme': 'x', 'auth': None, 'parts': ['', '%FE'], 'query': None, 'frag': None}}]
    shist = Counter()
    seqs = [gen_seq(ctx.rng, shist) for _ in range(ctx.n(600, 12000))]
    impl = ctx.impl('c14_impl', {'pairs': [{'mb': p['mb'], 'a': p['a'], 'b': p['b']} for p in pairs], 'seqs': seqs,
                                 'scope_pool': list(SCOPE_TEXT) + MALFORMED_SCOPES},
                    timeout=2400)
    if impl.get('_crash'):
        ctx.broken('correspondence', 'implementation run', impl['stderr'])
        return ctx.finish('implementation run crashed', [], [])
    ctx.log(f'implementation run: {time.time() - t0:.1f}s for {len(pairs)} pairs + {len(seqs)} sequences')
    exe, log = ctx.ocaml_driver('Extract/Extract_Wsd_Match.v', 'wsd_match_model', 'driver_c14')
    if exe is None:
        ctx.broken('correspondence', 'extraction/driver build', log[-1500:])

    def model(lines):
        out = subprocess.run([exe], input='\n'.join(lines) + '\n', capture_output=True, text=True, timeout=3000)
        got = out.stdout.splitlines()
        if out.returncode != 0 or len(got) != len(lines):
            return None, (out.stderr or out.stdout)[-800:]
        return got, None

    # ------------------------------------------------------------------ stream 1: scope pairs
    lines, wants, idx, coq = [], [], [], []
    verdicts = Counter()
    n_oom_split = n_oom_lower = n_oom_utf8 = n_ref = 0
    for i, (p, r) in enumerate(zip(pairs, impl['pairs'])):
        res = r['res']
        verdicts[f"{p['mk']}:{res}"] += 1
        rfc = p['mk'] in ('none', 'empty', 'rfc3986', 'ldap/uuid')
        # ---- oracle: the statement evaluated directly
        if isinstance(res, str):
            ctx.fail(f'match_scope({p["a"]!r}, {p["b"]!r}, {p["mb"]!r}) raised ({res}): a scope that is not a well-formed URI '
                     f'must simply not match',
                     {'stream': 'pairs', 'clause': 'total', 'result': res},
                     {'stream': 'pairs', 'case': {k_: p[k_] for k_ in ('mb', 'a', 'b')}, 'impl_trace': r,
                      'oracle': {'verdict': 'fail', 'clause': 'match_scope returns a verdict'}})
        elif p['mk'] == 'strcmp':
            if res != int(p['a'] == p['b']):
                ctx.fail(f'strcmp0 matching of {p["a"]!r} and {p["b"]!r} says {res}', {'stream': 'pairs', 'clause': 'strcmp-exact'},
                         {'stream': 'pairs', 'case': {k_: p[k_] for k_ in ('mb', 'a', 'b')}, 'impl_trace': r})
        elif p['mk'] == 'unknown':
            if res != 0:
                ctx.fail(f'unknown MatchBy {p["mb"]!r} matched', {'stream': 'pairs', 'clause': 'unknown-matchby'},
                         {'stream': 'pairs', 'case': {k_: p[k_] for k_ in ('mb', 'a', 'b')}, 'impl_trace': r})
        elif p['u1'] is not None and p['u2'] is not None:
            ag1, ag2 = py_split_agrees(p['u1'], p['a']), py_split_agrees(p['u2'], p['b'])
            if ag1 is None or ag2 is None:
                pass                                            # urlsplit raised: reported above
            elif not (ag1 and ag2):
                n_oom_split += 1                                # renderer and urlsplit disagree about the split
            elif r['split'] != ['ok', 'ok']:
                n_oom_lower += 1                                # non-ASCII authority (unicode lower())
            else:
                n_ref += 1
                want = int(ref_match_rfc(p['u1'], p['u2']))
                if res != want:
                    ctx.fail(f'RFC 3986 matching of {p["a"]!r} against {p["b"]!r}: code says {res}, scheme/authority '
                             f'case-insensitively + decoded segment-wise prefix says {want}',
                             {'stream': 'pairs', 'clause': 'rfc3986-spec', 'expected': want,
                              'lossy_decode': not r['clean']},
                             {'stream': 'pairs', 'case': {k_: p[k_] for k_ in ('mb', 'a', 'b', 'u1', 'u2')}, 'impl_trace': r,
                              'oracle': {'verdict': 'fail', 'clause': 'C14_rfc3986_spec'}})
        # ---- model comparison on the texts
        if rfc and 'nonascii-netloc' in r['split']:
            continue
        badl = [t for t, v in zip((p['a'], p['b']), r['split']) if v == 'bad']
        lines.append(f"M 1 {hxo(p['mb'])} {hx(p['a'])} {hx(p['b'])} {len(badl)}" + ''.join(' ' + hx(t) for t in badl))
        wants.append('2' if isinstance(res, str) else str(res))
        idx.append(i)
        if len(coq) < ctx.n(150, 600):
            coq.append((f'(({"[" + "; ".join(blit(t) for t in badl) + "]"} : list bytes), {oblit(p["mb"])}, {blit(p["a"])}, {blit(p["b"])})',
                        f'{wants[-1]}%N'))
    if exe:
        got, err = model(lines)
        if err:
            ctx.broken('correspondence', 'pairs (extracted model run)', err)
        else:
            diffs = [j for j, (w, g) in enumerate(zip(wants, got)) if w != g]
            if diffs:
                p = pairs[idx[diffs[0]]]
                ctx.broken('correspondence', 'pairs', {'disagreements': len(diffs), 'of': len(lines),
                                                       'first': {'case': {k_: p[k_] for k_ in ('mb', 'a', 'b')},
                                                                 'impl': wants[diffs[0]], 'model': got[diffs[0]]}})
    mism, err = ctx.coq_mism('pairs', HEADER, 'N.eqb',
                             "fun c => let '(badl, mb, a, b) := c in run_match match_consts true badl mb a b", coq, deps=DEPS, shard=80)
    if err:
        ctx.broken('correspondence', 'pairs (coq evaluation)', err)
    for j in mism[:1]:
        ctx.broken('correspondence', 'pairs (inside Coq)', {'disagreements': len(mism), 'first': coq[j]})
    ctx.count('pairs', len(pairs), [(p['mb'], p['a'], p['b']) for p in pairs], compared_with_model=len(lines),
              also_evaluated_inside_coq=len(coq), judged_by_reference_matcher=n_ref,
              out_of_model={'renderer_vs_urlsplit_split_differs': n_oom_split, 'non_ascii_authority': n_oom_lower,
                            'skipped_for_model_non_ascii_authority': len(pairs) - len(lines)},
              verdicts=dict(sorted(verdicts.items())), generator_histogram=dict(sorted(hist.items())))
    k_ = next((i for i, r in enumerate(impl['pairs']) if r['res'] == 1 and pairs[i]['kind'].startswith('recoded')), 0)
    ctx.sample({'stream': 'pairs', 'case': {x: pairs[k_][x] for x in ('mb', 'a', 'b', 'kind')}, 'impl': impl['pairs'][k_]})
    ctx.log(f'pairs compared, t={time.time() - t0:.1f}s')

    # ------------------------------------------------------------------ stream 2: message sequences
    stats = Counter()
    lines, wants = [], []
    for c, tr in zip(seqs, impl['seqs']):
        for ev, st in zip(c['events'], tr['steps']):
            if isinstance(st['note'], str) and st['note'].startswith('raise') and not (ev[0] == 'found'):
                stats['api-raise:' + ev[0]] += 1
            if ev[0] == 'found' and not isinstance(st['note'], dict):
                ctx.fail(f'get_found_remote_services({ev[1]}, {ev[2]}) raised ({st["note"]}): a remote service with a scope that '
                         f'is not a well-formed URI must simply not match',
                         {'stream': 'sequence', 'clause': 'filter-total'},
                         {'stream': 'sequence', 'case': c, 'impl_trace': tr})
        oracle_seq(ctx, c, tr, stats)
        # events whose datagram the schema rejects never reach the node: drop them for the model
        evs = [ev for ev, st in zip(c['events'], tr['steps'])
               if not (isinstance(st['note'], str) and st['note'].startswith('invalid-message'))]
        blob = json.dumps(evs)
        badl = [t for t, v in impl['pool_split'].items() if v == 'bad' and json.dumps(t)[1:-1] in blob]
        lines.append(f"S 1 {c['cap']} {strs_tok(badl)} {len(evs)} " + ' '.join(ev_tok(ev) for ev in evs))
        tr2 = dict(tr, steps=[st for st in tr['steps'] if not (isinstance(st['note'], str) and st['note'].startswith('invalid-message'))])
        wants.append(trace_line({'events': evs}, tr2))
    if exe:
        got, err = model(lines)
        if err:
            ctx.broken('correspondence', 'sequences (extracted model run)', err)
        else:
            diffs = [j for j, (w, g) in enumerate(zip(wants, got)) if w.split() != g.split()]
            if diffs:
                j = diffs[0]
                w, g = wants[j].split(' ; '), got[j].split(' ; ')
                d = next((x for x in range(min(len(w), len(g))) if w[x].split() != g[x].split()), min(len(w), len(g)))
                ctx.broken('correspondence', 'sequences',
                           {'disagreements': len(diffs), 'of': len(lines),
                            'first': {'case': seqs[j], 'first_difference_at_step': d,
                                      'impl': w[d] if d < len(w) else None, 'model': g[d] if d < len(g) else None}})
    ctx.count('sequences', len(seqs), [json.dumps(c, sort_keys=True) for c in seqs],
              events=sum(len(c['events']) for c in seqs), oracle_statistics=dict(sorted(stats.items())),
              generator_histogram=dict(sorted(shist.items())),
              final_table_sizes=dict(sorted(Counter(len(tr['remote']) for tr in impl['seqs']).items())))
    ctx.sample({'stream': 'sequences', 'case': seqs[0], 'final_remote': impl['seqs'][0]['remote'], 'known': impl['seqs'][0]['known']})
    ctx.log(f'sequences compared, t={time.time() - t0:.1f}s')

    if ctx.thorough:
        hits = ctx.gate_grep(['Wsd', 'Location', 'Common'])
        if hits:
            ctx.broken('theorem', 'grep gate', hits)
        ctx.coqchk('SDC.Props.C14')
    return ctx.finish(
        rule='pairs: scope URIs rendered from structured components (scheme / authority pools with case variants, segment '
             'pool with encoded slashes, empty segments, trailing slashes, %-escapes in both cases, invalid escapes, dot '
             'segments, query / fragment) and a related second URI (longer, shorter, re-encoded, case-changed, ...), all '
             'MatchBy values, through the real match_scope; verdict compared with the extracted model on the texts and '
             'judged by an independent reference matcher on the components.  sequences: publish / clear / incoming Hello, Bye, '
             'Probe, ProbeMatches, Resolve, ResolveMatches (missing optional parts, missing AppSequence, duplicate message ids, '
             'own messages looped back, small id memories) through the real message factory, parser, NetworkingThread._run_q_read '
             'and WSDiscovery; every outbound message, the final tables and the id memory compared with the model; the oracle '
             're-computes the statement (highest version since last Bye, exact Probe answers, Resolve only if published, no '
             'action on remembered ids) from the event list alone.',
        assumptions=['a Python str is identified with its UTF-8 encoding',
                     'authorities with non-ASCII characters are out of model (unicode-aware lower(), NFKC check)',
                     'verdicts of the ipaddress / NFKC checks inside urlsplit are taken from Python (abstract bit)'],
        trusted_base=['translators harness/impl/gen_wsd_match.py (MatchBy URIs, module switches) and gen_wsd_params.py (id memory size)',
                      'extraction: ExtrOcamlBasic only; ocaml/driver_c14.ml + zutil.inc',
                      'correspondence harness harness/impl/c14_impl.py (WSDiscovery without start(), NetworkingThread built with '
                      'object.__new__, _repeated_enqueue_msg replaced by a recorder, random.randint rebound for instance ids)',
                      'urllib.parse of CPython 3.12 is modelled (Location/Quote.v), validated differentially only'],
        not_modelled=['callbacks (hello / bye / probe / resolve-match)', 'search_services timing loops', 'UDP sockets, retransmission (C15)',
                      'XML parsing and schema validation (the real parser is crossed, not modelled)',
                      'ldap / uuid matching rules of WS-Discovery (the code applies the RFC 3986 rule to them)'])


def replay(ctx, rep):
    """./check C14 --replay <file>: run the recorded case again on the implementation and print what it does."""
    stream, case = rep.get('stream'), rep.get('case')
    if not case or stream not in ('pairs', 'sequence'):
        print(json.dumps(rep, indent=1)[:4000])
        return 0
    if stream == 'pairs':
        impl = ctx.impl('c14_impl', {'pairs': [{k_: case[k_] for k_ in ('mb', 'a', 'b')}]})
        now = impl.get('pairs', impl)
    else:
        impl = ctx.impl('c14_impl', {'seqs': [case]})
        now = impl.get('seqs', impl)
    print(f'stream {stream}; case: {json.dumps(case)[:3000]}')
    print('implementation now:', json.dumps(now)[:4000])
    print('recorded          :', json.dumps(rep.get('impl_trace'))[:4000])
    return 0
