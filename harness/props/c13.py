"""C13 - request handling is total: any input gets a response; no hang, crash or XXE (DESIGN.md 4, C13).

Streams:
  flow_post / flow_get   EXHAUSTIVE: every combination of stage outcomes around the real
                         MessageConverterMiddleware.do_post / do_get (stub reader, factory, dispatcher) vs. Http.Dispatch
  flow_handler           EXHAUSTIVE: method x body-reader outcome x dispatcher x path class x component outcome through
                         the real DispatchingRequestHandler on an in-memory socket vs. Http.Dispatch.handle_post/_get
  reader                 HTTPReader.read_request_body on mostly malformed framing with short reads under a read-counting
                         stream (watchdog = the fuel bound of C13_reader_terminates) vs. Http.Chunk
  world                  a real provider and consumer without sockets: valid requests of every type made by the consumer
                         API, captured, mutated structurally and delivered as raw HTTP bytes; per delivery the oracle
                         checks: answered, well-formed, bounded reads, no entity/DTD resolution, state snapshots unchanged
                         when rejected; the observed stage outcomes are replayed on the model (status and body class)
"""
import os

from lib import VERIF

from props import c17

HEADER = ('From Coq Require Import List NArith Bool.\nImport ListNotations.\n'
          'From SDC Require Import Http.Chunk Http.Dispatch Http.Connection Http.Gen_Params.\nOpen Scope N_scope.')
KIND = {0: 'KResponse', 1: 'KFault', 2: 'KText', 3: 'KEmpty'}


def res_lit(r):
    """implementation outcome -> Coq [result] literal"""
    if r[0] == 'answer' and r[2] in KIND:
        return f'(Answer {r[1]} {KIND[r[2]]})'
    if r[0] == 'propagates':
        return 'Propagates'
    return '(Answer 999 KText)'      # spin / no response / unknown body: never equal to what the model says


def b(x):
    return 'true' if x else 'false'


def post_lit(c):
    pa, di = c['parse'], c['dispatch']
    dcode = 2 if di[0] == 3 else di[0]
    return f'(DPost (({pa[0]}, {pa[1]}), {b(c["fault_reply"])}, ({dcode}, {di[1]}), {b(c["recover"] == "ok")}))'


def handle_lit(is_post, read_ok, disp, pclass, comp, reason_ok):
    return (f'(DHandle ({b(is_post)}, ({b(read_ok)}, {b(disp)}, {pclass}), '
            f'({comp[0]}, {comp[1]}, {comp[2]}), {b(reason_ok)}))')


def gen_flows():
    posts, gets, handlers = [], [], []
    stages = [[0, 0], [1, 400], [1, 404], [1, 500], [1, 418], [2, 0]]
    for pa in stages:
        for fr in (True, False):
            for di in stages + [[3, 0]]:
                for rc in ('ok', 'reread', 'mk_reply', 'serialize'):
                    posts.append({'parse': pa, 'fault_reply': fr, 'dispatch': di, 'recover': rc})
    for path, ok in (('/dev/svc', True), ('/dev/svc?wsdl', True), ('dev', True), ('', True), ('http://[/dev', False)):
        for di in stages:
            gets.append({'path': path, 'urlparse_ok': ok, 'dispatch': di, 'parse': [0, 0], 'fault_reply': True, 'recover': 'ok'})
    comps = [[1, 200, 0], [1, 400, 1], [1, 404, 1], [1, 500, 1], [0, 0, 0]]
    for method in ('POST', 'GET'):
        for read in (['ok', 'ok_chunked', 'bad_chunk', 'eof_in_chunk', 'trunc_header', 'negative_chunk', 'unsupported_coding',
                      'corrupt_gzip', 'bad_cl', 'neg_cl'] if method == 'POST' else ['ok']):
            for disp in (True, False):
                for pclass, paths in ((0, ['/dev/svc', 'dev/x', '/dev/a/b?q=1', '//dev']), (1, ['/nope/svc', '/', '/Dev/x']),
                                      (2, ['http://host', '?query']), (3, ['http://[/dev/x'])):
                    for path in paths:
                        for comp in comps + ([[1, 500, 2]] if method == 'GET' else []):
                            for reason in (['boom'] if comp[0] else ['boom', 'b\u20acm']):
                                handlers.append({'method': method, 'read': read, 'dispatcher': disp, 'pclass': pclass, 'path': path,
                                                 'component': comp, 'reason': reason})
    return posts, gets, handlers


WORLD_KIND = {'fault': 1, 'response': 0, 'xml-other': 0, 'text': 2}


def world_kind(tr):
    if tr['status'] == 200:          # whatever the handler answered (a Fault payload with status 200 is its response)
        return 0
    if tr['body_class'] == 'empty':
        return 3 if (tr.get('content_type') or '').startswith('text/plain') else 0
    return WORLD_KIND.get(tr['body_class'], 9)


# What a mutation operator does to the stage outcomes BY DESIGN of the operator (independent of the code):
# (read_ok, parse outcome | None = not reached, answer).  Pins the behaviour of reader / handler / dispatcher on
# inputs whose class is known without looking at the implementation.
ALWAYS_OK_TYPES = {'GetMdib', 'GetMdState', 'GetMdDescription', 'GetContextStates', 'Probe', 'TransferGet', 'GetMetadata',
                   'SetValue', 'SetString', 'Activate', 'SetContextState', 'Subscribe'}
READ_FAILS = {'frame:chunk_truncate', 'frame:chunk_bad_size', 'frame:chunk_negative', 'frame:chunk_no_last', 'frame:chunk_huge',
              'frame:cl_negative', 'frame:cl_garbage', 'frame:ce_unsupported', 'frame:ce_corrupt', 'frame:ce_plain_as_gzip',
              'frame:ce_upper'}
PARSE_RAISES = {'bytes:truncate', 'bytes:empty', 'bytes:garbage', 'frame:cl_absent', 'frame:cl_shorter'}
VALID_FRAMING = {'none', 'frame:valid_gzip_chunked', 'frame:expect_continue', 'frame:http10', 'frame:cl_longer', 'frame:weird_accept'}


def design_expectation(tr):
    """(status, kind) the provider must answer for this top-level delivery, or None when the operator does not determine it"""
    if tr['endpoint'] != 'provider' or tr['nested'] or tr['method'] != 'POST':
        return None
    m = tr['mutation']
    if (m or '').startswith('mismatch:'):
        return 400, 1
    if m in READ_FAILS:
        return 400, 3
    if m in PARSE_RAISES:
        return 500, 1
    if m == 'path:unknown_device' or m == 'path:root_path' or m == 'path:no_slash' or m == 'path:bad_url' or m == 'path:empty_path':
        return 404, 3
    if m == 'path:unknown_service':
        return 404, 1
    if m in VALID_FRAMING and tr['label'] in ALWAYS_OK_TYPES:
        return 200, 0
    return None


def entity_leak(tr):
    """the replacement text of an entity that the request declared must not show up anywhere: not in the response, not in
    what the reader hands to a handler (element text, attribute values, header block), not in a notification"""
    mk = tr.get('entity_marker')
    if not mk:
        return None
    if tr.get('entity_in_response'):
        return f'the replacement text of the declared entity ({mk}) is part of the response (status {tr["status"]}, {tr["body_class"]})'
    h = (tr.get('frame') or {}).get('entity_handed')
    if h:
        return f'the reader handed the expanded entity ({mk}) to the dispatcher / handler: {h[:3]}'
    if tr.get('entity_in_notification'):
        return f'the expanded entity ({mk}) was sent on in a notification'
    for d in tr.get('direct_reads') or []:
        if d['handed']:
            return (f'MessageReader.read_received_message of the {d["reader"]} (validate={d["validate"]}) returns a message that contains '
                    f'the expanded entity ({mk}): {d["handed"][:3]}')
    return None


def seq_oracle(tr):
    """several requests on one kept-alive connection: (clause, text, index of the offending request) or None"""
    n, rs = tr['n_requests'], tr['responses']
    m = len(rs)

    def first_divergence():
        for j in range(min(m, n)):
            exp, mid, r = tr['expect'][j], tr['message_ids'][j], rs[j]
            if exp is not None and r['status'] != exp:
                return j, f'response {j + 1} has status {r["status"]}, request {j + 1} ({tr["kinds"][j]}) must be answered with {exp}'
            if tr['valid'][j] and mid and r['relates_to'] and r['relates_to'] != mid:
                return j, f'response {j + 1} relates to {r["relates_to"]}, request {j + 1} has MessageID {mid}'
            if not tr['valid'][j] and r['relates_to'] and r['relates_to'] in [x for x in tr['message_ids'] if x]:
                return j, f'response {j + 1} answers another request of the connection ({r["relates_to"]})'
        return None
    if tr['spin'] or tr['reads'] > tr['read_budget']:
        return 'spin', f'the connection was not finished within {tr["read_budget"]} reads', 0
    if tr['escaped']:
        return 'escape', f'exception left the request handler: {tr["escaped"]}', max(0, m - 1)
    if tr['propagated']:
        return 'middleware-exception', f'{tr["propagated"]} left the middleware', max(0, m - 1)
    if tr['resolved'] or tr['canary_in_response']:
        return 'entity-resolution', f'external entity resolved: {tr["resolved"][:2]}', 0
    for r in rs:            # a response that answers the request hidden in the body of another request
        if r['relates_to'] and r['relates_to'] in [x for x in tr.get('inner_ids', []) if x]:
            j = tr['inner_ids'].index(r['relates_to'])
            return ('smuggled', f'the body of request {j + 1} ({tr["kinds"][j]}) is a complete request; it was executed and answered '
                                f'(RelatesTo {r["relates_to"]}): {n} requests sent, handler ran {len(tr["entered"])}, {m} responses', j)
    div = first_divergence()
    culprit = max(0, div[0] - 1) if div else max(0, min(m, n) - 1)
    if len(tr['entered']) > n or m > n or tr['unparsed_output']:
        return ('smuggled', f'{n} requests were sent on the connection, the handler ran {len(tr["entered"])} requests and wrote {m} responses'
                            f' (+{tr["unparsed_output"]} bytes): body bytes of request {culprit + 1} ({tr["kinds"][culprit]}) were taken for a '
                            f'request' + (f'; {div[1]}' if div else ''), culprit)
    if div:
        return 'misaligned', div[1], (div[0] - 1 if div[0] > 0 and not tr['valid'][div[0] - 1] else div[0])
    if m == 0:
        return 'no-response', 'no response at all on the connection', 0
    if m < n and not tr['closes'][m - 1]:
        return ('unanswered', f'{n} requests, only {m} responses although request {m} ({tr["kinds"][m - 1]}) gives no reason to close '
                              f'the connection', m - 1)
    for j, r in enumerate(rs):
        if r['body_class'] in ('unparseable', 'envelope-without-body') or (r['status'] and r['status'] >= 400 and r['body_class'] == 'fault'
                                                                               and not r['wellformed']):
            return 'malformed-response', f'response {j + 1}: status {r["status"]} with a body that is {r["body_class"]}', j
    for j, ch in enumerate(tr['per_request_changed'][:n]):
        if ch and not tr['valid'][j]:
            return 'state-changed', f'request {j + 1} ({tr["kinds"][j]}) was rejected but {ch} changed while it was handled', j
    if tr['state_changed'] and not any(tr['valid'][:m]):
        return 'state-changed', f'no valid request was answered but {tr["state_changed"]} changed', 0
    return None


def world_oracle(tr):
    """the property on one delivery (None = fine)"""
    if tr['spin'] or tr['reads'] > tr['read_budget']:
        return 'spin', f'request handling did not finish within {tr["read_budget"]} reads of the input'
    if tr['escaped']:
        return 'escape', f'exception left the request handler: {tr["escaped"]}'
    if tr['status'] is None:
        return 'no-response', f'no HTTP response was produced (output starts {tr.get("resp_head")!r})'
    if tr['resolved']:
        return 'entity-resolution', f'the XML parser tried to resolve {tr["resolved"][:3]}'
    if tr['canary_in_response']:
        return 'xxe', 'content of the canary file appears in the response'
    if tr.get('header_injected'):
        return 'header-injection', 'text of the request ended up as a header line of the response (line break in the reason phrase)'
    ent = entity_leak(tr)
    if ent:
        return 'entity-expanded', ent
    if tr['body_class'] in ('unparseable', 'envelope-without-body'):
        return 'malformed-response', f'status {tr["status"]} with a body that is {tr["body_class"]}'
    f = tr['frame']
    if f and not f.get('get') and not f.get('returned'):
        # the exception left do_post; whatever the request handler makes of it, the peer gets no response / no SOAP fault
        return 'middleware-exception', (f'{f.get("propagated")} left MessageConverterMiddleware.do_post (parse stage: '
                                        f'{f.get("parse_exc") or f.get("parse")}, dispatch stage: {f.get("dispatch_exc") or f.get("dispatch")}); '
                                        f'the peer got status {tr["status"]} with a body that is {tr["body_class"]}')
    if f and f.get('get') and not f.get('returned'):
        return 'middleware-exception', f'{f.get("propagated")} left MessageConverterMiddleware.do_get'
    if tr['method'] == 'POST' and tr['entered'][:1] == ['do_POST'] and tr['path_class'] == 0 and tr['read_ok'][:1] == [True] \
            and tr['body_class'] not in ('fault', 'response') and not (tr['body_class'] == 'empty' and tr['status'] == 200):
        # the request reached a registered component: the answer must be its response or a parsable SOAP fault
        return 'not-soap', f'POST to a registered path answered with status {tr["status"]} and a body that is {tr["body_class"]}'
    if tr['frame'] and not tr['frame'].get('get') and tr['frame'].get('returned'):
        # the middleware answered: must be a SOAP envelope; >= 400 must carry a well-formed Fault
        if tr['body_class'] not in ('fault', 'response', 'empty'):
            return 'malformed-response', f'POST answered with {tr["body_class"]}'
        if tr['status'] >= 400 and not (tr['body_class'] == 'fault' and tr['wellformed']):
            return 'malformed-fault', f'status {tr["status"]} without a well-formed SOAP fault ({tr["body_class"]})'
    if (tr['mutation'] or '').startswith('mismatch:') and tr['endpoint'] == 'provider' and not tr['nested']:
        # action of one operation with the body element of another: no handler is registered for that pair
        if tr['status'] < 400 or (f or {}).get('dispatch') == [0, 0]:
            return 'mismatch-executed', (f'request with the action of one operation and the body element of another ({tr["mutation"][9:]}), sent after '
                                         f'a valid request with the same action, was executed: status {tr["status"]}, {tr["body_class"]}, state changed: '
                                         f'{tr.get("state_changed")}')
    if tr.get('state_changed') and tr['status'] >= 400:
        return 'state-changed', f'request rejected with {tr["status"]} but {tr["state_changed"]} changed'
    return None


def run(ctx):  # noqa: C901, PLR0912, PLR0915
    ctx.regenerate('gen_http_params', 'Http/Gen_Params.v')
    if not ctx.prove():
        ctx.broken('theorem', 'Props/C13.v', ctx.proof_error)
    rng = ctx.rng
    lits = []       # (input, expected, stream, index)

    # ------------------------------------------------------------ exhaustive control-flow streams
    posts, gets, handlers = gen_flows()
    impl = ctx.impl('c13_impl', {'flow_post': posts, 'flow_get': gets, 'flow_handler': handlers}, timeout=900)
    if impl.get('_crash'):
        ctx.broken('correspondence', 'c13_impl', impl['stderr'])
        return ctx.finish('implementation run crashed', [], [])
    outcomes = {}
    for i, (c, r) in enumerate(zip(posts, impl['flow_post'])):
        lits.append((post_lit(c), res_lit(r), 'flow_post', i))
        outcomes[r[0]] = outcomes.get(r[0], 0) + 1
        if r[0] != 'answer' and c['fault_reply'] and c['recover'] == 'ok':
            ctx.fail(f'do_post lets {r[1]} out although answering the fault and the recovery path work',
                     {'stream': 'flow_post', 'clause': 'propagates'}, {'stream': 'flow_post', 'case': c, 'impl_trace': r})
    ctx.count('flow_post', len(posts), [str(c) for c in posts], exhaustive=True, outcomes=outcomes)
    for i, (c, r) in enumerate(zip(gets, impl['flow_get'])):
        lits.append((f'(DGet ({b(c["urlparse_ok"])}, ({c["dispatch"][0]}, {c["dispatch"][1]})))', res_lit(r), 'flow_get', i))
    ctx.count('flow_get', len(gets), [str(c) for c in gets], exhaustive=True)
    outcomes = {}
    design_diff = []
    for i, (c, tr) in enumerate(zip(handlers, impl['flow_handler'])):
        r = tr['result']
        is_post = c['method'] == 'POST'
        read_ok = c['read'] in ('ok', 'ok_chunked')
        reason_ok = c['reason'] == 'boom'
        lits.append((handle_lit(is_post, read_ok, c['dispatcher'], c['pclass'], c['component'], reason_ok), res_lit(r), 'flow_handler', i))
        outcomes[r[0]] = outcomes.get(r[0], 0) + 1
        comp_raises = c['component'][0] == 0
        if r[0] != 'answer' and not (comp_raises and (not is_post or not reason_ok) and c['dispatcher'] and c['pclass'] == 0 and (read_ok or not is_post)):
            ctx.fail(f'{c["method"]} {c["path"]!r} (body reader: {c["read"]}, dispatcher: {c["dispatcher"]}) is not answered: {r}',
                     {'stream': 'flow_handler', 'clause': r[0], 'method': c['method']},
                     {'stream': 'flow_handler', 'case': c, 'impl_trace': tr, 'oracle': {'verdict': 'fail', 'clause': 'every request gets an HTTP response'}})
        if is_post and read_ok != (tr['read_ok'][:1] == [True]) and r[0] == 'answer' and tr['read_ok']:
            design_diff.append({'case': c, 'impl': tr})
    if design_diff:
        ctx.broken('correspondence', 'flow_handler', {'why': 'the body reader accepted / rejected a body differently from the case design',
                                                      'cases': len(design_diff), 'first': design_diff[0]})
    ctx.count('flow_handler', len(handlers), [str(c) for c in handlers], exhaustive=True, outcomes=outcomes)
    ctx.sample({'stream': 'flow_handler', 'case': handlers[7], 'impl': impl['flow_handler'][7]})

    ctx.log(f'flows done at {__import__("time").time() - ctx.t0:.0f}s')
    # ------------------------------------------------------------ reader stream (malformed-heavy, short reads)
    probe = ctx.impl('c17_impl', {})
    avail = probe.get('available_encodings', ['gzip'])
    rd_cases = [c17.gen_reader_case(rng, avail, False, malformed_share=0.85) for _ in range(ctx.n(300, 6000))]
    for c in rd_cases:                       # more short reads than in C17
        if not c['caps'] and rng.random() < 0.4:
            c['caps'] = [rng.choice([1, 1, 2, 3, 7]) for _ in range(rng.randint(1, 120))]
            c['short_reads'] = True
    rimpl = ctx.impl('c17_impl', {'reader': [{'te': c['te'], 'cl': c['cl'], 'ce': c['ce'], 'data': c['data'].hex(), 'caps': c['caps']}
                                             for c in rd_cases]}, timeout=900)
    if rimpl.get('_crash'):
        ctx.broken('correspondence', 'c17_impl (reader)', rimpl['stderr'])
        rimpl = {'reader': []}
    hist, tags, muts = {}, {}, {}
    rlits = []
    for i, (c, tr) in enumerate(zip(rd_cases, rimpl['reader'])):
        hist[c['kind']] = hist.get(c['kind'], 0) + 1
        tags[str(tr['tag'])] = tags.get(str(tr['tag']), 0) + 1
        if c.get('mutation'):
            muts[c['mutation']] = muts.get(c['mutation'], 0) + 1
        budget = 3 * len(c['data']) + 32
        why = None
        if tr.get('spin') or tr.get('reads', 0) > budget:
            why = ('spin', f'read_request_body did not finish within {budget} read calls on {len(c["data"])} bytes')
        elif tr['tag'] == 98:
            why = ('crash', f'read_request_body raised {tr["exc"]} instead of a clean framing error: {tr.get("exc_text")}')
        elif tr['exc'] is None and tr['left'] < len(c['trailing']) and c['kind'] in ('chunked-own', 'chunked-foreign', 'cl-exact'):
            why = ('over-read', 'bytes behind the message were consumed')
        if why:
            ctx.fail(f'reader ({c["kind"]}{"/" + c["mutation"] if c.get("mutation") else ""}): {why[1]}',
                     {'stream': 'reader', 'clause': why[0]},
                     {'stream': 'reader', 'case': {'te': c['te'], 'cl': c['cl'], 'ce': c['ce'], 'data_hex': c['data'].hex()[:4000],
                                                   'caps': c['caps'][:200], 'kind': c['kind'], 'mutation': c.get('mutation'), 'model_hdr': list(c['model_hdr'])},
                      'impl_trace': tr, 'oracle': {'verdict': 'fail', 'clause': why[0]}})
        a, e = c17.reader_literals(c, tr)
        rlits.append((f'(FReq {a})', f'(FTrace {e})'))
    mism, err = ctx.coq_mism('reader', c17.HEADER, 'fres_eqb', 'run_framing hdr_max available_encodings', rlits, shard=c17.shard_size(rlits),
                             deps=['Http/Gen_Params.vo', 'Http/Negotiation.vo'])
    if err:
        ctx.broken('correspondence', 'reader (coq evaluation)', err)
    for j in mism[:1]:
        c, tr = rd_cases[j], rimpl['reader'][j]
        ctx.broken('correspondence', 'reader', {
            'disagreements': len(mism), 'kinds': sorted({str(rd_cases[x]['kind']) + ':' + str(rd_cases[x].get('mutation')) for x in mism})[:12],
            'first': {'te': c['te'], 'cl': c['cl'], 'ce': c['ce'], 'data_hex': c['data'].hex()[:600], 'caps': c['caps'][:20], 'impl': tr,
                      'model': ctx.coq_eval(c17.HEADER, f'run_framing hdr_max available_encodings {rlits[j][0]}')[-500:]}})
    ctx.count('reader', len(rd_cases), [(c['te'], c['cl'], c['ce'], c['data'], tuple(c['caps'])) for c in rd_cases],
              histogram=hist, outcome_tags=tags, mutations=muts, short_read_cases=sum(1 for c in rd_cases if c.get('short_reads')),
              max_reads_over_len=max((tr.get('reads', 0) / max(1, len(c['data'])) for c, tr in zip(rd_cases, rimpl['reader'])), default=0))

    ctx.log(f'reader done at {__import__("time").time() - ctx.t0:.0f}s')
    # ------------------------------------------------------------ world stream
    n_worlds = ctx.n(1, 4)
    per_world = ctx.n(1000, 5000)
    traces, seqs, wsds = [], [], []
    meta = []
    for w in range(n_worlds):
        canary = f'/tmp/c13_canary_{os.getpid()}_{w}.txt'
        cfg = {'seed': rng.getrandbits(48), 'n': per_world, 'n_consumer': per_world // 6, 'n_seq': ctx.n(160, 700),
               'n_wsd': ctx.n(60, 300), 'canary_file': canary,
               'canary_content': f'C13-CANARY-{rng.getrandbits(64):016x}', 'keep_hex': 0, 'valid_share': 0.25}
        wi = ctx.impl('c13_impl', {'world': cfg}, timeout=1500)
        if wi.get('_crash'):
            ctx.broken('correspondence', 'c13_impl (world)', wi['stderr'])
            continue
        wd = wi['world']
        meta.append({k: v for k, v in wd.items() if k != 'traces'})
        if wd['canary_in_mdib']:
            ctx.fail('content of the canary file ended up in the MDIB', {'stream': 'world', 'clause': 'xxe-mdib'}, {'stream': 'world', 'case': cfg})
        if wd['resolved_total']:
            ctx.fail(f'the XML parser tried to resolve external resources: {wd["resolved_total"][:3]}',
                     {'stream': 'world', 'clause': 'entity-resolution'}, {'stream': 'world', 'case': cfg})
        for kw in wd['parser_kwargs']:
            if '"resolve_entities": false' not in kw:
                ctx.broken('correspondence', 'world', {'why': 'MessageReader creates a parser without resolve_entities=False', 'kwargs': kw})
        for tr in wd['traces']:
            tr['world'] = w
            tr['cfg'] = cfg
            traces.append(tr)
        for tr in wd.get('seq', []):
            tr['cfg'] = cfg
            seqs.append(tr)
        for tr in wd.get('wsd', []):
            tr['cfg'] = cfg
            wsds.append(tr)
    ctx.log(f'worlds done at {__import__("time").time() - ctx.t0:.0f}s')
    hist_type, hist_mut, hist_status, hist_stage = {}, {}, {}, {}
    n_handler_lits = n_mw_lits = n_rejected_checked = n_expect = 0
    expect_diff = []
    wl = []
    for i, tr in enumerate(traces):
        fam = (tr['mutation'] or 'setup').split(':')[0]
        if not tr['nested']:
            hist_type[tr['label']] = hist_type.get(tr['label'], 0) + 1
            hist_mut[tr['mutation'] or 'setup'] = hist_mut.get(tr['mutation'] or 'setup', 0) + 1
        key = f'{tr["endpoint"][:4]}:{tr["status"]}:{tr["body_class"]}'
        hist_status[key] = hist_status.get(key, 0) + 1
        if tr.get('state_changed') is not None and (tr['status'] or 0) >= 400:
            n_rejected_checked += 1
        bad = world_oracle(tr)
        if bad:
            ctx.fail(f'{tr["endpoint"]} {tr["method"]} {tr["label"]} [{tr["mutation"]}]: {bad[1]}',
                     dict({'stream': 'world', 'clause': bad[0], 'family': fam},
                          **({'reference_in': 'attribute' if 'attr' in (tr['mutation'] or '') else 'content'} if bad[0] == 'entity-expanded' else {})),
                     {'stream': 'world', 'case': {'world': tr['cfg'], 'request_type': tr['label'], 'mutation': tr['mutation'], 'method': tr['method'],
                                                  'path': tr['path'], 'raw_request_hex': tr.get('raw_hex')},
                      'impl_trace': {k: v for k, v in tr.items() if k not in ('cfg', 'raw_hex')},
                      'oracle': {'verdict': 'fail', 'clause': bad[0]}})
        want = design_expectation(tr)
        if want is not None:
            n_expect += 1
            got = (tr['status'], world_kind(tr))
            if got != want:
                expect_diff.append({'request_type': tr['label'], 'mutation': tr['mutation'], 'path': tr['path'], 'expected (status, kind)': want,
                                    'got': got, 'stages': tr['frame'], 'read_ok': tr['read_ok'], 'world': tr['cfg'], 'raw_request_hex': tr.get('raw_hex')})
        # replay the observed outcomes on the model (every top-level delivery, every 10th nested notification)
        if len(tr['entered']) != 1 or tr['status'] is None or (tr['nested'] and i % 10):
            continue
        is_post = tr['entered'][0] == 'do_POST'
        f = tr['frame']
        if f is None:
            comp = [1, 200, 0]
        elif f.get('get'):
            comp = [1, f['get_status'], 0 if f['get_status'] == 200 else 2] if f.get('returned') else [0, 0, 0]
        else:
            comp = [1, f['result'][0], 0 if f['result'][0] == 200 else f['result'][1]] if f.get('returned') else [0, 0, 0]
        read_ok = (tr['read_ok'][:1] == [True]) if is_post else True
        wl.append((handle_lit(is_post, read_ok, True, tr['path_class'], comp, True), res_lit(['answer', tr['status'], world_kind(tr)]), 'world-handler', i))
        n_handler_lits += 1
        if f and not f.get('get') and 'parse' in f:
            pa = f['parse']
            di = f.get('dispatch', [0, 0])
            st = f'p{pa[0]}:{pa[1]}/d{di[0]}:{di[1]}' if pa[0] == 0 else f'p{pa[0]}:{pa[1]}'
            hist_stage[st] = hist_stage.get(st, 0) + 1
            exp = res_lit(['answer', f['result'][0], 0 if f['result'][0] == 200 else f['result'][1]]) if f.get('returned') else 'Propagates'
            wl.append((f'(DPost (({pa[0]}, {pa[1]}), {b(f.get("returned"))}, ({di[0]}, {di[1]}), {b(f.get("returned"))}))', exp, 'world-middleware', i))
            n_mw_lits += 1
    lits += wl
    mism, err = ctx.coq_mism('dispatch', HEADER, 'result_eqb', 'run_dispatch', [(a, e) for a, e, _, _ in lits], shard=1500,
                             deps=['Http/Dispatch.vo', 'Http/Gen_Params.vo'])
    if err:
        ctx.broken('correspondence', 'dispatch (coq evaluation)', err)
    by_stream = {}
    for j in mism:
        by_stream.setdefault(lits[j][2], []).append(j)
    src = {'flow_post': (posts, impl['flow_post']), 'flow_get': (gets, impl['flow_get']), 'flow_handler': (handlers, impl['flow_handler'])}
    for name, js in by_stream.items():
        j = js[0]
        if name in src:
            case, tr = src[name][0][lits[j][3]], src[name][1][lits[j][3]]
        else:
            t = traces[lits[j][3]]
            case = {'request_type': t['label'], 'mutation': t['mutation'], 'path': t['path'], 'world': t['cfg'], 'raw_request_hex': t.get('raw_hex')}
            tr = {k: v for k, v in t.items() if k not in ('cfg', 'raw_hex')}
        ctx.broken('correspondence', name, {'disagreements': len(js), 'first': {'case': case, 'impl': tr, 'model_input': lits[j][0],
                                                                                 'impl_as_result': lits[j][1],
                                                                                 'model': ctx.coq_eval(HEADER, f'run_dispatch {lits[j][0]}')[-200:]}})
    if expect_diff:
        ctx.broken('correspondence', 'world-expectation', {
            'why': 'the answer differs from what the mutation operator determines by design (valid request -> 200 + response, damaged '
                   'framing -> 400, unparsable XML -> 500 + fault, unknown device / service -> 404)',
            'disagreements': len(expect_diff), 'kinds': sorted({d['mutation'] + '/' + d['request_type'] for d in expect_diff})[:15],
            'first': expect_diff[0]})
    prov_top = [t for t in traces if t['endpoint'] == 'provider' and not t['nested']]
    top = [t for t in traces if not t['nested']]
    ctx.count('world', len(top), [(t['world'], k) for k, t in enumerate(traces) if not t['nested']],
              nested_notifications_delivered_to_consumer=len(traces) - len(top),
              request_types=hist_type, mutations=hist_mut, status_and_body=hist_status, observed_stage_outcomes=hist_stage,
              replayed_on_model={'handler': n_handler_lits, 'middleware': n_mw_lits}, compared_with_design_expectation=n_expect,
              rejected_with_snapshot=n_rejected_checked, provider_requests=len(prov_top),
              accepted_share=round(sum(1 for t in prov_top if t['status'] == 200) / max(1, len(prov_top)), 3),
              worlds=meta)
    hist_kind, hist_len, n_short, n_seq_req = {}, {}, 0, 0
    for tr in seqs:
        n_seq_req += tr['n_requests']
        hist_len[str(tr['n_requests'])] = hist_len.get(str(tr['n_requests']), 0) + 1
        n_short += len(tr['responses']) < tr['n_requests']
        for k in tr['kinds']:
            hist_kind[k] = hist_kind.get(k, 0) + 1
        bad = seq_oracle(tr)
        if bad:
            j = bad[2]
            ctx.fail(f'connection with {tr["n_requests"]} requests {tr["kinds"]}: {bad[1]}',
                     {'stream': 'seq', 'clause': bad[0], 'kind': tr['kinds'][j]},
                     {'stream': 'seq', 'case': {'world': tr['cfg'], 'kinds': tr['kinds'], 'raw_connection_hex': tr.get('raw_hex')},
                      'impl_trace': {k: v for k, v in tr.items() if k not in ('cfg', 'raw_hex')},
                      'oracle': {'verdict': 'fail', 'clause': bad[0], 'request_index': j}})
    # the connection loop of the model on the same sequences: answers up to the first close must agree
    clits, cidx = [], []
    for k, tr in enumerate(seqs):
        if not tr.get('model_items') or tr['escaped'] or tr['spin']:
            continue
        items = tr['model_items']
        lit_items = '[' + '; '.join(
            f'({b(p)}, ({b(hd[0])}, {hd[1]}, {hd[2]}), {c17.OB(c17.lat(ce))}, ({b(dp[0])}, {dp[1]}), ({cm[0]}, {cm[1]}, {cm[2]}), {b(dec)})'
            for p, hd, ce, dp, cm, dec in items) + ']'
        got = []
        for r in tr['responses'][:len(items)]:
            kind = 0 if r['status'] == 200 else 1 if r['body_class'] == 'fault' else \
                (3 if r['body_class'] == 'empty' and (r.get('content_type') or '').startswith('text/plain') else 2 if r['body_class'] in ('text', 'empty') else 9)
            got.append(res_lit(['answer', r['status'], kind]))
        clits.append((f'({lit_items}, {c17.B(bytes.fromhex(tr["wires_hex"]))})', '[' + '; '.join(got) + ']'))
        cidx.append(k)
    cm, err = ctx.coq_mism('connection', HEADER, 'results_eqb', 'run_conn_answers hdr_max available_encodings', clits, shard=60,
                           deps=['Http/Connection.vo', 'Http/Gen_Params.vo'])
    if err:
        ctx.broken('correspondence', 'connection (coq evaluation)', err)
    for j in cm[:1]:
        tr = seqs[cidx[j]]
        ctx.broken('correspondence', 'connection', {
            'disagreements': len(cm), 'first': {'kinds': tr['kinds'], 'world': tr['cfg'],
                                                 'impl_responses': [(r['status'], r['body_class']) for r in tr['responses']],
                                                 'model': ctx.coq_eval(HEADER, f'run_conn_answers hdr_max available_encodings {clits[j][0]}')[-400:],
                                                 'raw_connection_hex': (tr.get('raw_hex') or '')[:6000]}})
    ctx.count('seq', n_seq_req, [('seq', k) for k, _t in enumerate(seqs)], connections=len(seqs), request_kinds=hist_kind, requests_per_connection=hist_len,
              connections_closed_early_by_design=n_short, connections_compared_with_model=len(clits))
    hist_wsd = {}
    for tr in wsds:
        key = f'{tr.get("op")}:{"handled" if tr.get("handled") else "ignored"}'
        hist_wsd[key] = hist_wsd.get(key, 0) + 1
        why = None
        if tr.get('error'):
            continue
        if tr['handed']:
            why = ('entity-expanded', f'WS-Discovery {tr["kind"]} datagram: the expanded entity ({tr["marker"]}) reached the discovery handler: {tr["handed"][:3]}')
        elif tr['resolved']:
            why = ('entity-resolution', f'WS-Discovery datagram: the parser tried to resolve {tr["resolved"][:2]}')
        elif tr['escaped']:
            why = ('escape', f'WS-Discovery datagram: exception left the receive loop: {tr["escaped"]}')
        if why:
            ctx.fail(why[1], {'stream': 'wsd', 'clause': why[0], 'reference_in': 'attribute' if 'attr' in (tr.get('op') or '') else 'content'},
                     {'stream': 'wsd', 'case': {'world': tr['cfg'], 'kind': tr['kind'], 'op': tr['op'], 'datagram_hex': tr.get('datagram_hex')},
                      'impl_trace': {k: v for k, v in tr.items() if k not in ('cfg', 'datagram_hex')}, 'oracle': {'verdict': 'fail', 'clause': why[0]}})
    ctx.count('wsd', len(wsds), [(t.get('kind'), t.get('op'), t.get('marker')) for t in wsds], histogram=hist_wsd, oracle_only=True)
    for t in traces:
        if t['mutation'] and t['mutation'].startswith('xml:') and t['status'] and t['status'] >= 400:
            ctx.sample({'stream': 'world', 'request_type': t['label'], 'mutation': t['mutation'], 'status': t['status'],
                        'body': t['body_class'], 'stages': t['frame'], 'state_changed': t.get('state_changed')})
            break

    if ctx.thorough:
        hits = ctx.gate_grep(['Http', 'Common'])
        if hits:
            ctx.broken('theorem', 'grep gate', hits)
        ctx.coqchk('SDC.Props.C13')
    return ctx.finish(
        rule='flow_post/flow_get/flow_handler: EXHAUSTIVE over the stage-outcome combinations (stub stages around the real '
             'middleware / real request handler), each compared with the Coq model. reader: generated framing (85% malformed, '
             '55% short reads) on the real read_request_body under a read-counting stream, outcome + bytes handed on + bytes left '
             'compared with the model; watchdog = 3*len+32 reads. world: seeded structure-aware mutations of valid requests of '
             'every type through the full stack of a real provider/consumer; every delivery judged by the oracle (answered, '
             'well-formed SOAP or fault, bounded reads, no entity resolution, snapshots unchanged when status >= 400) and its '
             'observed stage outcomes replayed on the model (status and body class must agree). Every declared-entity case '
             '(marker referenced in element content, echoed header fields, attribute values, via parameter entities, nested) is judged '
             'on the response, on what the reader hands to the dispatcher, on notifications, and by reading the same bytes directly with '
             'the provider and consumer MessageReader (validate on/off); wsd: the same through NetworkingThread._run_q_read. '
             'seq: 3-6 requests (valid, unknown path, request hidden in a body, bad method / headers, damaged framing, GET with body, '
             'oversized) on ONE connection through the real handler loop: one response per request in order (status by design, RelatesTo '
             '= MessageID), no extra handler run, state changes only by valid requests; answers compared with Http.Connection.run_conn. '
             'distinct = distinct cases.',
        assumptions=['rfile.read(n) returns at most n bytes and b"" only at end of data',
                     'a service handler that does not complete leaves MDIB and subscription table unchanged (premise of '
                     'C13_rejected_state_unchanged; checked by the snapshot oracle on every rejected request of the world stream)',
                     'serializing a fault reply does not raise (p_fault_reply, p_recover: checked in the world stream - do_post '
                     'returned normally in every delivery - or reason phrase encodable)',
                     'model = /repo HEAD plus fixes/C13_reject_doctype.diff and fixes/C13_get_body_unread.diff',
                     'request lines and header blocks are parsed by http.server (not modelled): the connection model holds body bytes only'],
        trusted_base=['translator harness/impl/gen_http_params.py',
                      'correspondence harness harness/impl/c13_impl.py, c17_impl.py (in-memory sockets, loop-back SOAP client, inline SCO worker, '
                      'instrumented middleware proxies, mutation operators)',
                      'http.server.BaseHTTPRequestHandler (request line / header parsing, error pages), http.client, lxml/libxml2 '
                      '(parser, entity handling, schema validation): not modelled, judged on the implementation only'],
        not_modelled=['XML parsing, entity handling and schema validation: stage outcome p_parse; XXE part of the property is '
                      'oracle-only (canary file, canary URL, resolver hook, resolve_entities=False observed on every parser)',
                      'methods other than GET/POST and malformed request lines are answered by http.server itself',
                      'reads of n >= 2^40 bytes on a real BufferedReader raise MemoryError instead of returning what is there; the '
                      'handler answers 400 either way',
                      'time-outs on sockets that stay open without sending (socketserver/ssl level)'])


def replay(ctx, rep):
    """./check C13 --replay <file>: re-run the recorded case on the implementation (and the model where it applies)"""
    import json
    stream, case = rep.get('stream'), rep.get('case') or {}
    out = {'stream': stream, 'what': rep.get('what')}
    if stream == 'flow_post':
        out['impl'] = ctx.impl('c13_impl', {'flow_post': [case]})['flow_post'][0]
        out['model'] = ctx.coq_eval(HEADER, f'run_dispatch {post_lit(case)}')
    elif stream == 'flow_handler':
        out['impl'] = ctx.impl('c13_impl', {'flow_handler': [case]})['flow_handler'][0]
        out['model'] = ctx.coq_eval(HEADER, 'run_dispatch ' + handle_lit(case['method'] == 'POST', case['read'] in ('ok', 'ok_chunked'), case['dispatcher'],
                                                                           case['pclass'], case['component'], case['reason'] == 'boom'))
    elif stream == 'reader':
        data = bytes.fromhex(case['data_hex'])
        out['impl'] = ctx.impl('c17_impl', {'reader': [{'te': case['te'], 'cl': case['cl'], 'ce': case['ce'], 'data': data.hex(), 'caps': case['caps']}]})['reader'][0]
        out['fuel_bound_reads'] = 3 * len(data) + 32
        if 'model_hdr' in case:
            ch, code, v = case['model_hdr']
            ce = case['ce'] if case['ce'] else None
            inp = f'(({b(ch)}, {code}, {v}), {c17.OB(c17.lat(ce))}, {c17.B(data)}, {c17.NL(case["caps"])})'
            out['model (tag, (bytes handed on, bytes left))'] = ctx.coq_eval(c17.HEADER, f'run_request hdr_max available_encodings {inp}')
    elif stream == 'world':
        cfg = dict(case['world'], keep_hex=400)
        wd = ctx.impl('c13_impl', {'world': cfg}, timeout=1500)
        if wd.get('_crash'):
            out['impl'] = wd
        else:
            bad = []
            for tr in wd['world']['traces']:
                why = world_oracle(tr)
                if why:
                    bad.append({'why': why, 'trace': tr})
            out['failing_deliveries'] = bad[:5]
            out['n_failing'] = len(bad)
            out['n_deliveries'] = len(wd['world']['traces'])
        out['model'] = '(the world stream replays observed stage outcomes on Http.Dispatch; see evidence)'
    else:
        out['note'] = 'no single case recorded (proof or correspondence break without failing input)'
        out['broken'] = rep.get('broken')
    print(json.dumps(out, indent=1, default=str)[:20000])
    return 0
