"""Entry point: ./check Cxx [--tier quick|thorough] [--replay file]."""
import argparse
import importlib
import json
import os
import sys
import traceback
from pathlib import Path

sys.path.insert(0, str(Path(__file__).resolve().parent))
import lib  # noqa: E402


def main():
    ap = argparse.ArgumentParser()
    ap.add_argument('pid')
    ap.add_argument('--tier', default=os.environ.get('VERIF_TIER', 'quick'), choices=['quick', 'thorough'])
    ap.add_argument('--replay')
    a = ap.parse_args()
    seed = int(os.environ.get('VERIF_SEED', '1') or 1)
    pid = a.pid.upper()
    mod = importlib.import_module(f'props.{pid.lower()}')
    ctx = lib.Ctx(pid, a.tier, seed)
    if a.replay:
        rep = json.loads(Path(a.replay).read_text())
        if hasattr(mod, 'replay'):
            return mod.replay(ctx, rep)
        print(json.dumps(rep, indent=1)[:5000])
        return 0
    try:
        return mod.run(ctx)
    except Exception:  # noqa: BLE001  the machinery itself failed: report as broken, never silently pass
        traceback.print_exc()
        ctx.broken('harness', 'exception', traceback.format_exc()[-2000:])
        return ctx.finish('harness crashed', [], [])


if __name__ == '__main__':
    sys.exit(main())
