"""Implementation side of C17 (and of the reader stream of C13): drives the real mk_chunks, HTTPReader,
CompressionHandler, DispatchingRequestHandler and SoapClient on generated cases.  No sockets: streams
and connections are in-memory objects that count read calls (watchdog = the model's fuel bound).

stdin : {"mk_chunks": [...], "reader": [...], "response": [...], "parse_header": [...],
         "server_choice": [...], "client_choice": [...], "e2e": [...], "codec": [...]}   (all optional)
stdout: one JSON object with the same keys holding one trace per case.  bytes travel as hex.
"""
import http.client
import io
import json
import logging
import sys
import types

logging.disable(logging.CRITICAL)

from sdc11073.httpserver import compression, httpreader  # noqa: E402
from sdc11073.httpserver.compression import CompressionHandler  # noqa: E402
from sdc11073.httpserver.httpreader import HTTPReader, mk_chunks  # noqa: E402
from sdc11073.httpserver.httprequesthandler import DispatchingRequestHandler  # noqa: E402
from sdc11073.dispatch import PathElementRegistry  # noqa: E402
from sdc11073.loghelper import LoggerAdapter  # noqa: E402

req = json.load(sys.stdin)
out = {}


class Spin(BaseException):
    """Raised by the watchdog: more read calls than any terminating run can need."""


class CapStream:
    """read(n) returns at most n bytes, at most max(1, cap_i) on the i-th call, b'' only at end of data."""

    def __init__(self, data: bytes, caps=(), budget=None):
        self.data, self.pos, self.caps, self.i = data, 0, list(caps), 0
        self.reads = 0
        self.budget = budget if budget is not None else 3 * len(data) + 32
        self.max_request = 0

    def read(self, n=-1):
        self.reads += 1
        if self.reads > self.budget:
            raise Spin
        whole = n is None or n < 0          # read(): everything up to end of data, whatever the granularity
        if whole:
            n = len(self.data) - self.pos
        self.max_request = max(self.max_request, n)
        if self.i < len(self.caps) and not whole:
            n = min(n, max(1, self.caps[self.i]))
        self.i += 1
        chunk = self.data[self.pos:self.pos + n]
        self.pos += len(chunk)
        return chunk

    def readline(self, limit=-1):   # used by http.client only
        end = self.data.find(b'\n', self.pos)
        end = len(self.data) if end < 0 else end + 1
        if limit is not None and limit >= 0:
            end = min(end, self.pos + limit)
        chunk = self.data[self.pos:end]
        self.pos = end
        return chunk

    @property
    def left(self):
        return len(self.data) - self.pos


def mk_headers(pairs):
    raw = b''.join(f'{k}: {v}\r\n'.encode('latin-1') for k, v in pairs if v is not None) + b'\r\n'
    return http.client.parse_headers(io.BytesIO(raw))


ERR_TAG = [('Could not extract chunk size', 10), ('Could not parse chunk size', 11),
           ('unexpected end of data inside', 12), ('No CR+LF', 13)]


def classify(exc):
    name = type(exc).__name__
    if isinstance(exc, httpreader.DechunkError):
        for txt, tag in ERR_TAG:
            if txt in str(exc):
                return tag, name
        return 97, name
    if isinstance(exc, httpreader.DecompressError):
        return 15, name
    if isinstance(exc, ValueError) and 'content-length' in str(exc):
        return 14, name
    if isinstance(exc, ValueError) and 'invalid literal for int()' in str(exc):
        return 14, name
    return 98, name       # anything else is not a clean rejection by the reader


class DecompressSpy:
    """records what is handed to CompressionHandler.decompress_payload, then runs the real one"""

    def __init__(self):
        self.calls = []
        self.real = CompressionHandler.__dict__['decompress_payload'].__func__

    def install(self):
        spy = self

        def decompress_payload(cls, algorithm, payload):
            spy.calls.append((algorithm, payload))
            return spy.real(cls, algorithm, payload)
        CompressionHandler.decompress_payload = classmethod(decompress_payload)

    def uninstall(self):
        CompressionHandler.decompress_payload = classmethod(self.real)


def run_body_reader(call, stream):
    """common trace of read_request_body / read_response_body"""
    spy = DecompressSpy()
    spy.install()
    tr = {'spin': False}
    try:
        result = call()
        tr['result'] = None if result is None else result.hex()
        tr['tag'] = 1 if spy.calls else 0
        tr['exc'] = None
    except Spin:
        tr.update(spin=True, tag=99, result=None, exc='Spin')
    except Exception as exc:  # noqa: BLE001
        tag, name = classify(exc)
        if spy.calls:          # the decompressor itself rejected the payload
            tag = 1
        tr.update(tag=tag, result=None, exc=name, exc_text=str(exc)[:120])
    finally:
        spy.uninstall()
    if spy.calls:
        alg, payload = spy.calls[0]
        tr['decompress_alg'] = alg
        tr['payload'] = None if payload is None else payload.hex()
    elif tr['tag'] == 0:
        tr['payload'] = tr['result']
    else:
        tr['payload'] = None
    tr['left'] = stream.left
    tr['reads'] = stream.reads
    tr['max_request'] = stream.max_request
    return tr


def run_reader(c):
    stream = CapStream(bytes.fromhex(c['data']), c.get('caps', ()))
    msg = types.SimpleNamespace(
        headers=mk_headers([('Host', 'x'), ('Transfer-Encoding', c.get('te')), ('Content-Length', c.get('cl')),
                            ('Content-Encoding', c.get('ce'))]),
        rfile=stream)
    return run_body_reader(lambda: HTTPReader.read_request_body(msg), stream)


class FakeResponse:
    def __init__(self, c):
        self.stream = CapStream(bytes.fromhex(c['data']), c.get('caps', ()))
        self.h = mk_headers([('Transfer-Encoding', c.get('te')), ('Content-Length', c.get('cl')),
                             ('Content-Encoding', c.get('ce'))])

    def getheader(self, name, default=None):
        return self.h.get(name, default)

    def read(self, amt=None):
        return self.stream.read(-1 if amt is None else amt)


def run_response(c):
    resp = FakeResponse(c)
    return run_body_reader(lambda: HTTPReader.read_response_body(resp), resp.stream)


# ------------------------------------------------------------------ mk_chunks (+ http.client as independent reader)
class BytesSock:
    def __init__(self, data):
        self.data = data

    def makefile(self, mode, *a, **k):
        return io.BufferedReader(io.BytesIO(self.data))

    def close(self):
        pass


def http_client_decode(raw_response: bytes):
    r = http.client.HTTPResponse(BytesSock(raw_response), method='POST')
    r.begin()
    return r


def run_mk_chunks(c):
    body = bytes.fromhex(c['body'])
    framed = mk_chunks(body, c['n'])
    tr = {'framed': framed.hex()}
    try:
        r = http_client_decode(b'HTTP/1.1 200 OK\r\nTransfer-Encoding: chunked\r\n\r\n' + framed + b'TRAILING')
        got = HTTPReader.read_response_body(r)
        tr['http_client'] = got.hex()
    except Exception as exc:  # noqa: BLE001
        tr['http_client'] = None
        tr['http_client_exc'] = f'{type(exc).__name__}: {exc}'[:160]
    # and back through the library's own reader, followed by bytes of a pipelined request
    stream = CapStream(framed + b'NEXT')
    try:
        tr['dechunk'] = HTTPReader._read_dechunk(stream).hex()
    except BaseException as exc:  # noqa: BLE001
        tr['dechunk'] = None
        tr['dechunk_exc'] = type(exc).__name__
    tr['left'] = stream.left
    return tr


# ------------------------------------------------------------------ negotiation
def lat(s):
    return None if s is None else bytes.fromhex(s).decode('latin-1')


def run_parse_header(c):
    try:
        res = CompressionHandler.parse_header(lat(c['header']))
        return {'accepted': [x.encode('latin-1').hex() for x in res]}
    except Exception as exc:  # noqa: BLE001
        return {'accepted': None, 'exc': f'{type(exc).__name__}: {exc}'[:160]}


def run_server_choice(c):
    h = object.__new__(DispatchingRequestHandler)
    hdr = lat(c['header'])
    h.headers = {} if hdr is None else {'accept-encoding': hdr}
    h.server = types.SimpleNamespace(supported_encodings=[lat(x) for x in c['enabled']])
    sent = []
    h.send_header = lambda k, v: sent.append((k, v))
    real = CompressionHandler.__dict__['compress_payload'].__func__
    used = []

    def compress_payload(cls, algorithm, payload):
        used.append(algorithm)
        return b'Z' + payload
    CompressionHandler.compress_payload = classmethod(compress_payload)
    try:
        body = h._compress_if_supported(b'payload')
        exc = None
    except Exception as e:  # noqa: BLE001
        body, exc = None, f'{type(e).__name__}: {e}'[:160]
    finally:
        CompressionHandler.compress_payload = classmethod(real)
    ce = [v for k, v in sent if k.lower() == 'content-encoding']
    consistent = (len(ce) == len(used) <= 1) and (ce == used) and (body == (b'Zpayload' if used else b'payload'))
    return {'chosen': ce[0].encode('latin-1').hex() if ce else None, 'consistent': consistent, 'exc': exc}


class FakeConn:
    """stands in for SoapClient._http_connection: records the request, answers with a canned response"""

    def __init__(self, response_raw):
        self.sock = object()
        self.requests = []
        self.response_raw = response_raw

    def request(self, method, path, body=None, headers=None):
        self.requests.append((method, path, body, dict(headers)))

    def getresponse(self):
        return http_client_decode(self.response_raw)

    def close(self):
        pass


def mk_soap_client(supported, request_encodings, chunk_size):
    from sdc11073.pysoap.soapclient import SoapClient
    return SoapClient('127.0.0.1:9', 1, LoggerAdapter(logging.getLogger('c17')), None, None, None,
                      supported_encodings=supported, request_encodings=request_encodings, chunk_size=chunk_size)


def run_client_choice(c):
    sc = mk_soap_client([lat(x) for x in c['supported']], [lat(x) for x in c['request_encodings']], c.get('chunk', 0))
    conn = FakeConn(b'HTTP/1.1 200 OK\r\nContent-Length: 0\r\n\r\n')
    sc._http_connection = conn
    real = CompressionHandler.__dict__['compress_payload'].__func__
    used = []

    def compress_payload(cls, algorithm, payload):
        used.append(algorithm)
        return b'Z' + payload
    CompressionHandler.compress_payload = classmethod(compress_payload)
    try:
        sc._send_soap_request('/p', b'payload', 'c17')
        exc = None
    except Exception as e:  # noqa: BLE001
        exc = f'{type(e).__name__}: {e}'[:160]
    finally:
        CompressionHandler.compress_payload = classmethod(real)
    if not conn.requests:
        return {'chosen': None, 'exc': exc, 'consistent': False}
    _, _, body, headers = conn.requests[0]
    ce = headers.get('Content-Encoding')
    consistent = ([ce] if ce is not None else []) == used
    tr = {'chosen': None if ce is None else ce.encode('latin-1').hex(), 'consistent': consistent, 'exc': exc,
          'accept': headers.get('Accept-Encoding')}
    tr['async'] = run_client_choice_async(c)
    return tr


def run_client_choice_async(c):
    """the same choice in SoapClientAsync.async_post_message_to, with the aiohttp session replaced by a recorder"""
    import asyncio
    try:
        from sdc11073.pysoap.soapclient_async import SoapClientAsync
    except Exception as e:  # noqa: BLE001   aiohttp not installed
        return {'skipped': f'{type(e).__name__}: {e}'[:120]}
    sc = SoapClientAsync('127.0.0.1:9', 1, LoggerAdapter(logging.getLogger('c17a')), None, None, None,
                         supported_encodings=[lat(x) for x in c['supported']],
                         request_encodings=[lat(x) for x in c['request_encodings']], chunk_size=c.get('chunk', 0))
    posted, used = [], []

    class Resp:
        status, reason = 200, 'OK'

        async def text(self):
            return ''

        async def __aenter__(self):
            return self

        async def __aexit__(self, *a):
            return False

    class Session:
        def post(self, path, data=None, headers=None):
            posted.append((path, data, dict(headers)))
            return Resp()

    sc._http_connection = Session()
    msg = types.SimpleNamespace(p_msg=None, serialize=lambda request_manipulator=None: b"<?xml version='1.0' encoding='utf-8'?><x/>")
    real = CompressionHandler.__dict__['compress_payload'].__func__

    def compress_payload(cls, algorithm, payload):
        used.append(algorithm)
        return b'Z' + payload
    CompressionHandler.compress_payload = classmethod(compress_payload)
    try:
        asyncio.run(sc.async_post_message_to('/p', msg))
        exc = None
    except Exception as e:  # noqa: BLE001
        exc = f'{type(e).__name__}: {e}'[:160]
    finally:
        CompressionHandler.compress_payload = classmethod(real)
    if not posted:
        return {'chosen': None, 'exc': exc, 'consistent': False}
    headers = posted[0][2]
    ce = headers.get('Content-Encoding')
    return {'chosen': None if ce is None else ce.encode('latin-1').hex(), 'exc': exc,
            'consistent': ([ce] if ce is not None else []) == used and
            ((c.get('chunk', 0) > 0) == (headers.get('transfer-encoding') == 'chunked'))}


# ------------------------------------------------------------------ end to end: SoapClient -> http.client -> handler -> back
class Echo:
    """component registered in the dispatcher: records the request body, answers with a canned body"""

    def __init__(self, answer):
        self.answer, self.seen = answer, []

    def do_post(self, headers, path, peer_name, request_bytes):
        self.seen.append(request_bytes)
        return 200, 'Ok', self.answer


class ServerSock:
    def __init__(self, data):
        self.rfile_stream = io.BytesIO(data)
        self.out = bytearray()

    def makefile(self, mode, *a, **k):
        return io.BufferedReader(self.rfile_stream)

    def sendall(self, b):
        self.out += b

    def getpeername(self):
        return ('127.0.0.1', 40000)

    def settimeout(self, t):
        pass

    def setsockopt(self, *a):
        pass


def mk_server(enabled, chunk, component):
    srv = types.SimpleNamespace(dispatcher=PathElementRegistry(), logger=LoggerAdapter(logging.getLogger('c17.srv')),
                                chunk_size=chunk, supported_encodings=enabled)
    srv.dispatcher.register_instance('dev', component)
    return srv


def serve(raw_request, srv):
    s = ServerSock(raw_request)
    try:
        DispatchingRequestHandler(s, ('127.0.0.1', 40000), srv)
        return bytes(s.out), None
    except BaseException as exc:  # noqa: BLE001
        return bytes(s.out), f'{type(exc).__name__}: {exc}'[:160]


class LoopSock:
    """socket of the client's HTTPConnection: collects the request, runs the handler when the response is read"""

    def __init__(self, srv):
        self.srv, self.sent, self.escaped = srv, bytearray(), None

    def sendall(self, b):
        self.sent += bytes(b)

    def makefile(self, mode, *a, **k):
        raw, self.escaped = serve(bytes(self.sent), self.srv)
        self.raw_response = raw
        return io.BufferedReader(io.BytesIO(raw))

    def close(self):
        pass


def run_e2e(c):
    xml, answer = bytes.fromhex(c['xml']), bytes.fromhex(c['answer'])
    echo = Echo(answer)
    srv = mk_server(c['server_enabled'], c['server_chunk'], echo)
    sc = mk_soap_client(c['client_supported'], c['request_encodings'], c['client_chunk'])
    conn = http.client.HTTPConnection('127.0.0.1', 9)
    sock = LoopSock(srv)
    conn.sock = sock
    sc._http_connection = conn
    tr = {}
    try:
        resp, content = sc._send_soap_request('/dev/svc', xml, 'c17')
        tr['content'] = content.hex()
        tr['status'] = resp.status
        tr['response_ce'] = resp.getheader('content-encoding')
        tr['response_te'] = resp.getheader('transfer-encoding')
        tr['exc'] = None
    except BaseException as exc:  # noqa: BLE001
        tr['content'] = None
        tr['exc'] = f'{type(exc).__name__}: {exc}'[:200]
    raw = bytes(sock.sent)
    head, _, _ = raw.partition(b'\r\n\r\n')
    hdrs = {}
    for line in head.split(b'\r\n')[1:]:
        k, _, v = line.partition(b':')
        hdrs[k.strip().lower().decode()] = v.strip().decode('latin-1')
    tr['request_ce'] = hdrs.get('content-encoding')
    tr['request_te'] = hdrs.get('transfer-encoding')
    tr['request_accept'] = hdrs.get('accept-encoding')
    tr['server_saw'] = [None if b is None else b.hex() for b in echo.seen]
    tr['escaped'] = sock.escaped
    return tr


def run_raw(c):
    """raw request bytes -> handler -> response parsed by http.client + read_response_body"""
    echo = Echo(bytes.fromhex(c['answer']))
    srv = mk_server(c['server_enabled'], c['server_chunk'], echo)
    raw, escaped = serve(bytes.fromhex(c['raw']), srv)
    tr = {'escaped': escaped, 'server_saw': [None if b is None else b.hex() for b in echo.seen], 'raw_len': len(raw)}
    try:
        r = http_client_decode(raw)
        tr['status'] = r.status
        tr['response_ce'] = r.getheader('content-encoding')
        tr['content'] = HTTPReader.read_response_body(r).hex()
    except BaseException as exc:  # noqa: BLE001
        tr['content'] = None
        tr['exc'] = f'{type(exc).__name__}: {exc}'[:200]
    return tr


class SeqEcho:
    """component for a connection that carries several requests: answers the k-th call with the k-th canned body"""

    def __init__(self, answers):
        self.answers, self.seen = answers, []

    def do_post(self, headers, path, peer_name, request_bytes):
        self.seen.append(request_bytes)
        k = len(self.seen) - 1
        return 200, 'Ok', self.answers[k] if k < len(self.answers) else b'<unexpected-extra-call/>'

    def do_get(self, headers, path, peer_name):
        self.seen.append(None)
        k = len(self.seen) - 1
        return 200, 'Ok', self.answers[k] if k < len(self.answers) else b'<unexpected-extra-call/>', 'text/xml; charset=utf-8'


def strict_split_responses(raw, limit=50):
    """RFC 7230 3.3 reading of everything the server wrote on one connection, independent of http.client:
    status line, header block, then EXACTLY ONE of Content-Length (that many bytes) / Transfer-Encoding: chunked
    (1*HEXDIG CRLF data CRLF ... 0 CRLF CRLF); the next response must start right behind."""
    import re as _re
    pos, res = 0, []
    while pos < len(raw) and len(res) < limit:
        m = _re.compile(rb'HTTP/1\.[01] (\d{3})[^\r\n]*\r\n').match(raw, pos)
        if not m:
            res.append({'status': None, 'framing_error': f'no status line at offset {pos}: {raw[pos:pos + 30]!r}'})
            break
        status = int(m.group(1))
        end = raw.find(b'\r\n\r\n', m.end() - 2)
        if end < 0:
            res.append({'status': status, 'framing_error': 'header block not terminated'})
            break
        hdrs = {}
        dup = None
        for ln in raw[m.end():end].split(b'\r\n'):
            if not ln:
                continue
            k, sep, v = ln.partition(b':')
            k = k.strip().lower().decode('latin-1')
            if not sep:
                dup = f'header line without colon: {ln[:40]!r}'
            if k in ('content-length', 'transfer-encoding', 'content-encoding') and k in hdrs:
                dup = f'{k} sent twice'
            hdrs[k] = v.strip().decode('latin-1')
        pos = end + 4
        err, body = dup, None
        cl, te = hdrs.get('content-length'), hdrs.get('transfer-encoding')
        if status // 100 == 1 or status in (204, 304):
            body = b''
        elif cl is not None and te is not None:
            err = err or f'Content-Length ({cl}) and Transfer-Encoding ({te}) in the same response'
            body = None
        elif te is not None:
            if te.lower() != 'chunked':
                err = err or f'Transfer-Encoding {te!r}'
            else:
                body = b''
                while True:
                    c = _re.compile(rb'([0-9a-fA-F]+)\r\n').match(raw, pos)
                    if not c:
                        err, body = err or f'malformed chunk size line at offset {pos}', None
                        break
                    n = int(c.group(1), 16)
                    data = raw[c.end():c.end() + n]
                    if len(data) != n or raw[c.end() + n:c.end() + n + 2] != b'\r\n':
                        err, body = err or f'chunk of {n} bytes not followed by CRLF / truncated', None
                        break
                    pos = c.end() + n + 2
                    if n == 0:
                        break
                    body += data
        elif cl is not None:
            if not cl.isdigit():
                err = err or f'Content-Length {cl!r}'
            else:
                body = raw[pos:pos + int(cl)]
                if len(body) != int(cl):
                    err, body = err or f'Content-Length {cl} but only {len(body)} bytes follow', None
                pos += int(cl)
        else:
            err = err or 'neither Content-Length nor Transfer-Encoding on a kept-alive connection'
        content = None
        if body is not None and err is None:
            ce = hdrs.get('content-encoding')
            try:
                content = CompressionHandler.decompress_payload(ce, body) if ce else body
            except Exception as exc:  # noqa: BLE001
                err = f'body is not valid {ce}: {type(exc).__name__}'
        res.append({'status': status, 'ce': hdrs.get('content-encoding'), 'te': te, 'cl': cl,
                    'content': None if content is None else content.hex(), 'framing_error': err, 'err': err})
        if err:
            break
    return res, len(raw) - pos if not (res and res[-1].get('framing_error')) else len(raw) - pos


class SharedSock:
    """all HTTPResponse objects of one connection read from the same buffered stream (close() of one must not end it)"""

    def __init__(self, data):
        self.fp = io.BufferedReader(io.BytesIO(data), buffer_size=max(8192, len(data) + 16))   # peek() must see the whole rest

    def makefile(self, mode, *a, **k):
        outer = self

        class NoClose:
            def __getattr__(self, n):
                return getattr(outer.fp, n)

            def close(self):
                pass

            def flush(self):
                pass
        return NoClose()


def parse_responses(raw, limit=50):
    """every response on the connection, in order: [(status, headers, decoded body | None, error)] + unparsed rest"""
    sock = SharedSock(raw)
    res = []
    while len(res) < limit and sock.fp.peek(1):
        if not sock.fp.peek(5).startswith(b'HTTP/'):
            break
        r = http.client.HTTPResponse(sock, method='POST')
        try:
            r.begin()
            hdrs = {k.lower(): v for k, v in r.getheaders()}
            try:
                body, err = HTTPReader.read_response_body(r), None
            except Exception as exc:  # noqa: BLE001
                body, err = None, f'{type(exc).__name__}: {exc}'[:120]
            res.append((r.status, hdrs, body, err))
        except Exception as exc:  # noqa: BLE001
            res.append((None, {}, None, f'{type(exc).__name__}: {exc}'[:120]))
            break
    return res, sock.fp.read()


def run_conn(c):
    """several requests with their own Accept-Encoding / Content-Encoding / framing on ONE connection (one handler instance)"""
    reqs = c['requests']
    echo = SeqEcho([bytes.fromhex(r['answer']) for r in reqs])
    srv = mk_server(c['server_enabled'], c['server_chunk'], echo)
    raw = b''
    for r in reqs:
        body = bytes.fromhex(r['body'])
        if r.get('method') == 'GET':
            raw += b'GET /dev/svc?wsdl HTTP/1.1\r\nHost: h\r\n' + \
                (b'' if r.get('accept') is None else b'Accept-Encoding: ' + r['accept'].encode('latin-1') + b'\r\n') + b'\r\n'
            continue
        head = b'POST /dev/svc HTTP/1.1\r\nHost: h\r\n'
        if r.get('accept') is not None:
            head += b'Accept-Encoding: ' + r['accept'].encode('latin-1') + b'\r\n'
        if r.get('ce'):
            body = CompressionHandler.compress_payload(r['ce'], body)
            head += b'Content-Encoding: ' + r['ce'].encode() + b'\r\n'
        if r.get('chunk'):
            head += b'Transfer-Encoding: chunked\r\n'
            body = mk_chunks(body, r['chunk'])
        else:
            head += b'Content-Length: %d\r\n' % len(body)
        raw += head + b'\r\n' + body
    out_bytes, escaped = serve(raw, srv)
    responses, rest = strict_split_responses(out_bytes)
    return {'escaped': escaped, 'server_saw': [None if b is None else b.hex() for b in echo.seen],
            'responses': responses, 'unparsed_output': rest if not any(r.get('framing_error') for r in responses) else 0}


def run_config(c):  # noqa: PLR0915, C901
    """order of API calls: set_used_compression before / after start, several times; after every call the running http
    server, a SOAP client created earlier and a freshly created one are probed: only codings enabled at that moment"""
    import threading
    import uuid

    import sdc11073.definitions_sdc  # noqa: F401
    from sdc11073.definitions_sdc import SdcV1Definitions
    ALL = ['x-lz4', 'gzip', 'lz4']
    obs = []

    class FakeServerThread:
        instances = []

        def __init__(self, my_ipaddress=None, ssl_context=None, supported_encodings=None, logger=None, chunk_size=0, **kw):
            self.supported_encodings, self.chunk_size = supported_encodings, chunk_size
            self.dispatcher = PathElementRegistry()
            self.logger = LoggerAdapter(logging.getLogger('c17.cfg'))
            self.server_port, self.base_url = 9100, 'http://127.0.0.1:9100/'
            self.started_evt = threading.Event()
            self.started_evt.set()
            FakeServerThread.instances.append(self)

        def start(self):
            pass

        def stop(self):
            pass

    def probe_client(sc):
        conn = FakeConn(b'HTTP/1.1 200 OK\r\nContent-Length: 0\r\n\r\n')
        sc._http_connection = conn
        try:
            sc._send_soap_request('/p', b'<x>' + b'payload ' * 40 + b'</x>', 'cfg')
        except Exception as e:  # noqa: BLE001
            return {'exc': f'{type(e).__name__}: {e}'[:120]}
        h = conn.requests[0][3]
        return {'ce': h.get('Content-Encoding'), 'accept': h.get('Accept-Encoding')}

    def probe_server(srv, path):
        raw = b'GET ' + path.encode() + b' HTTP/1.1\r\nHost: h\r\nAccept-Encoding: ' + ', '.join(ALL).encode() + b'\r\n\r\n'
        out_bytes, escaped = serve(raw, srv)
        res, _ = strict_split_responses(out_bytes)
        r = res[0] if res else {}
        return {'ce': r.get('ce'), 'status': r.get('status'), 'framing_error': r.get('framing_error'), 'escaped': escaped}

    def snapshot(phase, enabled, srv, path, old_client, mk_client):
        o = {'phase': phase, 'enabled': list(enabled)}
        if srv is not None:
            o['server'] = probe_server(srv, path)
        if old_client is not None:
            o['old_client'] = probe_client(old_client)
        o['new_client'] = probe_client(mk_client())
        obs.append(o)

    enabled = list(CompressionHandler.available_encodings)
    if c['side'] == 'provider':
        from sdc11073.provider import providerimpl
        from sdc11073.provider.providerimpl import provider_components_sync_factory
        from sdc11073.pysoap.soapclient import SoapClient
        from tests.mockstuff import MockWsDiscovery, SomeDevice
        real_cls = providerimpl.HttpServerThreadBase
        providerimpl.HttpServerThreadBase = FakeServerThread
        prov = None
        try:
            pc = provider_components_sync_factory()
            pc.soap_client_class = SoapClient
            import os
            repo = os.environ.get('VERIF_REPO', '/repo')
            prov = SomeDevice.from_mdib_file(MockWsDiscovery('127.0.0.1'), uuid.UUID(int=0xabd), repo + '/tests/70041_MDIB_Final.xml',
                                             components=pc, role_provider_components=None, chunk_size=c.get('chunk', 0))
            mk = lambda: prov._mk_soap_client('127.0.0.1:9', list(ALL))  # noqa: E731
            for cod in c['pre']:
                prov.set_used_compression(*cod)
                enabled = list(cod)
                snapshot('before start', enabled, None, None, None, mk)
            old = mk()
            prov.start_all(start_rtsample_loop=False)
            srv = FakeServerThread.instances[-1]
            path = '/' + prov.path_prefix + '/Get/?wsdl'
            snapshot('after start', enabled, srv, path, old, mk)
            for cod in c['post']:
                prov.set_used_compression(*cod)
                enabled = list(cod)
                snapshot('set_used_compression after start', enabled, srv, path, old, mk)
        finally:
            providerimpl.HttpServerThreadBase = real_cls
            try:
                if prov is not None:
                    for reg in prov._sco_operations_registries.values():
                        reg.stop_worker()
                    for mgr in prov._subscriptions_managers.values():
                        mgr._run_housekeeping_thread = False
            except Exception:  # noqa: BLE001
                pass
    else:
        from sdc11073.consumer.consumerimpl import SdcConsumer
        cons = SdcConsumer('http://127.0.0.1:9/00000000000000000000000000000abd', sdc_definitions=SdcV1Definitions, ssl_context_container=None,
                           request_chunk_size=c.get('chunk', 0))
        n = [0]

        def mk():
            n[0] += 1
            return cons._mk_soap_client(False, f'127.0.0.1:{9 + n[0]}')
        for cod in c['pre']:
            cons.set_used_compression(*cod)
            enabled = list(cod)
            snapshot('before connect', enabled, None, None, None, mk)
        old = cons.get_soap_client('http://127.0.0.1:9/x')
        for cod in c['post']:
            cons.set_used_compression(*cod)
            enabled = list(cod)
            snapshot('set_used_compression with existing client', enabled, None, None, old, mk)
    return {'observations': obs}


def run_notify(c):  # noqa: PLR0915
    """provider -> subscriber path: Subscribe requests with an Accept-Encoding variant each, then a report and the end message
    through the real subscriptions manager and the real (sync) SoapClient with a recording connection"""
    import os
    import uuid
    from decimal import Decimal

    import sdc11073.definitions_sdc  # noqa: F401
    from sdc11073.provider.providerimpl import provider_components_sync_factory
    from sdc11073.pysoap.soapclient import SoapClient
    from sdc11073.xml_types import eventing_types as evt_types
    from sdc11073.xml_types import pm_qnames as pm
    from sdc11073.xml_types.addressing_types import HeaderInformationBlock
    from tests.mockstuff import MockWsDiscovery, SomeDevice
    sent = []

    class RecConn:
        def __init__(self, netloc):
            self.netloc, self.sock = netloc, object()

        def request(self, method, path, body=None, headers=None):
            sent.append({'netloc': self.netloc, 'path': path, 'headers': dict(headers), 'body': body})

        def getresponse(self):
            return http_client_decode(b'HTTP/1.1 202 Accepted\r\nContent-Length: 0\r\n\r\n')

        def close(self):
            pass

    class RecClient(SoapClient):
        def connect(self):
            self._has_connection_error = False
            self._http_connection = RecConn(self._netloc)
            self.sock_name = ('127.0.0.1', 1)

    class Srv:
        def __init__(self):
            import threading
            self.dispatcher = PathElementRegistry()
            self.server_port, self.base_url = 9200, 'http://127.0.0.1:9200/'
            self.started_evt = threading.Event()
            self.started_evt.set()

        def stop(self):
            pass

    repo = os.environ.get('VERIF_REPO', '/repo')
    pc = provider_components_sync_factory()
    pc.soap_client_class = RecClient
    prov = SomeDevice.from_mdib_file(MockWsDiscovery('127.0.0.1'), uuid.UUID(int=0xabe), repo + '/tests/70041_MDIB_Final.xml',
                                     components=pc, role_provider_components=None, chunk_size=c.get('chunk', 0))
    if c.get('enabled') is not None:
        prov.set_used_compression(*c['enabled'])
    out_tr = {'subscribers': [], 'errors': []}
    try:
        prov.start_all(start_rtsample_loop=False, shared_http_server=Srv())
        actions = prov.mdib.sdc_definitions.Actions
        nsh = prov.mdib.sdc_definitions.data_model.ns_helper
        for k, acc in enumerate(c['accepts']):
            sub = evt_types.Subscribe()
            sub.Delivery.Mode = f'{nsh.WSE.namespace}/DeliveryModes/Push'
            sub.Delivery.NotifyTo.Address = f'http://127.0.0.1:{9300 + k}/sink'
            sub.EndTo = None
            sub.Expires = 600
            sub.set_filter(actions.EpisodicMetricReport)
            inf = HeaderInformationBlock(action=evt_types.EventingActions.Subscribe, addr_to='http://127.0.0.1:9200/x')
            data = prov.msg_factory.mk_soap_message(inf, payload=sub).serialize()
            headers = {'Host': '127.0.0.1:9200'}
            if acc is not None:
                headers['Accept-Encoding'] = acc
            status, _reason, _resp = prov._msg_converter.do_post(headers, '/' + prov.path_prefix + '/StateEvent', ('127.0.0.1', 1), data)
            out_tr['subscribers'].append({'accept': acc, 'netloc': f'127.0.0.1:{9300 + k}', 'subscribe_status': status, 'notifications': []})
        handle = next(d.Handle for d in prov.mdib.descriptions.NODETYPE.get(pm.NumericMetricDescriptor, []))
        for v in (1, 2):
            with prov.mdib.metric_state_transaction() as mgr:
                st = mgr.get_state(handle)
                if st.MetricValue is None:
                    st.mk_metric_value()
                st.MetricValue.Value = Decimal(v)
        prov.stop_all(send_subscription_end=True)
    except Exception as exc:  # noqa: BLE001
        import traceback
        out_tr['errors'].append(f'{type(exc).__name__}: {exc}'[:200] + ' | ' + traceback.format_exc()[-300:])
    finally:
        try:
            for reg in prov._sco_operations_registries.values():
                reg.stop_worker()
        except Exception:  # noqa: BLE001
            pass
    by_netloc = {sd['netloc']: sd for sd in out_tr['subscribers']}
    for m in sent:
        sd = by_netloc.get(m['netloc'])
        if sd is None:
            continue
        h = {k.lower(): v for k, v in m['headers'].items()}
        body = m['body'] or b''
        note = {'ce': h.get('content-encoding'), 'te': h.get('transfer-encoding')}
        try:
            if h.get('transfer-encoding') == 'chunked':
                body = HTTPReader._read_dechunk(CapStream(body))
            if note['ce']:
                body = CompressionHandler.decompress_payload(note['ce'], body)
            from lxml import etree as _et
            root = _et.fromstring(body)
            note['document'] = _et.QName(root.tag).localname
            note['action'] = (root.findtext('.//{http://www.w3.org/2005/08/addressing}Action') or '').rsplit('/', 1)[-1]
        except Exception as exc:  # noqa: BLE001
            note['decode_error'] = f'{type(exc).__name__}: {exc}'[:120]
        sd['notifications'].append(note)
    return out_tr


def run_codec(c):
    data = bytes.fromhex(c['data'])
    alg = c['alg']
    tr = {}
    try:
        z = CompressionHandler.compress_payload(alg, data)
        tr['roundtrip'] = CompressionHandler.decompress_payload(alg, z) == data
        tr['z_len'] = len(z)
        bad = {}
        for name, mut in c.get('corrupt', {}).items():
            zz = bytearray(z)
            if mut['op'] == 'trunc':
                zz = zz[:max(0, int(len(zz) * mut['at']))]
            elif mut['op'] == 'flip':
                if zz:
                    zz[int((len(zz) - 1) * mut['at'])] ^= mut['bit']
            elif mut['op'] == 'garbage':
                zz = bytearray(bytes.fromhex(mut['bytes']))
            if bytes(zz) == z:
                bad[name] = 'unchanged'
                continue
            try:
                got = CompressionHandler.decompress_payload(alg, bytes(zz))
                bad[name] = 'same' if got == data else 'DIFFERENT'
            except Exception as exc:  # noqa: BLE001
                bad[name] = 'raised:' + type(exc).__name__
        tr['corrupt'] = bad
    except Exception as exc:  # noqa: BLE001
        tr['exc'] = f'{type(exc).__name__}: {exc}'[:160]
    return tr


RUNNERS = {'mk_chunks': run_mk_chunks, 'reader': run_reader, 'response': run_response,
           'parse_header': run_parse_header, 'server_choice': run_server_choice,
           'client_choice': run_client_choice, 'e2e': run_e2e, 'raw': run_raw, 'codec': run_codec, 'conn': run_conn, 'config': run_config, 'notify': run_notify}
for key, fn in RUNNERS.items():
    if key in req:
        res = []
        for case in req[key]:
            try:
                res.append(fn(case))
            except Spin:
                res.append({'spin': True, 'tag': 99})
        out[key] = res
out['available_encodings'] = list(CompressionHandler.available_encodings)
out['hdr_max'] = HTTPReader._read_until.__defaults__[0]
print(json.dumps(out))
