"""Translator: emits coq/Location/Gen_Loc.v (constants of location.py / scopesfactory.py /
statecontainers.py that the C16 theorems depend on).  Fail-closed."""
import inspect
import json
import sys
import uuid
import warnings
from unittest import mock

warnings.simplefilter('ignore')

from sdc11073.location import SdcLocation
from sdc11073.mdib import statecontainers
from sdc11073.provider import scopesfactory
from sdc11073.xml_types import pm_types


def lit(s):
    if not isinstance(s, str) or not s.isascii():
        raise SystemExit(f'fail-closed: constant {s!r} is not an ASCII str')
    return '[' + '; '.join(str(b) for b in s.encode()) + ']'


json.load(sys.stdin)
scheme = SdcLocation.scheme
elements = SdcLocation.url_elements
if not isinstance(elements, tuple) or not all(isinstance(e, str) for e in elements):
    raise SystemExit('fail-closed: SdcLocation.url_elements is not a tuple of str')
sig = inspect.signature(SdcLocation.__init__)
if set(sig.parameters) != {'self', 'root', *elements}:
    raise SystemExit(f'fail-closed: SdcLocation.__init__ parameters {list(sig.parameters)} are not root + url_elements')
default_root = sig.parameters['root'].default
if any(sig.parameters[e].default is not None for e in elements):
    raise SystemExit('fail-closed: a location element does not default to None')

# probe the publishing path once with distinct plain values: which scheme literal, which identifier root, which
# query keys (and order) does mk_scopes use for a state written by update_from_sdc_location?
probe = SdcLocation(**{e: f'v{i}' for i, e in enumerate(elements)})
st = statecontainers.LocationContextStateContainer(mock.MagicMock(Handle='d', DescriptorVersion=0), 'h')
st.LocationDetail = None
st.update_from_sdc_location(probe)
if len(st.Identification) != 1:
    raise SystemExit('fail-closed: update_from_sdc_location does not write exactly one Identification')
ident_root = st.Identification[0].Root
mdib = mock.MagicMock()
mdib.data_model.pm_types.ContextAssociation.ASSOCIATED = pm_types.ContextAssociation.ASSOCIATED
for n in ('Location', 'Operator', 'Ensemble', 'Workflow', 'Means'):
    setattr(mdib.data_model.pm_names, f'{n}ContextDescriptor', f'{n}ContextDescriptor')
mdib.data_model.pm_names.MdsDescriptor = 'MdsDescriptor'
mdib.entities.by_node_type.side_effect = lambda nt: ([mock.MagicMock(states={'h': st})]
                                                     if nt == 'LocationContextDescriptor' else [])
texts = scopesfactory.mk_scopes(mdib).text
if len(texts) != 2:
    raise SystemExit(f'fail-closed: mk_scopes published {len(texts)} scopes for one location state, expected 2')
pub = texts[0]
pub_scheme, _, rest = pub.partition(':')
path, _, query = rest.partition('?')
want_q = '&'.join(f'{e}=v{i}' for i, e in enumerate(elements))
if query != want_q:
    raise SystemExit(f'fail-closed: published query {query!r} is not {want_q!r} (keys/order differ from url_elements)')
if path != '/' + ident_root + '/' + '%2F'.join(f'v{i}' for i in range(len(elements))):
    raise SystemExit(f'fail-closed: published path {path!r} has an unexpected shape')

text = f'''(* GENERATED on every run by harness/impl/gen_location_consts.py from src/sdc11073/location.py,
   provider/scopesfactory.py and mdib/statecontainers.py -- do not edit. *)
From Coq Require Import List NArith.
From SDC Require Import Location.Quote Location.Loc.
Import ListNotations.
Open Scope N_scope.
Definition loc_consts : consts := mkConsts
  {lit(scheme)}
  [{"; ".join(lit(e) for e in elements)}]
  {lit(default_root)}
  {lit(ident_root)}
  {lit(pub_scheme)}
  {lit(scopesfactory.BICEPS_URI_UNK)}.
'''
print(json.dumps({'rel': 'Location/Gen_Loc.v', 'text': text, 'elements': list(elements), 'scheme': scheme,
                  'default_root': default_root, 'ident_root': ident_root}))
