"""Translator: emits coq/Location/Gen_Loc.v (constants of location.py / scopesfactory.py /
statecontainers.py that the C16 theorems depend on).  Fail-closed."""
import inspect
import json
import sys
import uuid
import warnings
from unittest import mock

warnings.simplefilter('ignore')

from sdc11073.location import SdcLocation
from sdc11073.mdib import statecontainers
from sdc11073.provider import scopesfactory
from sdc11073.xml_types import pm_types


def lit(s):
    if not isinstance(s, str) or not s.isascii():
        raise SystemExit(f'fail-closed: constant {s!r} is not an ASCII str')
    return '[' + '; '.join(str(b) for b in s.encode()) + ']'


json.load(sys.stdin)
scheme = SdcLocation.scheme
elements = SdcLocation.url_elements
if not isinstance(elements, tuple) or not all(isinstance(e, str) for e in elements):
    raise SystemExit('fail-closed: SdcLocation.url_elements is not a tuple of str')
sig = inspect.signature(SdcLocation.__init__)
if set(sig.parameters) != {'self', 'root', *elements}:
    raise SystemExit(f'fail-closed: SdcLocation.__init__ parameters {list(sig.parameters)} are not root + url_elements')
default_root = sig.parameters['root'].default
if any(sig.parameters[e].default is not None for e in elements):
    raise SystemExit('fail-closed: a location element does not default to None')

# probe the publishing path once with distinct plain values: which scheme literal, which identifier root, which
# query keys (and order) does mk_scopes use for a state written by update_from_sdc_location?
if tuple(elements) != ('fac', 'bldng', 'flr', 'poc', 'rm', 'bed'):
    raise SystemExit(f'fail-closed: url_elements {elements} differ from the positions Location/Prov.v assumes')
dsig = [p_ for p_ in inspect.signature(pm_types.LocationDetail.__init__).parameters if p_ != 'self']
if dsig != ['poc', 'room', 'bed', 'facility', 'building', 'floor']:
    raise SystemExit(f'fail-closed: LocationDetail.__init__ parameters {dsig} differ from the constructor order of Prov.detail')
DETAIL = {'Facility': 0, 'Building': 1, 'Floor': 2, 'PoC': 3, 'Room': 4, 'Bed': 5}   # field -> url_elements position

probe = SdcLocation(**{e: f'v{i}' for i, e in enumerate(elements)})
other = SdcLocation(**{e: f'w{i}' for i, e in enumerate(elements)})
mdib = mock.MagicMock()
mdib.data_model.pm_types.ContextAssociation.ASSOCIATED = pm_types.ContextAssociation.ASSOCIATED
for n in ('Location', 'Operator', 'Ensemble', 'Workflow', 'Means'):
    setattr(mdib.data_model.pm_names, f'{n}ContextDescriptor', f'{n}ContextDescriptor')
mdib.data_model.pm_names.MdsDescriptor = 'MdsDescriptor'
ident_root = pub_scheme = None
# every initial condition of the state (Prov.update_from_loc does not depend on it): default LocationDetail,
# LocationDetail None, filled before, None then filled, identifications present
for branch in ('fresh', 'none', 'refilled', 'none-refilled', 'idents'):
    st = statecontainers.LocationContextStateContainer(mock.MagicMock(Handle='d', DescriptorVersion=0), 'h')
    if branch.startswith('none'):
        st.LocationDetail = None
    if branch.endswith('refilled'):
        st.update_from_sdc_location(other)
    if branch == 'idents':
        st.Identification = [pm_types.InstanceIdentifier(root='r1', extension_string='e1'),
                             pm_types.InstanceIdentifier(root='r2', extension_string='e2')]
    st.update_from_sdc_location(probe)
    for a, i in DETAIL.items():
        if getattr(st.LocationDetail, a) != f'v{i}':
            raise SystemExit(f'fail-closed: [{branch}] update_from_sdc_location wrote LocationDetail.{a} = '
                             f'{getattr(st.LocationDetail, a)!r}, expected the {elements[i]} value v{i}')
    if len(st.Identification) != 1:
        raise SystemExit(f'fail-closed: [{branch}] update_from_sdc_location does not write exactly one Identification')
    if ident_root not in (None, st.Identification[0].Root):
        raise SystemExit(f'fail-closed: [{branch}] identifier root differs between initial conditions')
    ident_root = st.Identification[0].Root
    mdib.entities.by_node_type.side_effect = lambda nt, st=st: ([mock.MagicMock(states={'h': st})]
                                                                if nt == 'LocationContextDescriptor' else [])
    texts = scopesfactory.mk_scopes(mdib).text
    if len(texts) != 2:
        raise SystemExit(f'fail-closed: [{branch}] mk_scopes published {len(texts)} scopes for one location state, expected 2')
    pub = texts[0]
    pub_scheme, _, rest = pub.partition(':')
    path, _, query = rest.partition('?')
    want_q = '&'.join(f'{e}=v{i}' for i, e in enumerate(elements))
    if query != want_q:
        raise SystemExit(f'fail-closed: [{branch}] published query {query!r} is not {want_q!r} (keys/order differ from url_elements)')
    if path != '/' + ident_root + '/' + '%2F'.join(f'v{i}' for i in range(len(elements))):
        raise SystemExit(f'fail-closed: [{branch}] published path {path!r} has an unexpected shape')

text = f'''(* GENERATED on every run by harness/impl/gen_location_consts.py from src/sdc11073/location.py,
   provider/scopesfactory.py and mdib/statecontainers.py -- do not edit. *)
From Coq Require Import List NArith.
From SDC Require Import Location.Quote Location.Loc.
Import ListNotations.
Open Scope N_scope.
Definition loc_consts : consts := mkConsts
  {lit(scheme)}
  [{"; ".join(lit(e) for e in elements)}]
  {lit(default_root)}
  {lit(ident_root)}
  {lit(pub_scheme)}
  {lit(scopesfactory.BICEPS_URI_UNK)}.
'''
print(json.dumps({'rel': 'Location/Gen_Loc.v', 'text': text, 'elements': list(elements), 'scheme': scheme,
                  'default_root': default_root, 'ident_root': ident_root}))
