"""Translator: emits coq/Multikey/Gen_Tables.v -- the index kinds of the MDIB tables as defined in
src/sdc11073/mdib/mdibbase.py (fail-closed on an unknown index class)."""
import json
import sys

from sdc11073 import multikey
from sdc11073.mdib import mdibbase

json.load(sys.stdin)
KIND = {multikey.IndexDefinition: 'Plain', multikey.UIndexDefinition: 'Unique', multikey.IndexDefinition1n: 'OneN'}


class Probe:
    def __init__(self):
        object.__setattr__(self, 'seen', [])

    def __getattr__(self, name):
        self.seen.append(name)
        return 0


def describe(table):
    out = []
    for name, ix in table._idx_defs.items():
        if type(ix) not in KIND:
            raise SystemExit(f'fail-closed: index {name} has unknown class {type(ix).__name__}')
        nk = ix._index_none_values
        if not isinstance(nk, bool):
            raise SystemExit('fail-closed: index_none_values is not a bool')
        p = Probe()
        ix._get_key_func(p)
        if len(p.seen) != 1:
            raise SystemExit(f'fail-closed: key function of {name} does not read exactly one attribute: {p.seen}')
        out.append((name, KIND[type(ix)], nk, p.seen[0]))
    return out


# ---- public surface of the table classes: every public name must be classified; the op generator of
# harness/props/c11.py drives exactly DRIVEN (it reads this list), so a new public mutating method that nobody
# drives makes the translator fail closed instead of silently escaping the check.
DRIVEN = {'add': ['add_object', 'add_object_no_lock'], 'addm': ['add_objects', 'add_objects_no_lock'],
          'remove': ['remove_object', 'remove_object_no_lock'], 'removem': ['remove_objects', 'remove_objects_no_lock'],
          'update': ['update_object', 'update_object_no_lock'], 'updatem': ['update_objects', 'update_objects_no_lock'],
          'clear': ['clear']}
DRIVEN_VERSIONED = {'setver': ['set_version']}      # only the MDIB tables (side table handle_version_lookup)
READONLY = {'find', 'find_no_lock', 'objects', 'lock'}
SETUP = {'add_index'}                               # called by the constructors / mk_table before any object exists
MUTATING_CALLS = {'add', 'update', 'pop', 'popitem', 'clear', 'remove', 'discard', 'append', 'extend', 'insert',
                  'setdefault', 'sort', 'reverse', '__setitem__', '__delitem__'}


def all_subclasses(cls):
    out = []
    for sub in cls.__subclasses__():
        out.append(sub)
        out.extend(all_subclasses(sub))
    return out


def check_surface():
    import ast
    import importlib
    import inspect
    import textwrap
    for mod in ('sdc11073.mdib.providermdib', 'sdc11073.mdib.consumermdib', 'sdc11073.mdib.entityprotocol',
                'sdc11073.provider.subscriptionmgr_base', 'sdc11073.provider.subscriptionmgr_async',
                'sdc11073.consumer.subscription', 'sdc11073.mdib.mdibprotocol'):
        try:
            importlib.import_module(mod)
        except ImportError:
            pass
    known = {multikey.MultiKeyLookup: 'generic', mdibbase._MultikeyWithVersionLookup: 'versioned-base',
             mdibbase.DescriptorsLookup: 'descriptors', mdibbase.StatesLookup: 'states',
             mdibbase.MultiStatesLookup: 'multistates'}
    for sub in all_subclasses(multikey.MultiKeyLookup):
        if sub not in known:
            raise SystemExit(f'fail-closed: table class {sub.__module__}.{sub.__name__} is not driven by the op generator')
    driven = {ep for eps in DRIVEN.values() for ep in eps}
    driven_v = driven | {ep for eps in DRIVEN_VERSIONED.values() for ep in eps}
    surface = {}
    for cls, tag in known.items():
        allowed = driven if cls is multikey.MultiKeyLookup else driven_v
        required = driven if tag in ('generic', 'versioned-base') else driven_v
        names = sorted(n for n in dir(cls) if not n.startswith('_'))
        for n in names:
            if n not in allowed and n not in READONLY and n not in SETUP:
                raise SystemExit(f'fail-closed: public member {cls.__name__}.{n} is neither driven by the op generator '
                                 'nor known to be read-only')
        missing = sorted(required - set(names))
        if missing:
            raise SystemExit(f'fail-closed: {cls.__name__} lacks the entry points {missing} the op generator drives')
        surface[tag] = [n for n in names if n in allowed]
        # the members classified read-only must not write: no assignment / deletion through self, no mutating call
        for n in names:
            if n not in READONLY:
                continue
            member = inspect.getattr_static(cls, n)
            func = member.fget if isinstance(member, property) else member
            tree = ast.parse(textwrap.dedent(inspect.getsource(func)))
            for node in ast.walk(tree):
                bad = None
                if isinstance(node, (ast.Assign, ast.AugAssign, ast.AnnAssign, ast.Delete)):
                    tg = node.targets if isinstance(node, (ast.Assign, ast.Delete)) else [node.target]
                    if any(isinstance(x, (ast.Attribute, ast.Subscript)) for x in tg):
                        bad = 'assignment'
                if isinstance(node, ast.Call) and isinstance(node.func, ast.Attribute) and node.func.attr in MUTATING_CALLS:
                    bad = f'call of .{node.func.attr}()'
                if bad:
                    raise SystemExit(f'fail-closed: {cls.__name__}.{n} is classified read-only but contains an {bad}')
    return surface


def check_add_index_only_in_constructors():
    """add_index is classified SETUP (not driven on populated tables): every call in the library must sit in an
    __init__, i.e. run before any object is stored."""
    import ast
    import pathlib
    root = pathlib.Path(multikey.__file__).parent
    for path in sorted(root.rglob('*.py')):
        tree = ast.parse(path.read_bytes())
        for fn in ast.walk(tree):
            if not isinstance(fn, (ast.FunctionDef, ast.AsyncFunctionDef)) or fn.name == '__init__':
                continue
            for node in ast.walk(fn):
                if isinstance(node, ast.Call) and isinstance(node.func, ast.Attribute) and node.func.attr == 'add_index':
                    raise SystemExit(f'fail-closed: add_index called outside a constructor ({path.name}:{node.lineno} in '
                                     f'{fn.name}): index creation on a populated table is not driven by the op generator')


def describe_version(table):
    """which attributes _save_version reads: (key attribute, version attribute)"""
    p = Probe()
    table._save_version(p)
    if len(p.seen) != 2 or list(table.handle_version_lookup.items()) != [(0, 0)]:
        raise SystemExit(f'fail-closed: _save_version of {type(table).__name__} does not store one version under one '
                         f'key: {p.seen}')
    return p.seen


surface = check_surface()
check_add_index_only_in_constructors()
tables = {'descriptors': describe(mdibbase.DescriptorsLookup()), 'states': describe(mdibbase.StatesLookup()),
          'multistates': describe(mdibbase.MultiStatesLookup())}
version_attrs = {'descriptors': describe_version(mdibbase.DescriptorsLookup()),
                 'states': describe_version(mdibbase.StatesLookup()),
                 'multistates': describe_version(mdibbase.MultiStatesLookup())}
lines = ['(* GENERATED on every run by harness/impl/gen_multikey_tables.py from src/sdc11073/mdib/mdibbase.py. *)',
         'From Coq Require Import List.', 'From SDC Require Import Multikey.Model.', 'Import ListNotations.']
for tname, idx in tables.items():
    items = '; '.join(f'{k} {"true" if nk else "false"}' for _, k, nk, _ in idx)
    lines.append(f'(* {", ".join(f"{n}<-obj.{a}" for n, _, _, a in idx)} *)')
    lines.append(f'Definition {tname}_kinds : list ikind := [{items}].')
lines.append('(* public mutating entry points driven by the op generator (model op <- methods): '
             + '; '.join(f'{k} <- {", ".join(v)}' for k, v in {**DRIVEN, **DRIVEN_VERSIONED}.items()) + ' *)')
print(json.dumps({'rel': 'Multikey/Gen_Tables.v', 'text': '\n'.join(lines) + '\n', 'tables': tables,
                  'entry_points': DRIVEN, 'entry_points_versioned': DRIVEN_VERSIONED, 'surface': surface,
                  'version_attrs': version_attrs}))
