"""Translator: emits coq/Multikey/Gen_Tables.v -- the index kinds of the MDIB tables as defined in
src/sdc11073/mdib/mdibbase.py (fail-closed on an unknown index class)."""
import json
import sys

from sdc11073 import multikey
from sdc11073.mdib import mdibbase

json.load(sys.stdin)
KIND = {multikey.IndexDefinition: 'Plain', multikey.UIndexDefinition: 'Unique', multikey.IndexDefinition1n: 'OneN'}


class Probe:
    def __init__(self):
        object.__setattr__(self, 'seen', [])

    def __getattr__(self, name):
        self.seen.append(name)
        return 0


def describe(table):
    out = []
    for name, ix in table._idx_defs.items():
        if type(ix) not in KIND:
            raise SystemExit(f'fail-closed: index {name} has unknown class {type(ix).__name__}')
        nk = ix._index_none_values
        if not isinstance(nk, bool):
            raise SystemExit('fail-closed: index_none_values is not a bool')
        p = Probe()
        ix._get_key_func(p)
        if len(p.seen) != 1:
            raise SystemExit(f'fail-closed: key function of {name} does not read exactly one attribute: {p.seen}')
        out.append((name, KIND[type(ix)], nk, p.seen[0]))
    return out


tables = {'descriptors': describe(mdibbase.DescriptorsLookup()), 'states': describe(mdibbase.StatesLookup()),
          'multistates': describe(mdibbase.MultiStatesLookup())}
lines = ['(* GENERATED on every run by harness/impl/gen_multikey_tables.py from src/sdc11073/mdib/mdibbase.py. *)',
         'From Coq Require Import List.', 'From SDC Require Import Multikey.Model.', 'Import ListNotations.']
for tname, idx in tables.items():
    items = '; '.join(f'{k} {"true" if nk else "false"}' for _, k, nk, _ in idx)
    lines.append(f'(* {", ".join(f"{n}<-obj.{a}" for n, _, _, a in idx)} *)')
    lines.append(f'Definition {tname}_kinds : list ikind := [{items}].')
print(json.dumps({'rel': 'Multikey/Gen_Tables.v', 'text': '\n'.join(lines) + '\n', 'tables': tables}))
