"""Translator: emits coq/Wsd/Gen_Kinds.v - which parameter set and which destination the real WSDiscovery object
(wsdimpl.py) passes to NetworkingThread.add_outbound_message for each of the six message kinds (fail-closed).

The table is TRACED, not parsed: c15_sim.trace_kind_table() drives a WSDiscovery whose networking thread is a recorder
through publish_service / clear_service / clear_local_services / stop (Hello, Bye), _send_probe (Probe), incoming
Probe / Resolve (ProbeMatches, ResolveMatches) and incoming Hello / ProbeMatches without XAddrs, Types or Scopes
(Resolve)."""
import json
import os
import sys

sys.path.insert(0, os.path.dirname(os.path.abspath(__file__)))
import c15_sim  # noqa: E402

json.load(sys.stdin)
table, ncalls = c15_sim.trace_kind_table()
unknown = sorted(set(table) - set(c15_sim.KINDS))
if unknown:
    raise SystemExit(f'fail-closed: message kinds outside the model: {unknown}')
missing = [k for k in c15_sim.KINDS if k not in table]
if missing:
    raise SystemExit(f'fail-closed: the traced scenario did not make the node send {missing}')
ambiguous = {k: sorted(map(str, v)) for k, v in table.items() if len(v) != 1}
if ambiguous:
    raise SystemExit(f'fail-closed: a message kind is sent with more than one parameter set / destination class: {ambiguous}')


def pset_term(ps, vals):
    if ps == 'M':
        return 'PMulticast'
    if ps == 'U':
        return 'PUnicast'
    if not vals or len(vals) != 5 or not all(isinstance(v, int) and not isinstance(v, bool) for v in vals) or not 0 <= vals[1] <= 1000:
        raise SystemExit(f'fail-closed: parameter object {vals!r} cannot be translated')
    return f'POther (mkParams ({vals[0]}) {vals[1]}%nat ({vals[2]}) ({vals[3]}) ({vals[4]}))'


rows_p, rows_d, summary = [], [], {}
for k in c15_sim.KINDS:
    (ps, vals, dest), = table[k]
    rows_p.append(f'  | K{k} => {pset_term(ps, vals)}')
    rows_d.append(f'  | K{k} => {"DGroup" if dest == "group" else "DRequester" if dest == "requester" else "DOther"}')
    summary[k] = [ps, dest]
nl = '\n'
text = f'''(* GENERATED on every run by harness/impl/gen_wsd_kinds.py: the real WSDiscovery object of
   src/sdc11073/wsdiscovery/wsdimpl.py is driven through every API call and every incoming message kind
   that makes it send; for each kind the parameter set and the destination passed to
   NetworkingThread.add_outbound_message are recorded -- do not edit. *)
From Coq Require Import ZArith.
From SDC Require Import Wsd.Udp.
Open Scope Z_scope.
Definition impl_kind_pset (k : kind) : pset :=
  match k with
{nl.join(rows_p)}
  end.
Definition impl_kind_dest (k : kind) : dest :=
  match k with
{nl.join(rows_d)}
  end.
'''
print(json.dumps({'rel': 'Wsd/Gen_Kinds.v', 'text': text, 'table': summary, 'calls': ncalls}))
