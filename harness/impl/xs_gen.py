"""Random but VALID instances of the declarative XML types (shared by c05_impl / c12_impl; not a translator).

Every value is set through the real descriptor (`setattr` -> `__set__` -> converter.check_valid).  Scalars are
restricted to values whose textual form is exact today (C18 owns converter exactness): timestamps and
durations are multiples of 1/8 s, decimals have no exponent and no trailing zero."""
from __future__ import annotations

import datetime
from decimal import Decimal

from lxml import etree

import xs_lib as X
from sdc11073.xml_types import dataconverters as dc
from sdc11073.xml_types import isoduration
from sdc11073.xml_types import xml_structure as xs

LETTERS = 'abcXYZ019_-.'
EXOTIC = ['ä', 'ß', '€', '漢', '<', '&', '"', "'", '>', ' ', '  ', '\t', '\n', ';', ':', '/', '%', '#', '\U0001f600']
NS_POOL = [X.NSMAP['dom'], X.NSMAP['msg'], X.NSMAP['sdc'], X.NSMAP['mdpws'], X.NSMAP['dpws'], X.NSMAP['wsd']]


class Skip(Exception):
    """this property kind cannot be populated by the generator (counted by the caller)"""


class Gen:
    def __init__(self, rng, max_depth=3, exotic=0.35, p_optional=0.6, p_subst=0.3, max_list=3):
        self.rng = rng
        self.max_depth = max_depth
        self.exotic = exotic
        self.p_optional = p_optional
        self.p_subst = p_subst
        self.max_list = max_list
        self.stats = {}
        self._subs = {}

    def count(self, key, n=1):
        self.stats[key] = self.stats.get(key, 0) + n

    # ------------------------------------------------------------------ scalars
    def word(self, lo=1, hi=8):
        r = self.rng
        n = r.randint(lo, hi)
        out = []
        for _ in range(n):
            if r.random() < self.exotic * 0.4:
                out.append(r.choice([c for c in EXOTIC if not c.isspace()]))
            else:
                out.append(r.choice(LETTERS))
        return ''.join(out)

    def string(self, min_len=0):
        r = self.rng
        if min_len == 0 and r.random() < 0.08:
            return ''
        n = r.randint(max(min_len, 1), 12)
        out = []
        for _ in range(n):
            if r.random() < self.exotic:
                out.append(r.choice(EXOTIC))
            else:
                out.append(r.choice(LETTERS))
        s = ''.join(out)
        if s != '':
            self.count('str_nonascii', any(ord(c) > 127 for c in s))
        return s

    def uri(self):
        r = self.rng
        return r.choice(['urn:uuid:', 'http://host.example/', 'https://10.0.0.1:8080/a/', 'urn:oid:1.2.', 'sdc.mds.pkp:']) + \
            ''.join(r.choice('abcdef0123456789-') for _ in range(r.randint(1, 12)))

    def lang(self):
        return self.rng.choice(['en', 'en-US', 'de', 'de-DE', 'zh-Hans', 'x-klingon'])

    def integer(self, signed=False):
        r = self.rng
        v = r.choice([0, 1, 2, 7, 42, 1000, 65535, 2 ** 31 - 1, r.randint(0, 10 ** 6)])
        if signed and r.random() < 0.3:
            v = -v
        return v

    def decimal(self, lo=None, hi=None):
        r = self.rng
        if lo is not None:
            return r.choice([Decimal(0), Decimal(1), Decimal('0.5'), Decimal('0.25'), Decimal('0.999')])
        ip = r.choice([0, 1, 3, 12, 100, 98765, r.randint(0, 10 ** 5)])
        fd = r.choice(['', '', '5', '25', '125', '001', '0625', '3', '999'])
        s = f'{ip}.{fd}' if fd else f'{ip}'
        if r.random() < 0.3:
            s = '-' + s
        v = Decimal(s)
        return Decimal(0) if v == 0 else v

    def eighths(self):
        """seconds as a float that is an exact multiple of 1/8 (125 ms): exact through *1000 and /1000"""
        r = self.rng
        return r.choice([0, 1, 8, 12, 100, 12345, r.randint(0, 10 ** 7)]) / 8.0

    def qname(self):
        r = self.rng
        return etree.QName(r.choice(NS_POOL), 'N' + ''.join(r.choice('abcXYZ09_') for _ in range(r.randint(1, 6))))

    def date_of_birth(self):
        r = self.rng
        k = r.randrange(6)
        y = r.choice([1969, 2000, 2024, 1, 9999])
        tz = r.choice([None, None, datetime.timezone.utc, datetime.timezone(datetime.timedelta(hours=2)),
                       datetime.timezone(datetime.timedelta(hours=-5, minutes=-30))])
        if k == 0:
            return isoduration.XsdDateInformation(y, tz_info=tz)
        if k == 1:
            return isoduration.XsdDateInformation(y, r.randint(1, 12), tz_info=tz)
        if k == 2:
            return isoduration.XsdDateInformation(y, r.randint(1, 12), r.randint(1, 28), tz_info=tz)
        if k == 3:
            return isoduration.XsdDateInformation(y, r.randint(1, 12), r.randint(1, 28), r.randint(0, 23), r.randint(0, 59),
                                                  r.choice([0.0, 1.0, 30.5, 59.0, 7.25]), tz_info=tz)
        if k == 4:
            return isoduration.XsdDateInformation(y, r.randint(1, 12), r.randint(1, 28), end_of_day=True, tz_info=tz)
        return isoduration.XsdDateInformation(y, 2, 29 if y in (2000, 2024) else 28, tz_info=tz)

    def any_element(self, depth=0):
        r = self.rng
        el = etree.Element(etree.QName(X.VERIF_NS, 'E' + self.rng.choice('abc')), nsmap={'vx': X.VERIF_NS})
        for _ in range(r.randint(0, 2)):
            el.set('a' + r.choice('xyz'), self.string())
        if depth < 1 and r.random() < 0.4:
            for _ in range(r.randint(1, 2)):
                el.append(self.any_element(depth + 1))
        else:
            t = self.string()
            el.text = t if t.strip() else 't'
        return el

    def by_converter(self, conv, prop, name):
        if conv is dc.StringConverter or isinstance(conv, type) and issubclass(conv, dc.StringConverter):
            return self.string_for(prop, name)
        if isinstance(conv, dc.EnumConverter):
            members = list(conv._klass)  # noqa: SLF001
            self.count('enum_members')
            return self.rng.choice(members)
        if conv is dc.TimestampConverter:
            return self.eighths()
        if conv is dc.DurationConverter:
            return self.eighths()
        if conv is dc.DecimalConverter:
            if isinstance(prop, xs.QualityIndicatorAttributeProperty):
                return self.decimal(0, 1)
            return self.decimal()
        if conv is dc.IntegerConverter or isinstance(conv, type) and issubclass(conv, dc.IntegerConverter):
            signed = type(prop) in (xs.IntegerAttributeProperty, xs.NodeIntProperty) and name in SIGNED_INTS
            return self.integer(signed)
        if conv is dc.BooleanConverter:
            return self.rng.random() < 0.5
        if isinstance(conv, dc.ClassCheckConverter):
            kl = conv._klass  # noqa: SLF001
            if etree.QName in kl:
                return self.qname()
            if str in kl:
                return self.string_for(prop, name)
        raise Skip(f'converter {conv!r}')

    def string_for(self, prop, name):
        if isinstance(prop, (xs.AnyURIAttributeProperty, xs.AnyUriTextElement)):
            return self.uri()
        if isinstance(prop, (xs.HandleAttributeProperty, xs.HandleRefAttributeProperty)):
            return self.string(1)
        if isinstance(prop, (xs.CodeIdentifierAttributeProperty, xs.SymbolicCodeNameAttributeProperty,
                             xs.LocalizedTextRefAttributeProperty)):
            return self.string(1)
        if name in ('Lang', 'lang'):
            return self.lang()
        if isinstance(prop, xs.NodeTextProperty) and getattr(prop, '_min_length', 0):
            return self.string(1)
        return self.string()

    # ------------------------------------------------------------------ structured values
    def subclasses(self, vcls):
        if vcls not in self._subs:
            res = []
            for c in X._subclasses(vcls):  # noqa: SLF001
                nt = getattr(c, 'NODETYPE', None)
                if nt is None or nt == getattr(vcls, 'NODETYPE', None) or c.__name__.startswith('Abstract'):
                    continue
                if not c.__module__.startswith('sdc11073.'):
                    continue
                try:
                    X.class_props(c)
                except X.BrokenClass:
                    continue
                res.append(c)
            res.sort(key=X.class_key)
            self._subs[vcls] = res
        return self._subs[vcls]

    def pick_class(self, prop, vcls):
        """the declared value class or (xsi:type) one of its concrete subclasses that the reader resolves back"""
        subs = [c for c in self.subclasses(vcls) if resolves_back(prop, vcls, c)]
        abstract = vcls.__name__.startswith('Abstract') or getattr(vcls, 'NODETYPE', 1) is None and subs and hasattr(vcls, 'NODETYPE')
        if subs and (abstract or self.rng.random() < self.p_subst):
            self.count('xsi_type_substitutions')
            return self.rng.choice(subs)
        return vcls

    def instance(self, cls, depth=0, full=False):
        """a populated instance of cls; full=True sets every member (optional ones too)"""
        obj = X.construct(cls)
        for name, prop in X.class_props(cls):
            if isinstance(prop, xs.CurrentTimestampAttributeProperty):
                continue
            mandatory = not prop.is_optional
            islist = isinstance(prop, (xs._ElementListProperty, xs._AttributeListBase))  # noqa: SLF001
            if not mandatory and not full:
                p = self.p_optional if depth < self.max_depth else 0.15
                if self.rng.random() > p:
                    self.count('optional_absent')
                    continue
                self.count('optional_present')
            try:
                v = self.value(cls, name, prop, depth, mandatory)
            except Skip as ex:
                self.count('skipped:' + str(ex)[:40])
                continue
            if islist:
                self.count(f'list_len_{min(len(v), 3)}')
            setattr(obj, name, v)
        return obj

    def value(self, owner, name, prop, depth, mandatory=True):
        r = self.rng
        deep = depth >= self.max_depth
        if isinstance(prop, xs._AttributeListBase):  # noqa: SLF001
            n = r.randint(0, self.max_list)
            ec = prop._converter._element_converter  # noqa: SLF001
            if ec is dc.DecimalConverter:
                return [self.decimal() for _ in range(n)]
            return [self.word() for _ in range(n)]
        if isinstance(prop, xs.QNameAttributeProperty):
            return self.qname()
        if isinstance(prop, xs._AttributeBase):  # noqa: SLF001
            return self.by_converter(prop._converter, prop, name)  # noqa: SLF001
        if isinstance(prop, xs.ExtensionNodeProperty):
            return xs.ExtensionLocalValue([self.any_element() for _ in range(r.randint(0 if not mandatory else 1, 2))])
        if isinstance(prop, xs.AnyEtreeNodeListProperty):
            return [self.any_element() for _ in range(r.randint(0, 2))]
        if isinstance(prop, xs.AnyEtreeNodeProperty):
            return [self.any_element() for _ in range(r.randint(1, 2))]
        if isinstance(prop, xs.DateOfBirthProperty):
            return self.date_of_birth()
        if isinstance(prop, xs.NodeTextQNameProperty):
            return self.qname()
        if isinstance(prop, xs.NodeTextQNameListProperty):
            return [self.qname() for _ in range(r.randint(0, self.max_list))]
        if isinstance(prop, xs.NodeTextListProperty):
            return [self.word() for _ in range(r.randint(0, self.max_list))]
        if isinstance(prop, xs.SubElementTextListProperty):
            n = r.randint(0, self.max_list)
            if isinstance(prop, xs.SubElementHandleRefListProperty):
                return [self.string(1) for _ in range(n)]
            return [self.string() for _ in range(n)]
        if isinstance(prop, xs.NodeTextProperty):
            return self.by_converter(prop._converter, prop, name)  # noqa: SLF001
        if isinstance(prop, (xs.SubElementListProperty, xs.ContainerListProperty)):
            n = 0 if deep else r.randint(0, self.max_list)
            return [self.instance(self.pick_class(prop, prop.value_class), depth + 1) for _ in range(n)]
        if isinstance(prop, xs.SubElementWithSubElementListProperty):
            return self.instance(prop.value_class, depth + 1)
        if isinstance(prop, (xs.SubElementProperty, xs.ContainerProperty)):
            return self.instance(self.pick_class(prop, prop.value_class), depth + 1)
        raise Skip(f'property class {type(prop).__name__}')


SIGNED_INTS = ()   # attribute names typed xsd:int / xsd:long (none of today's declarations needs negative values)


def resolves_back(prop, vcls, sub) -> bool:
    """would the reader instantiate `sub` again when it meets xsi:type = sub.NODETYPE ?"""
    try:
        if isinstance(prop, (xs.ContainerProperty, xs.ContainerListProperty)):
            return prop._cls_getter(sub.NODETYPE) is sub  # noqa: SLF001
        node = etree.Element('x', nsmap={'p': sub.NODETYPE.namespace})
        from sdc11073.namespaces import QN_TYPE
        node.set(QN_TYPE, f'p:{sub.NODETYPE.localname}')
        return vcls.value_class_from_node(node) is sub
    except Exception:  # noqa: BLE001
        return False
